------------------------- MODULE LayoutDecode_Trace -------------------------
(* Trace layer for LayoutDecode (C18).  Two kinds of recorded executions of the real code:

   mode "pixels":  one page H x W and rotation k.  For EVERY pixel (x, y): where the real np.rot90 put it (rx, ry)
       - found by rotating an index image, the operation LayoutEngine.detect applies to the page - and what the real
       LayoutEngine.rotate_layout returned for the point (rx, ry), separately for its three lists (regions, baselines,
       outlines), in 1/1000 px.  Accepted iff Rot90 of the spec is what numpy did and every returned point is within
       one pixel of (x, y).  Level "exact": additionally equal to RotateLayout of the spec.

   mode "ridges":  LayoutEngine.detect(image, rot = k) on an engine built with __new__ around a stub network that
       renders the ridges of the configuration into the maps of the rotated image.  Accepted iff no exception, one
       line per ridge (a bijection exists), end points within 3 map px (the code deliberately moves them by 2, the
       3 x 3 smoothing spills 1) + 1 px, row within 1 map px + 1 px, heights = Ds x map heights (1 % of a map pixel),
       outline box = baseline box grown by the heights, regions cover the outlines (6 px: simplify(5)).
       All coordinates are compared in the ORIGINAL image frame, expectation = the pixel np.rot90 moved onto the
       ridge point (InvRot).

   mode "scale":  a sampled page of a SCALE the bounded spaces cannot reach (hundreds / more than a thousand ridges in
       one column, map columns beyond 32767 and coordinates beyond 65535, heights beyond 255 map px; the page carries
       its own map size mh x mw), decoded by a LONG-LIVED engine: all pages of the sample go through one LayoutEngine
       object one after the other, some after a call that raised half-way, the first page once more at the end.
       via = "detect": as mode "ridges";  via = "parse": LayoutEngine.parse(maps, ds) alone (k = 0).
       (mode "ridges" with hist > 0 - another engine with other constructor parameters in the same process - see HistBound.)
       TLC cannot enumerate such configurations (the design run covers up to three ridge slots), but the clause is not
       an oracle computed in Python: the ridges of the page are part of the trace and every one of them is judged here by
       the SAME LineMatches as in mode "ridges".  Only the search through all NL! bijections is replaced by its
       equivalent for ridges >= 15 map rows apart (a line cannot be within Ds + 1 px of two of them): every ridge is
       matched by exactly one line and these lines are all the lines (ScaleOnePerRidge).                           *)
EXTENDS LayoutDecode, TraceKit
CONSTANT Level
VARIABLES tid, clause

Tr == Traces[tid]
U == 1000                       \* recorded coordinates are in 1/1000 px

TInit == /\ tid \in 1..NTraces
         /\ IF Traces[tid].mode = "pixels"
            THEN /\ cfg = [H |-> Traces[tid].H, W |-> Traces[tid].W, k |-> Traces[tid].k, x |-> 0, y |-> 0]
                 /\ pc = "pixel"
            ELSE IF Traces[tid].mode = "scale"
            THEN /\ cfg = [k |-> Traces[tid].k, ds |-> Traces[tid].ds, ep |-> Traces[tid].ep, rm |-> Traces[tid].rm,
                           mh |-> Traces[tid].mh, mw |-> Traces[tid].mw,
                           ridges |-> [i \in 1..Len(Traces[tid].ridges) |->
                                          [dy |-> Traces[tid].ridges[i].dy, y |-> Traces[tid].ridges[i].y, x0 |-> Traces[tid].ridges[i].x0,
                                           x1 |-> Traces[tid].ridges[i].x1, a2 |-> Traces[tid].ridges[i].a2,
                                           d2 |-> Traces[tid].ridges[i].d2]]]
                 /\ pc = "maps"
            ELSE /\ cfg = [k |-> Traces[tid].k, ds |-> Traces[tid].ds, ep |-> Traces[tid].ep, rm |-> Traces[tid].rm,
                           hist |-> IF "hist" \in DOMAIN Traces[tid] THEN Traces[tid].hist ELSE 0,
                           ridges |-> [i \in 1..Len(Traces[tid].ridges) |->
                                          [dy |-> Traces[tid].ridges[i].dy, y |-> Traces[tid].ridges[i].y, x0 |-> Traces[tid].ridges[i].x0,
                                           x1 |-> Traces[tid].ridges[i].x1, a2 |-> Traces[tid].ridges[i].a2,
                                           d2 |-> Traces[tid].ridges[i].d2]]]
                 /\ pc = "maps"
         /\ lines = <<>>
         /\ clause = 0

\* ------------------------------------------------------------------------------- pixels
\* entry e = <<x, y, rx, ry, px, py, bx, by, tx, ty>>
PixelRotOK == /\ Tr.shape[1] = RotShape(cfg.k, cfg.H, cfg.W)[1] /\ Tr.shape[2] = RotShape(cfg.k, cfg.H, cfg.W)[2]
              /\ Len(Tr.px) = cfg.H * cfg.W
              /\ \A i \in 1..Len(Tr.px) : LET e == Tr.px[i] IN Rot90(cfg.k, cfg.H, cfg.W, e[1], e[2]) = <<e[3], e[4]>>
              /\ {<<Tr.px[i][1], Tr.px[i][2]>> : i \in 1..Len(Tr.px)} = (0..(cfg.W - 1)) \X (0..(cfg.H - 1))
PixelBackOK(o) == \A i \in 1..Len(Tr.px) : LET e == Tr.px[i] IN
                     Abs(e[o] - U * e[1]) <= U /\ Abs(e[o + 1] - U * e[2]) <= U
PixelExact == \A i \in 1..Len(Tr.px) : LET e == Tr.px[i]
                                           q == RotateLayout(cfg.k, RotShape(cfg.k, cfg.H, cfg.W), <<e[3], e[4]>>)
                                       IN \A o \in {5, 7, 9} : e[o] = U * q[1] /\ e[o + 1] = U * q[2]
PixelFailing == IF Tr.outcome # "ok" THEN 1
                ELSE IF ~PixelRotOK THEN 2
                ELSE IF ~PixelBackOK(5) THEN 3          \* regions list
                ELSE IF ~PixelBackOK(7) THEN 4          \* baselines list
                ELSE IF ~PixelBackOK(9) THEN 5          \* outlines list
                ELSE IF Level = "exact" /\ ~PixelExact THEN 6
                ELSE 0

\* ------------------------------------------------------------------------------- ridges
L == Tr.lines
NL == Len(L)
AlongX == cfg.k \in {0, 2}                       \* baseline direction in the original frame
TolAlong == (3 * cfg.ds + 1) * U
TolPerp == (cfg.ds + 1) * U
\* InvRot on coordinates in 1/U px
InvRotU(q) == CASE cfg.k = 0 -> q
                [] cfg.k = 1 -> <<(OrigW - 1) * U - q[2], q[1]>>
                [] cfg.k = 2 -> <<(OrigW - 1) * U - q[1], (OrigH - 1) * U - q[2]>>
                [] cfg.k = 3 -> <<q[2], (OrigH - 1) * U - q[1]>>
Along(p) == IF AlongX THEN p[1] ELSE p[2]
Perp(p) == IF AlongX THEN p[2] ELSE p[1]
NearPt(p, e) == Abs(Along(p) - Along(e)) <= TolAlong /\ Abs(Perp(p) - Perp(e)) <= TolPerp
\* a sloped ridge is reported through a few resampled points with integer map rows: one more map pixel of slack across the line
TolP(r) == IF r.dy = 0 THEN TolPerp ELSE TolPerp + cfg.ds * U
NearPtR(p, e, r) == Abs(Along(p) - Along(e)) <= TolAlong /\ Abs(Perp(p) - Perp(e)) <= TolP(r)
MinOf(S) == CHOOSE m \in S : \A o \in S : m <= o
MaxOf(S) == CHOOSE m \in S : \A o \in S : m >= o

\* coordinates in tenths of a pixel (products of two of them stay inside TLC's 32-bit integers)
T10(v) == v \div 100
LineMatches(ln, r) ==
    LET e0 == InvRotU(<<U * cfg.ds * r.x0, U * cfg.ds * r.y>>)
        e1 == InvRotU(<<U * cfg.ds * r.x1, U * cfg.ds * (r.y + r.dy)>>)
        n == Len(ln.pts)
        ha == Max2(U, cfg.ds * r.a2 * 500)          \* baseline_to_textline uses max(1, height)
        hd == Max2(U, cfg.ds * r.d2 * 500)
        ylo == IF r.dy >= 0 THEN r.y ELSE r.y + r.dy
        yhi == IF r.dy >= 0 THEN r.y + r.dy ELSE r.y
        \* outline bounding rectangle in the rotated frame, corners moved to the original frame
        c1 == InvRotU(<<U * cfg.ds * r.x0, U * cfg.ds * ylo - ha>>)
        c2 == InvRotU(<<U * cfg.ds * r.x1, U * cfg.ds * yhi + hd>>)
        da == T10(Along(e1)) - T10(Along(e0))
        dp == T10(Perp(e1)) - T10(Perp(e0))
    IN /\ n >= 2
       /\ NearPtR(ln.pts[1], e0, r) /\ NearPtR(ln.pts[n], e1, r)
       \* every point lies within TolPerp of the straight line through the ridge's end points (flat ridge: dp = 0)
       /\ \A j \in 1..n : Abs((T10(Perp(ln.pts[j])) - T10(Perp(e0))) * da - dp * (T10(Along(ln.pts[j])) - T10(Along(e0))))
                              <= T10(TolP(r)) * Abs(da)
       /\ Abs(ln.h[1] - cfg.ds * r.a2 * 500) <= 10 * cfg.ds
       /\ Abs(ln.h[2] - cfg.ds * r.d2 * 500) <= 10 * cfg.ds
       \* (the outline of a sloped line is offset along slanted normals: one more map pixel of slack for its bounding box)
       /\ LET tb == TolAlong + (IF r.dy = 0 THEN 0 ELSE cfg.ds * U)
          IN /\ Abs(ln.tl[1] - MinOf({c1[1], c2[1]})) <= tb /\ Abs(ln.tl[3] - MaxOf({c1[1], c2[1]})) <= tb
             /\ Abs(ln.tl[2] - MinOf({c1[2], c2[2]})) <= tb /\ Abs(ln.tl[4] - MaxOf({c1[2], c2[2]})) <= tb
Bijections == {f \in [1..NL -> 1..NL] : \A i, j \in 1..NL : i # j => f[i] # f[j]}
OneLinePerRidge == \E f \in Bijections : \A i \in 1..NL : LineMatches(L[i], cfg.ridges[f[i]])
RegTol == 6 * U
RegionsCover == /\ Tr.nreg >= 1
                /\ Abs(Tr.reg[1] - MinOf({L[i].tl[1] : i \in 1..NL})) <= RegTol
                /\ Abs(Tr.reg[2] - MinOf({L[i].tl[2] : i \in 1..NL})) <= RegTol
                /\ Abs(Tr.reg[3] - MaxOf({L[i].tl[3] : i \in 1..NL})) <= RegTol
                /\ Abs(Tr.reg[4] - MaxOf({L[i].tl[4] : i \in 1..NL})) <= RegTol
\* detailed model: the end points the current algorithm produces (exact with end-point responses, 3 map px outwards without)
ExactLine(ln, r) ==
    LET e == IF cfg.ep THEN 0 ELSE 3
        q0 == RotateLayout(cfg.k, <<RotH, RotW>>, <<cfg.ds * (r.x0 - e), cfg.ds * r.y>>)
        q1 == RotateLayout(cfg.k, <<RotH, RotW>>, <<cfg.ds * (r.x1 + e), cfg.ds * (r.y + r.dy)>>)
    IN ln.pts[1] = <<U * q0[1], U * q0[2]>> /\ ln.pts[Len(ln.pts)] = <<U * q1[1], U * q1[2]>>
ExactLines == \E f \in Bijections : \A i \in 1..NL : ExactLine(L[i], cfg.ridges[f[i]])

\* the rotation clause on its own, at its own tolerance (1 px): every line returned by detect(image, rot=k) is the
\* un-rotation, with respect to the REAL size of the rotated image, of a line that parse() decodes from the same maps
PL == Tr.plines
UnrotOf(ln, pl) == /\ Len(ln.pts) = Len(pl.pts)
                   /\ \A j \in 1..Len(ln.pts) :
                         LET e == InvRotU(<<pl.pts[j][1], pl.pts[j][2]>>)
                         IN Abs(ln.pts[j][1] - e[1]) <= U /\ Abs(ln.pts[j][2] - e[2]) <= U
UnrotWithinOnePixel == /\ Len(PL) = NL
                       /\ \A i \in 1..NL : \E j \in 1..Len(PL) : UnrotOf(L[i], PL[j])

\* several engines in one process (cfg.hist > 0): the driver built ANOTHER LayoutEngine with the recorded constructor parameters
\* Tr.other through the real constructor and let it parse a page, then the default engine (also from the real constructor) decoded
\* the configuration's maps.  The binding: the other engine is the one the design run explored (OtherEngines[hist]).  The verdict
\* clauses below do not mention hist: what the default engine returns is judged against its own configuration alone.
HistBound == HistOf = 0 \/ (HistOf \in 1..Len(OtherEngines) /\ Tr.other = OtherEngines[HistOf])
RidgeFailing == IF ~HistBound THEN 9                                        \* (a driver bug, not a verdict on the code)
                ELSE IF Tr.outcome # "ok" THEN 1
                ELSE IF NL # Len(cfg.ridges) THEN 2                         \* exactly one line per ridge
                ELSE IF ~OneLinePerRidge THEN 3                             \* positions / heights / outlines
                ELSE IF ~RegionsCover THEN 4
                ELSE IF ~UnrotWithinOnePixel THEN 7                         \* original-image coordinates within one pixel
                ELSE IF Level = "exact" /\ (Tr.seen[1] # RotH \/ Tr.seen[2] # RotW) THEN 5
                \* (the exact end points are modelled for flat ridges only)
                ELSE IF Level = "exact" /\ (\A i \in 1..Len(cfg.ridges) : cfg.ridges[i].dy = 0) /\ ~ExactLines THEN 6
                ELSE 0

\* ------------------------------------------------------------------------------- scale (sampled large pages, long-lived engine)
NR == Len(cfg.ridges)
\* the ridges of such a page are a legal input of the statement: inside the maps, >= 6 px long (>= 10 with end-point responses),
\* >= 15 map rows apart, in increasing row order
ScaleInScope == /\ NR >= 1
                /\ \A i \in 1..NR : LET r == cfg.ridges[i] IN
                       /\ r.x0 >= 3 /\ r.x1 <= cfg.mw - 3 /\ r.x1 - r.x0 + 1 >= ShortLen(cfg.ep) /\ r.dy = 0
                       /\ r.y >= 8 /\ r.y <= cfg.mh - 7 /\ r.a2 >= 0 /\ r.d2 >= 0
                       /\ (i > 1 => r.y - cfg.ridges[i - 1].y >= 15)
ScaleOnePerRidge ==
    LET m == [r \in 1..NR |-> {i \in 1..NL : LineMatches(L[i], cfg.ridges[r])}]
    IN /\ \A r \in 1..NR : Cardinality(m[r]) = 1
       /\ {CHOOSE i \in m[r] : TRUE : r \in 1..NR} = 1..NL
ScaleFailing == IF ~ScaleInScope THEN 9                                     \* (a driver bug, not a verdict on the code)
                ELSE IF Tr.outcome # "ok" THEN 1
                ELSE IF NL # NR THEN 2                                      \* exactly one line per ridge
                ELSE IF ~ScaleOnePerRidge THEN 3                            \* positions / heights / outlines
                ELSE IF Tr.via = "detect" /\ ~RegionsCover THEN 4
                ELSE IF Tr.via = "detect" /\ ~UnrotWithinOnePixel THEN 7    \* original-image coordinates within one pixel
                ELSE 0

TNext == /\ UNCHANGED tid
         /\ \/ /\ pc = "pixel" /\ pc' = "checked" /\ UNCHANGED <<cfg, lines>> /\ clause' = PixelFailing
            \/ /\ Parse /\ UNCHANGED clause
            \/ /\ Rotate /\ clause' = IF Tr.mode = "scale" THEN ScaleFailing ELSE RidgeFailing

Steps == CASE pc \in {"pixel", "maps"} -> 0 [] pc = "parsed" -> 1 [] OTHER -> 10 + clause
TAccept == TKMark(tid, Steps, pc \in {"checked", "rotated"} /\ clause = 0)
TPost == TKPost
ASSUME TKReset
=============================================================================
