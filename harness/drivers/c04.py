"""C04 - greedy transcription = CTC collapse of the arg-max path; engine decoder == stand-alone decoder
(DESIGN.md section 4 C04, Appendix A.15).

1. Design: TLC checks spec/Greedy.tla for every batch of N lines x T <= MaxT frames over C classes (blank = last class):
   the groupby scan of GreedyDecoder and the vectorised algorithm of greedy_decode_ctc (prepended forced-blank frame, +1 shift,
   repeat mask, blank -> 0, -1) both equal Collapse = drop-blanks(merge-repeats(path)) on every line, and agree with each other.
   The three defects of Appendix B seeded inside the model (Mut) must violate.
2. Cases: every TLC initial state (batch of arg-max paths) is rendered as a score tensor N x C x T with a unique arg-max per frame
   (seeded margins / distractor values, occasionally large magnitudes) and decoded by the real greedy_decode_ctc, by
   GreedyDecoder on the log-softmax of each line and by PytorchEngineLineOCR.run_ocr with a stub network returning the same scores.
3. Conformance: TLC judges every recorded execution in Greedy_Trace (all three texts of every line = Collapse).
4. History: the decoders are driven the way long-running callers drive them - one character-table list edited in place, one
   GreedyDecoder per alphabet and one engine object per process serve many cases; every fifth case first decodes ANOTHER small
   batch with another alphabet on the very same objects, every tenth additionally makes calls that fail on them (table too
   short, unnormalised log-probabilities, a network that raises) - and the recorded call must still be the collapse.
5. Scale (kind "wide"): sampled tensors beyond what TLC enumerates - more than 255 / 1024 / 4096 / 32767 / 65535 frames, more than
   255 / 32767 / 65535 classes, texts of more than 65535 characters; lines: random runs, all blank, one symbol from the first to the
   last frame, single-frame runs.  The arg-max path is recorded run-length encoded and TLC computes the expected text from the
   runs (Greedy_Trace, WideCollapse); Python only expands the runs into the tensor.
6. Element types and magnitudes (round 9, field "raw", regimes): the statement is about the arg-max symbols of the score tensor AS
   GIVEN.  Every case also hands each line of the tensor itself (its own element type, the frames x symbols view run_ocr returns)
   to the stand-alone GreedyDecoder (max_unnormalization=inf as the repository's tests do, or the default for normalised rows),
   and a share of the batches is rendered a second time in a regime real network output reaches: raw float32 / float64 scores
   on which exp() overflows to inf for several classes of a frame or underflows to 0 for all of them, and normalised
   log-probabilities (both element types) whose winner leads a LOWER-indexed class by one unit in the last place while the two
   posteriors are equal.  The arg-max of the scores is unique in every frame; the expected text is still Collapse(paths) (TLC).
"""
import itertools
import random
import warnings

import numpy as np

from ..core import pmap

LEVEL = "model_checking"
INVS = ["ScanIsCollapse", "VecIsCollapse", "DecodersAgree"]
# character tables deliberately not in code-point order, multi-byte characters included; the last entry is the blank
TABLE = ["q", "Z", "é", "b", "א", "7"]
ENGINE_BLANK = "​"
CLAUSES = {1: "an exception was raised", 2: "greedy_decode_ctc text differs from the CTC collapse of the arg-max path",
           3: "GreedyDecoder text differs from the CTC collapse of the arg-max path",
           4: "PytorchEngineLineOCR.run_ocr text differs from the CTC collapse of the arg-max path",
           5: "char_confidences.greedy_filtration text differs from the CTC collapse of the arg-max path",
           6: "GreedyDecoder text on the network output as given (own element type, not re-normalised) differs from the CTC collapse "
              "of the arg-max path of these scores"}
SIGS = {1: "exception", 2: "engine-decoder", 3: "standalone-decoder", 4: "run_ocr", 5: "greedy-filtration", 6: "standalone-decoder-raw"}
# round 9: regimes of element type / magnitude in which a share of the batches is rendered a second time
REGIMES = ["hi32", "lo32", "ulp32", "hi64", "lo64", "ulp64"]
REGIME_EVERY = {"quick": 4, "thorough": 2}        # every k-th batch of a configuration is ALSO rendered in one of the regimes


class _RenderError(Exception):
    """the driver could not build the intended input (never a verdict about the code)"""


def configs(tier):
    q = [{"C": 3, "MaxT": 4, "N": 2, "cap": None}, {"C": 3, "MaxT": 6, "N": 1, "cap": None}, {"C": 2, "MaxT": 5, "N": 2, "cap": None}]
    if tier == "quick":
        return q
    return q + [{"C": 4, "MaxT": 6, "N": 1, "cap": None}, {"C": 4, "MaxT": 4, "N": 2, "cap": 30000}, {"C": 3, "MaxT": 3, "N": 3, "cap": None},
                {"C": 5, "MaxT": 5, "N": 1, "cap": None}, {"C": 3, "MaxT": 5, "N": 2, "cap": 30000}]


def _lab(c):
    return "C=%d MaxT=%d N=%d" % (c["C"], c["MaxT"], c["N"])


def batches(c, rng):
    out = []
    for t in range(1, c["MaxT"] + 1):
        rows = list(itertools.product(range(c["C"]), repeat=t))
        out.extend(itertools.product(rows, repeat=c["N"]))
    complete = True
    if c["cap"] and len(out) > c["cap"]:
        out = rng.sample(out, c["cap"])
        complete = False
    return out, complete


_CFG = {}


def render(paths, nc, seed):
    """score tensor N x C x T (float32) whose arg-max in frame f of line n is paths[n][f]; margins, distractors and the overall
    magnitude are seeded (logits of a real network are unnormalised)"""
    rng = random.Random(seed)
    n, t = len(paths), len(paths[0])
    scale = rng.choice([1.0, 1.0, 5.0, 40.0])
    sc = np.empty((n, nc, t), dtype=np.float32)
    for i in range(n):
        for f in range(t):
            top = rng.uniform(-2.0, 3.0)
            for k in range(nc):
                sc[i, k, f] = (top - rng.uniform(0.5, 4.0)) * scale
            sc[i, paths[i][f], f] = top * scale
            if rng.random() < 0.2:      # near tie: second best only 0.5 below the maximum
                other = rng.choice([k for k in range(nc) if k != paths[i][f]])
                sc[i, other, f] = (top - 0.5) * scale
            elif rng.random() < 0.15 and paths[i][f] < nc - 1:
                # exact tie with a LATER class (often the blank, which is last): numpy and torch both document that arg-max
                # returns the first maximal index, so the arg-max path is still the intended one
                later = rng.choice(list(range(paths[i][f] + 1, nc)))
                sc[i, later, f] = sc[i, paths[i][f], f]
    return sc


def _ulp_pair(p0, dt, steps, log=True):
    """a < b adjacent values of element type dt from log(p0) upwards whose exponentials are EQUAL in dt (None if none within `steps`)"""
    a = dt(np.log(p0)) if log else dt(p0)
    for _ in range(steps):
        b = np.nextafter(a, dt(0.0))
        ex = np.exp(np.array([a, b], dtype=dt))
        if ex[0] == ex[1]:
            return a, b
        a = b
    return None


def render_regime(paths, nc, seed, regime):
    """score tensor N x C x T, float32 (regime *32) or float64 (*64), whose arg-max in frame f of line n is paths[n][f] - unique,
    margin >= 0.5 except in the ulp frames:
    hi   raw scores up to 990: exp() overflows to inf for the winner and for most other classes of a frame
    lo   raw scores down to -999: exp() underflows to 0 for every class of a frame
    ulp  normalised log-probabilities; where the intended class is not the first one, most frames give a LOWER-indexed class the
         next representable value below the winner's, chosen such that the two posteriors are equal in the element type
    a quarter of the frames of hi / lo is an ordinary frame (as render())"""
    rng = random.Random(seed * 13 + 5)
    dt = np.float32 if regime.endswith("32") else np.float64
    n, t = len(paths), len(paths[0])
    kind = regime[:-2]
    over, under = (89.0, -105.0) if dt is np.float32 else (711.0, -750.0)
    sc = np.empty((n, nc, t), dtype=dt)
    for i in range(n):
        for f in range(t):
            k = paths[i][f]
            if kind == "ulp":
                pair = None
                if k >= 1 and rng.random() < 0.7:
                    if nc == 2:     # no third class to take the rest: both posteriors within a few units in the last place of 0.5
                        a0 = dt(np.log(0.5))
                        for _ in range(rng.randint(1, 6)):
                            a0 = np.nextafter(a0, dt(-9.0))
                        pair = _ulp_pair(a0, dt, 12, log=False)
                    else:
                        pair = _ulp_pair(rng.uniform(0.37, 0.49), dt, 3000)
                if pair is not None:
                    a, b = pair
                    j = rng.randrange(k)
                    rest = [c for c in range(nc) if c not in (j, k)]
                    mass = 1.0 - float(np.exp(np.float64(a))) - float(np.exp(np.float64(b)))
                    if rest and mass <= 1e-9:
                        pair = None
                    else:
                        w = [rng.uniform(0.2, 1.0) for _ in rest]
                        for c, wc in zip(rest, w):
                            sc[i, c, f] = np.log(mass * wc / sum(w))
                        sc[i, j, f], sc[i, k, f] = a, b
                if pair is None:        # ordinary normalised frame, clear margin
                    top = rng.uniform(-2.0, 3.0)
                    row = np.array([top - rng.uniform(0.5, 4.0) for _ in range(nc)], dtype=np.float64)
                    row[k] = top
                    sc[i, :, f] = row - np.log(np.sum(np.exp(row - top))) - top
                continue
            mode = kind if rng.random() < 0.75 else "plain"
            if mode == "hi":
                top = rng.uniform(over + 4.0, 990.0)
                for c in range(nc):
                    sc[i, c, f] = rng.uniform(over, top - 0.5) if rng.random() < 0.75 else rng.uniform(-60.0, 60.0)
            elif mode == "lo":
                top = rng.uniform(-990.0, under)
                for c in range(nc):
                    sc[i, c, f] = rng.uniform(-999.0, top - 0.5)
            else:
                top = rng.uniform(-2.0, 3.0) * 5.0
                for c in range(nc):
                    sc[i, c, f] = top - rng.uniform(0.5, 4.0) * 5.0
            sc[i, k, f] = top
    return sc


def _inverse(text, table):
    out = []
    for ch in text:
        out.append(table.index(ch) if ch in table else 99)
    return out


_PERSISTENT_TABLE = []
_LONG_LIVED = {}          # objects a long-running caller keeps: GreedyDecoder per alphabet, the engine


def _alphabet(nc, rot):
    """nc - 1 distinct characters, not in code-point order; TABLE rotated for the small alphabets"""
    if nc - 1 <= len(TABLE):
        return (TABLE[rot:] + TABLE[:rot])[:nc - 1]
    out, cp = [], 0x100 + 7 * rot
    while len(out) < nc - 1:
        if not (0xD800 <= cp <= 0xDFFF) and cp != 0x200B:
            out.append(chr(cp))
        cp += 1
    half = len(out) // 2
    return out[half:] + out[:half]


def _single_thread():
    """tensors here are small: the thread pool of torch only costs time (and fights with the parallel workers)"""
    if not _LONG_LIVED.get("threads"):
        import torch
        torch.set_num_threads(1)
        _LONG_LIVED["threads"] = True


class _NetworkDown(RuntimeError):
    pass


def _down(batch):
    raise _NetworkDown("stub network failure")


def _engine(chars, fresh):
    import torch
    from pero_ocr.ocr_engine.pytorch_ocr_engine import PytorchEngineLineOCR
    e = None if fresh else _LONG_LIVED.get("engine")
    if e is None:
        e = PytorchEngineLineOCR.__new__(PytorchEngineLineOCR)
        e.device = torch.device("cpu")
        e.embed_id = None
        if not fresh:
            _LONG_LIVED["engine"] = e
    e.characters = chars
    return e


def _standalone(letters, fresh):
    from pero_ocr.decoding.decoders import GreedyDecoder, BLANK_SYMBOL
    key = ("gd",) + tuple(letters) if len(letters) < 50 else ("gd", len(letters), letters[0])
    gd = None if fresh else _LONG_LIVED.get(key)
    if gd is None:
        gd = GreedyDecoder(list(letters) + [BLANK_SYMBOL])
        if not fresh:
            _LONG_LIVED[key] = gd
    return gd


def _table(letters, persistent):
    """the character table handed to the engine-side functions: a fresh list, or ONE long-lived list object edited in place"""
    if not persistent:
        return list(letters) + [ENGINE_BLANK]
    _PERSISTENT_TABLE[:] = list(letters) + [ENGINE_BLANK]
    return _PERSISTENT_TABLE


def _decode_all(sc, chars, letters, gd, e, inv, rec, regime="plain", want=None):
    """the greedy transcriptions of the score tensor sc (N x C x T, float32 or float64), as class indices.  want: the arg-max
    path of sc - inputs DERIVED from sc for functions that need log-probabilities / posteriors must have the same one"""
    import torch
    from pero_ocr.ocr_engine.pytorch_ocr_engine import greedy_decode_ctc
    from pero_ocr.decoding.decoders import BLANK_SYMBOL
    from pero_ocr.char_confidences import greedy_filtration
    n, nc, t = sc.shape
    # engine-side decoder, 3-D input as in run_ocr
    eng = greedy_decode_ctc(torch.from_numpy(sc.copy()), chars)
    rec["eng"] = [inv(x) for x in eng]
    # stand-alone decoder on the normalised log-probabilities of each line (frames x symbols)
    alone = []
    for i in range(n):
        if regime.startswith("ulp"):      # already normalised log-probabilities: widened exactly, not re-normalised
            lp = sc[i].T.astype(np.float64).copy()
        else:
            lp = torch.log_softmax(torch.from_numpy(sc[i].T.astype(np.float64).copy()), dim=1).numpy()
        if want is not None and not (lp.argmax(axis=1) == want[i]).all():
            raise _RenderError("log-softmax of the rendered scores has another arg-max path")
        txt = gd(lp).best_hyp().replace(BLANK_SYMBOL, ENGINE_BLANK)
        alone.append(inv(txt))
    rec["alone"] = alone
    # stand-alone decoder on the network output AS GIVEN: line i of the tensor in its own element type, the frames x symbols view
    # run_ocr hands out; raw scores are not normalised (max_unnormalization=inf, as the repository's tests call the decoders),
    # the ulp regimes are normalised log-probabilities and half of them go through the default normalisation check
    raw = []
    for i in range(n):
        kw = {} if regime.startswith("ulp") and (n + t + i) % 2 == 0 else {"max_unnormalization": np.inf}
        with warnings.catch_warnings():
            warnings.simplefilter("ignore")          # numpy reports the overflow of exp() in the normalisation check
            txt = gd(sc[i].T, **kw).best_hyp().replace(BLANK_SYMBOL, ENGINE_BLANK)
        raw.append(inv(txt))
    rec["raw"] = raw
    # the third greedy transcription of the library (pero_ocr/char_confidences.py, per-character confidences for a line):
    # posteriors frames x symbols, blank last
    filt = []
    for i in range(n):
        pr = torch.softmax(torch.from_numpy(sc[i].T.astype(np.float64).copy()), dim=1).numpy()
        if want is not None and not (pr.argmax(axis=1) == want[i]).all():
            if regime != "ulp64":
                raise _RenderError("softmax of the rendered scores has another arg-max path")
            # float64 posteriors cannot represent a lead of one float64 unit in the last place: the function is not called
            rec["nofilt"] = True
            filt = []
            break
        filt.append(inv(greedy_filtration(pr, chars)[0]))
    rec["filt"] = filt
    # the engine itself with a stub network (the network output IS the score tensor)
    stub_out = torch.from_numpy(sc.copy())
    e.model = lambda batch: stub_out.clone()
    dec, logits = e.run_ocr(np.zeros((n, 4, 4 * t, 3), dtype=np.uint8))
    rec["ocr"] = [inv(x) for x in dec]
    # not part of the statement (drift only): run_ocr hands the network output on as N x T x C
    rec["logits_same"] = bool(logits.shape == (n, t, nc) and np.array_equal(logits, np.transpose(sc, (0, 2, 1))))


def _failing_calls(nc, chars, gd, e):
    """Calls outside the scope, on the long-lived objects, that may raise half-way: a character table shorter than the number of
    classes, log-probabilities that are not normalised, a network that raises.  Whatever happens there, nothing may be left
    behind for the next call."""
    import torch
    from pero_ocr.ocr_engine.pytorch_ocr_engine import greedy_decode_ctc
    from pero_ocr.char_confidences import greedy_filtration
    # the first line can still be decoded with the short table, the second cannot: the call fails half-way
    path = [[0, 0, nc - 1], [(f + 1) % max(1, nc - 1) for f in range(3)]]
    sc = render(path, nc, 12345)
    full = list(chars)
    short = chars
    del short[1:]                    # the caller's table, too short for a moment (the same list object when it is long-lived)
    try:
        greedy_decode_ctc(torch.from_numpy(sc.copy()), short)
    except BaseException:
        pass
    try:
        greedy_filtration(torch.softmax(torch.from_numpy(sc[1].T.astype(np.float64).copy()), dim=1).numpy(), short)
    except BaseException:
        pass
    short[:] = full
    try:
        gd(sc[1].T.astype(np.float64) + 3.0)
    except BaseException:
        pass
    e.model = _down
    try:
        e.run_ocr(np.zeros((2, 4, 12, 3), dtype=np.uint8))
    except BaseException:
        pass


def _prelude(nc, seed, chars_persistent, gd_of, e, fail):
    """Another small batch, with another alphabet, decoded on the same long-lived objects just before the recorded call
    (and, for some cases, calls that fail).  Its own texts are not recorded: every small batch is a case of its own."""
    rng = random.Random(seed * 7 + 1)
    rot = (seed + 1) % 3
    letters = _alphabet(nc, rot)
    chars = _table(letters, chars_persistent)
    t = rng.randint(2, 4)
    paths = [[rng.randrange(nc) for _ in range(t)] for _ in range(2)]
    e.characters = chars
    gd = gd_of(letters)
    try:
        _decode_all(render(paths, nc, seed + 17), chars, letters, gd, e, lambda x: 0, {})
    except Exception:
        pass
    if fail:
        _failing_calls(nc, chars, gd, e)


def _decode_one(item):
    paths, seed = item[0], item[1]
    regime = item[2] if len(item) > 2 else "plain"
    nc = _CFG["C"]
    _single_thread()
    # the character table varies from call to call (rotated alphabet), either as a fresh list or as ONE long-lived list object
    # edited in place: the text must be mapped through the table that is passed in, whatever was decoded before
    rot = seed % 3
    letters = _alphabet(nc, rot)
    persistent = seed % 2 == 0
    fresh = (seed // 2) % 2 == 1            # decoder / engine objects made for this case, or the long-lived ones of the process
    case_objs = {}

    def gd_of(ls):
        if not fresh:
            return _standalone(ls, False)
        if tuple(ls) not in case_objs:
            case_objs[tuple(ls)] = _standalone(ls, True)
        return case_objs[tuple(ls)]
    rec = {"kind": "batch", "paths": [list(p) for p in paths], "outcome": "ok", "eng": [], "alone": [], "ocr": [], "filt": [], "raw": [],
           "logits_same": True, "hist": 0, "regime": regime, "nofilt": False}
    try:
        e = _engine([], fresh)
        if seed % 5 == 0:
            rec["hist"] = 2 if seed % 10 == 0 else 1
            _prelude(nc, seed, persistent, gd_of, e, seed % 10 == 0)
        chars = _table(letters, persistent)
        e.characters = chars
        want = np.array(paths)
        if regime == "plain":
            sc = render(paths, nc, seed)
            assert (sc.argmax(axis=1) == want).all()
        else:
            sc = render_regime(paths, nc, seed, regime)
            if not (sc.argmax(axis=1) == want).all() or not np.isfinite(sc).all() or np.abs(sc).max() >= 1000.0:
                raise _RenderError("rendered scores do not have the intended arg-max path")
        _decode_all(sc, chars, letters, gd_of(letters), e, lambda x: _inverse(x, chars), rec, regime, want)
    except _RenderError as ex:   # the driver's own fault: machinery failure in the parent, never a verdict
        rec["outcome"] = "harness:" + str(ex)
    except Exception as ex:      # part of the observation
        rec["outcome"] = "exception:" + type(ex).__name__
    return rec


# ------------------------------------------------------------------------------------------------ scale ("wide" cases)
# (classes, lines, frames): beyond 255 / 1024 / 2048 / 4096 / 32767 / 65535 frames, beyond 255 / 32767 / 65535 classes
# (few distinct class counts in the quick tier: one TLC run per class count, C is a constant of the specification)
WIDE_QUICK = [(6, ["runs", "blank", "const", "short"], 300), (6, ["const", "runs", "blank", "runs"], 1500),
              (6, ["runs", "const", "short"], 2600), (6, ["short", "const", "runs"], 4500), (6, ["const", "runs"], 33000),
              (6, ["runs", "alt", "const"], 70000),
              (300, ["runs", "short", "const"], 80), (300, ["short", "runs"], 1100), (70000, ["short", "runs"], 48)]
WIDE_THOROUGH = [(3, ["runs", "const", "short", "blank"], 9000), (4, ["const", "runs"], 2048), (5, ["alt", "const"], 140000), (2, ["alt", "const", "blank"], 5000),
                 (40000, ["short", "runs", "const"], 70), (1100, ["runs", "short"], 2100), (300, ["alt", "runs"], 9000)]


def wide_cases(tier, seed):
    shapes = WIDE_QUICK + (WIDE_THOROUGH if tier != "quick" else [])
    rng = random.Random(seed * 31 + 4)
    return [{"kind": "wide", "nc": nc, "lines": kinds, "T": t + rng.randint(0, max(8, t // 16)), "seed": seed * 1000 + 37 * k + 1}
            for k, (nc, kinds, t) in enumerate(shapes)]


def _wide_runs(case):
    """run-length encoded arg-max paths of the lines of a wide case: per line the run symbols and the (cumulative) run ends"""
    rng = random.Random(case["seed"])
    nc, t_all = case["nc"], case["T"]
    blank = nc - 1
    # symbols from the whole class range: the first, the last one adjacent to the blank, and ids beyond 8 / 15 / 16 bits
    pool = sorted({0, nc - 2, max(0, nc - 3)} | {rng.randrange(nc - 1) for _ in range(6)} |
                  {k for k in (255, 256, 257, 32767, 32768, 65535, 65536) if k < nc - 1})
    syms, ends = [], []
    for kind in case["lines"]:
        s, e, f = [], [], 0
        while f < t_all:
            if kind == "blank":
                sym, ln = blank, t_all
            elif kind == "const":
                sym, ln = pool[len(pool) // 2], t_all
            elif kind == "alt":          # single-frame runs, hardly any blank: a text about as long as the line has frames
                sym, ln = (blank if rng.random() < 0.02 else rng.choice(pool)), 1
            elif kind == "short":        # runs of 1-3 frames, repeats split by a single blank frame
                sym, ln = (blank if rng.random() < 0.3 else rng.choice(pool[:3])), rng.choice([1, 1, 1, 2, 3])
            else:                        # "runs": mixed lengths from one frame to hundreds
                sym = blank if rng.random() < 0.35 else rng.choice(pool)
                ln = rng.choice([1, rng.randint(2, 5), rng.randint(6, 80), rng.randint(6, 80), rng.randint(100, 600)])
            if kind in ("alt", "short") and s and s[-1] == sym and sym != blank and rng.random() < 0.5:
                continue
            ln = min(ln, t_all - f)
            f += ln
            s.append(sym)
            e.append(f)
        syms.append(s)
        ends.append(e)
    return syms, ends


def render_wide(paths, nc, seed):
    """as render(), vectorised: N x C x T float32 with arg-max paths[n][f], margin >= 0.5 x magnitude"""
    rs = np.random.RandomState(seed % (2 ** 31))
    n, t = paths.shape
    scale = [1.0, 5.0, 40.0][seed % 3]
    top = rs.uniform(-2.0, 3.0, size=(n, 1, t))
    sc = ((top - rs.uniform(0.5, 4.0, size=(n, nc, t))) * scale).astype(np.float32)
    sc[np.arange(n)[:, None], paths, np.arange(t)[None, :]] = (top[:, 0, :] * scale).astype(np.float32)
    return sc


def run_wide(case):
    """one wide case on the long-lived objects of this process, after a small batch and failing calls on the same objects"""
    nc, seed = case["nc"], case["seed"]
    _single_thread()
    syms, ends = _wide_runs(case)
    rec = {"kind": "wide", "nc": nc, "T": case["T"], "syms": syms, "ends": ends, "outcome": "ok", "eng": [], "alone": [], "ocr": [],
           "filt": [], "raw": [], "logits_same": True, "seed": seed}
    try:
        paths = np.stack([np.repeat(np.array(s, dtype=np.int64), np.diff([0] + e)) for s, e in zip(syms, ends)])
        letters = _alphabet(nc, seed % 3)
        persistent = seed % 2 == 0
        e = _engine([], False)
        _prelude(nc, seed, persistent, lambda ls: _standalone(ls, False), e, True)
        chars = _table(letters, persistent)
        e.characters = chars
        index = {ch: k for k, ch in enumerate(chars)}
        sc = render_wide(paths, nc, seed)
        assert sc.shape == (len(syms), nc, case["T"]) and (sc.argmax(axis=1) == paths).all()
        _decode_all(sc, chars, letters, _standalone(letters, False), e, lambda x: [index.get(ch, nc + 99) for ch in x], rec)
    except Exception as ex:      # part of the observation
        rec["outcome"] = "exception:" + type(ex).__name__
    return rec


def _brief(x, k=12):
    return [(v if len(v) <= 2 * k else v[:k] + ["...(%d)..." % len(v)] + v[-k:]) for v in x] if isinstance(x, list) else x


def _corrupt_wide(tr):
    import copy
    tr = copy.deepcopy(tr)
    line = next(k for k, x in enumerate(tr["ocr"]) if x)
    tr["ocr"][line] = tr["ocr"][line] + tr["ocr"][line][-1:]      # the last character of a line comes out twice
    return tr


def judge_wide(ctx, cases, traces, label="wide", selftest=False):
    """wide traces are validated per class count: C is a constant of the specification (Blank = C - 1).  selftest: a corrupted copy
    of one recorded trace rides along (binding self-test, DESIGN.md 3.6) and must be rejected by the run_ocr clause."""
    from ..core import MachineryFailure
    rejected = []
    for nc in sorted({tr["nc"] for tr in traces}):
        idx = [i for i, tr in enumerate(traces) if tr["nc"] == nc]
        group = [traces[i] for i in idx]
        probe = next((tr for tr in group if tr["outcome"] == "ok" and tr["T"] > 1024 and len(tr["syms"][0]) < 3000 and any(tr["ocr"])), None)
        probe = probe if selftest else None
        if probe is not None:
            group = group + [_corrupt_wide(probe)]
            selftest = False
        acc, rej = ctx.validate("Greedy_Trace", group, constants={"C": nc, "MaxT": 1, "N": 1, "Mut": "none"}, shards=1,
                                jvm_mem="4g", label="Greedy_Trace %s C=%d" % (label, nc))
        if probe is not None:
            hit = [x for x in rej if x[0] == len(idx)]
            rej = [x for x in rej if x[0] != len(idx)]
            probe_rejected = group.index(probe) in [j for j, _ in rej]
            ctx.notes.setdefault("selftest_corrupted_trace_rejected", []).append(bool(hit))
            if not hit or (not probe_rejected and hit[0][1] != 4):
                raise MachineryFailure("binding self-test failed for Greedy_Trace (wide): the corrupted trace was %s" % (hit or "accepted"))
        rejected += [(idx[j], clause) for j, clause in rej]
    for case, tr in zip(cases, traces):
        ctx.count(1, ("wide", tr["nc"], tr["T"], tuple(case["lines"])))
    changed = [tr for tr in traces if not tr.get("logits_same", True)]
    if changed:
        ctx.model_drift("run_ocr returns logits that are not the permuted network output", len(changed), {"wide": [changed[0]["nc"], changed[0]["T"]]})
    for i, clause in rejected:
        tr, case = traces[i], cases[i]
        ctx.violation({"wide": case, "clause": clause}, SIGS.get(clause, "clause%d" % clause) + "-wide",
                      "%s; %d lines (%s) x %d classes (blank=%d) x %d frames, arg-max path given by %s runs -> engine=%s stand-alone=%s "
                      "run_ocr=%s greedy_filtration=%s outcome=%s (texts as class indices, abridged)" % (
                          CLAUSES.get(clause, "?"), len(case["lines"]), "/".join(case["lines"]), tr["nc"], tr["nc"] - 1, tr["T"],
                          [len(s) for s in tr["syms"]], _brief(tr["eng"]), _brief(tr["alone"]), _brief(tr["ocr"]), _brief(tr["filt"]),
                          tr["outcome"]))
    return rejected


def execute(c, items):
    global _CFG
    _CFG = dict(c)
    return pmap(_decode_one, items, procs=6)


def consts_of(c, mut="none"):
    return {"C": c["C"], "MaxT": c["MaxT"], "N": c["N"], "Mut": mut}


def judge(ctx, c, traces):
    from ..core import MachineryFailure
    bad = [tr for tr in traces if tr["outcome"].startswith("harness:")]
    if bad:
        raise MachineryFailure("C04 driver could not render %d case(s), first: regime=%s paths=%s: %s" % (
            len(bad), bad[0].get("regime"), bad[0]["paths"], bad[0]["outcome"]))
    acc, rej = ctx.validate("Greedy_Trace", traces, constants=consts_of(c), shards=min(8, max(1, len(traces) // 400)),
                            label="Greedy_Trace " + _lab(c))
    blank = c["C"] - 1
    for tr in traces:
        # non-trivial: some line has a repeat split by a blank or an adjacent repeat of a non-blank
        nt = any(any(p[i] == p[i + 1] != blank for i in range(len(p) - 1)) or
                 any(p[i] == p[i + 2] != blank and p[i + 1] == blank for i in range(len(p) - 2)) for p in tr["paths"])
        ctx.count(1, (_lab(c), tuple(map(tuple, tr["paths"])), tr.get("regime", "plain")) if nt else None)
    ctx.sample({"config": _lab(c), "trace": traces[(2 * len(traces)) // 3]}, limit=5)
    changed = [tr for tr in traces if not tr.get("logits_same", True)]
    if changed:
        ctx.model_drift("run_ocr returns logits that are not the permuted network output", len(changed), {"paths": changed[0]["paths"]})
    for idx, clause in rej:
        tr = traces[idx]
        ctx.violation({"cfg": c, "trace": tr, "seed": tr.get("seed", 0), "clause": clause, "regime": tr.get("regime", "plain")},
                      SIGS.get(clause, "clause%d" % clause),
                      "%s; C=%d (blank=%d) arg-max paths=%s (scores rendered in regime %s) -> engine=%s stand-alone=%s run_ocr=%s "
                      "greedy_filtration=%s stand-alone on the scores as given=%s outcome=%s" % (
                          CLAUSES.get(clause, "?"), c["C"], blank, tr["paths"], tr.get("regime", "plain"), tr["eng"], tr["alone"], tr["ocr"],
                          tr.get("filt"), tr.get("raw"), tr["outcome"]))
    return acc, rej


def run(ctx):
    ctx.rule = ("every batch of N lines x T frames of per-frame arg-max symbols over C classes (= the TLC initial states), rendered as a "
                "score tensor with a unique arg-max per frame (seeded margins >= 0.5, magnitudes up to 160); non-trivial = a line with "
                "an adjacent repeat of a non-blank or a repeat split by one blank")
    ctx.rule += ("; every %d-th batch once more as float32 / float64 scores on which exp() overflows (up to 990) or underflows (down to "
                 "-999), or as normalised log-probabilities whose winner leads a lower-indexed class by one unit in the last place; "
                 "every line of every tensor also decoded by GreedyDecoder as given (not re-normalised)" % REGIME_EVERY.get(ctx.tier, 4))
    ctx.assume("the arg-max of every frame is unique (margin >= 0.5, or one unit in the last place in the ulp regimes; an exact tie only "
               "with a later class: first-index rule)",
               "scores stay within (-1000, 1000), the range in which the forced prepended frame of greedy_decode_ctc dominates",
               "only the 3-D (N x C x T) branch of greedy_decode_ctc is exercised",
               "decoder objects, the engine object and a character-table list may be re-used from call to call (also after a call that "
               "raised); the text of a call depends on that call's scores and table only")
    ctx.rule += ("; plus %d sampled wide tensors (classes, lines, frames) beyond 255 / 1024 / 4096 / 32767 / 65535 frames or classes, "
                 "paths given as runs" % len(wide_cases(ctx.tier, ctx.seed)))
    ctx.exhaustive = True
    first = True
    regime_cases = 0
    for c in configs(ctx.tier):
        ctx.tlc("Greedy", constants=consts_of(c), invariants=INVS, workers=4, timeout=1800, label="Greedy " + _lab(c))
        if first:
            for mut in ("no_mask", "blank_cmp", "no_forced_blank"):
                ctx.tlc("Greedy", constants=consts_of(c, mut), invariants=INVS, workers=4, timeout=900, coverage=False,
                        expect_violation="VecIsCollapse", label="Greedy selftest Mut=%s" % mut)
        bs, complete = batches(c, ctx.rng)
        if not complete:
            ctx.exhaustive = False
        items = [(b, (ctx.seed % 1000) * 1000000 + i) for i, b in enumerate(bs)]
        # round 9: every k-th batch once more, rendered in one of the element-type / magnitude regimes (cycling)
        every = REGIME_EVERY.get(ctx.tier, 4)
        items += [(b, (ctx.seed % 1000) * 1000000 + i, REGIMES[(i // every) % len(REGIMES)]) for i, b in enumerate(bs) if i % every == 1]
        regime_cases += sum(1 for it in items if len(it) > 2)
        traces = execute(c, items)
        for tr, it in zip(traces, items):
            tr["seed"] = it[1]
        acc, rej = judge(ctx, c, traces)
        if first and not rej:
            good = next(tr for tr in traces if len(tr["eng"][0]) >= 2)

            def corrupt(tr):
                tr["eng"][0] = tr["eng"][0][:-1]        # the engine's text loses its last character
                return tr
            ctx.selftest_corrupt("Greedy_Trace", good, corrupt, constants=consts_of(c))
            good_raw = next(tr for tr in traces if tr["regime"] in ("hi32", "ulp64") and len(tr["raw"][0]) >= 1)

            def corrupt_raw(tr):
                tr["raw"][0] = [0] + tr["raw"][0][1:] if tr["raw"][0][0] != 0 else [1] + tr["raw"][0][1:]   # another first character
                return tr
            ctx.selftest_corrupt("Greedy_Trace", good_raw, corrupt_raw, constants=consts_of(c))
        first = False
    # scale: sampled tensors beyond the sizes TLC enumerates, on the long-lived objects of this process
    wcases = wide_cases(ctx.tier, ctx.seed)
    wtraces = [run_wide(wc) for wc in wcases]
    if not judge_wide(ctx, wcases, wtraces, selftest=True):
        good = next(tr for tr in wtraces if len(tr["syms"]) >= 2 and tr["T"] > 1024 and len(tr["syms"][0]) < 3000)
        ctx.sample({"config": "wide", "trace": {k: (_brief(v, 6) if isinstance(v, list) else v) for k, v in good.items()}}, limit=6)
    ctx.notes["regime_cases"] = regime_cases
    ctx.notes["wide_cases"] = [[wc["nc"], len(wc["lines"]), wc["T"]] for wc in wcases]
    ctx.notes["explanation"] = ("TLC exhaustive on Greedy per (C, MaxT, N) with invariants %s; every batch decoded by greedy_decode_ctc, "
                                "GreedyDecoder and a stub-network PytorchEngineLineOCR.run_ocr; texts mapped back through the character "
                                "table and judged by TLC against Collapse; long-lived table / decoder / engine objects across cases, every fifth case "
                                "after another batch (every tenth after failing calls) on the same objects; sampled wide tensors (not exhaustive) "
                                "recorded as runs and judged by TLC against WideCollapse of the runs" % INVS)


def replay(ctx, case):
    if "wide" in case:
        judge_wide(ctx, [case["wide"]], [run_wide(case["wide"])], label="replay")
        return
    c = case["cfg"]
    tr = case["trace"]
    traces = execute(c, [(tuple(tuple(p) for p in tr["paths"]), case.get("seed", 0), case.get("regime", tr.get("regime", "plain")))])
    traces[0]["seed"] = case.get("seed", 0)
    judge(ctx, c, traces)
