"""C17, trace kind "fresh": histories of a batch in which EVERY tool process - the uninterrupted reference run as well as
every killed / resumed run - descends from a NEW Python interpreter in which no page has ever been handled, on a batch of
realistic pages (see RealisticPageParser).

Why: the statement of C17 compares the folders after kill + resume with those of "an uninterrupted run".  A killed process
takes everything it held in memory with it; the resumed run is another process.  The other C17 cases fork every tool process
from the harness process, after pf_common.warm() has pushed a page through every writer there: whatever pero-ocr keeps at
module level (caches, memo tables, counters) is then already filled - identically - in the reference run and in every resumed
run, and all stub pages of pf_common.StubPageParser are geometrically identical anyway.  Here

  * the driver starts ONE new interpreter (`python -m harness.pf_fresh spec.json out.json`); it imports pero-ocr and the tool,
    never calls warm() and never handles a page itself (checked: PAGES_HANDLED_HERE stays 0) and forks one child per tool
    process (pf_common.run_once), so every tool process starts from the state "modules imported, nothing processed", exactly
    like `python user_scripts/parse_folder.py ...` typed again after the kill;
  * the pages are what the pages of a real batch are: region and line ids are the same on every page (r001, r001-l001, ...:
    ids are unique within a page only), the number of lines and the shapes of the logits are the same, and among the lines of
    a page one has the same text on every page but a page-specific geometry, one the same geometry but a page-specific text,
    one differs in both; lines carry logits, characters, multi-word transcriptions and crops, so that the ALTO export computes
    word boxes from the line geometry and the alignment of the transcription.

The uninterrupted run is executed twice (two children of the clean interpreter); the trace records
per file of the first whether the second produced the same bytes (time stamps stripped) - ParseFolder_Trace (RefUsable) refuses
to judge "equal to that of an uninterrupted run" on a baseline that is not reproducible or not a complete clean run.
Nothing is decided here: this module builds the batch, runs the real tool and projects folder listings to tokens and booleans.
"""
import json
import os
import shutil
import subprocess
import sys

PAGES_HANDLED_HERE = [0]
WORDS_ALPHABET = "abc"
CHARS = ["a", "b", "c", " ", "~"]          # "~": the CTC blank (last column of the logits)
IMAGE_SIZE = (150, 230)


def page_seed(pid, image):
    seed = sum(ord(c) * (i + 1) for i, c in enumerate(pid)) % 251
    if image is not None:
        seed = (seed + 3 * int(image[0, 0, 0])) % 251
    return seed


def page_text(seed):
    """three words over {a, b, c}; injective in seed (0..250 < 3**6)"""
    d = []
    for _ in range(6):
        d.append(WORDS_ALPHABET[seed % 3])
        seed //= 3
    return "%s%s %s%s %s%s" % tuple(d)


def line_spec(seed, i):
    """geometry and text of line i (0-based) of the page with this seed.  i % 3 == 0: text shared by all pages, geometry of the
    page; 1: geometry shared by all pages, text of the page; 2: both of the page."""
    geom_dep, text_dep = i % 3 != 1, i % 3 != 0
    dx, dy = (seed % 23, seed // 23) if geom_dep else (0, 0)           # injective in seed (seed < 253)
    y = 28 + 36 * i + dy
    x0 = 10 + dx
    length = 170 - 3 * dx
    up, down = (12 + dy % 4, 4 + dx % 3) if geom_dep else (12, 4)
    baseline = [[x0, y], [x0 + length // 2, y + 1 + dy % 3], [x0 + length, y]]
    polygon = [[x0, y - up], [x0 + length, y - up], [x0 + length, y + down + 1 + dy % 3], [x0, y + down + 1 + dy % 3]]
    text = page_text(seed) if text_dep else "ab ca bc"
    return baseline, polygon, [up, down], text


class RealisticPageParser:
    """Stands for PageParser(config, config_path=..., device=...).  Everything is derived from the page id and the image handed in
    (pf_common.make_batch-style grey value), nothing from earlier calls."""
    provides_ctc_logits = True
    nlines = 3

    def __init__(self, config=None, config_path="", device=None):
        self.decoder = None

    def process_page(self, image, page_layout):
        import numpy as np
        import scipy.sparse as sp
        from pero_ocr.core.layout import RegionLayout, TextLine
        PAGES_HANDLED_HERE[0] += 1
        seed = page_seed(page_layout.id, image)
        h, w = IMAGE_SIZE
        region = RegionLayout("r001", np.array([[4, 4], [w - 4, 4], [w - 4, h - 4], [4, h - 4]]))
        for i in range(self.nlines):
            baseline, polygon, heights, text = line_spec(seed, i)
            frames = []
            for ch in text:
                frames += [CHARS.index(ch), len(CHARS) - 1]
            dense = np.full((len(frames), len(CHARS)), -6.0)
            for t, c in enumerate(frames):
                dense[t, c] = 6.0
            region.lines.append(TextLine(
                id="r001-l%03d" % (i + 1), index=i, baseline=np.array(baseline), polygon=np.array(polygon), heights=heights,
                transcription=text, logits=sp.csc_matrix(dense), characters=list(CHARS), logit_coords=[0, len(frames)],
                crop=np.full((16, 64, 3), (seed * 7 + 40 * i) % 256, dtype=np.uint8)))
        page_layout.regions = [region]
        return page_layout


# ------------------------------------------------------------------ inside the clean interpreter
def _make_batch(P, base, page_ids):
    import cv2
    import numpy as np
    os.makedirs(os.path.join(base, "in"))
    for p in page_ids:
        if not cv2.imwrite(os.path.join(base, "in", p + P.IMG_EXT), np.full(IMAGE_SIZE + (3,), P.grey_of(p), np.uint8)):
            raise RuntimeError("cannot write the input image of page %r" % p)
    with open(os.path.join(base, "config.ini"), "w") as fh:
        fh.write("[PAGE_PARSER]\n")


_JOB = {}


def _history(item):
    """one history on its own copy of the batch: one forked tool process per entry of the kill schedule"""
    from harness import pf_common as P
    name, schedule = item
    base = os.path.join(_JOB["root"], name)
    if os.path.exists(base):
        shutil.rmtree(base)
    _make_batch(P, base, _JOB["pages"])
    runs = []
    for k in schedule:
        rec = P.run_once(base, _JOB["kinds"], kill_at=k)
        rec["listing"] = [[kd, fn, h] for (kd, fn), h in sorted(P.listing(base, _JOB["kinds"]).items())]
        runs.append(rec)
    shutil.rmtree(base, ignore_errors=True)
    return {"order": [P.tokens_of(p) for p in P.order_of(_JOB["pages"])], "kinds": [k for k in P.KIND_ORDER if k in _JOB["kinds"]],
            "nlines": _JOB["nlines"], "schedule": [k if k >= 0 else P.NO_KILL for k in schedule], "runs": runs,
            "handled_in_parent": PAGES_HANDLED_HERE[0]}


def _main(spec_path, out_path):
    with open(spec_path) as fh:
        spec = json.load(fh)
    from harness import pf_common as P              # imports pero-ocr and user_scripts/parse_folder.py; warm() is NOT called
    RealisticPageParser.nlines = spec["nlines"]
    P.STUB["nlines"] = spec["nlines"]
    P.STUB["parser_class"] = RealisticPageParser
    _JOB.update(root=spec["root"], pages=spec["pages"], kinds=spec["kinds"], nlines=spec["nlines"])
    os.makedirs(spec["root"], exist_ok=True)
    items = [("reference", [-1]), ("reference2", [-1])] + [("h%d" % i, s) for i, s in enumerate(spec["schedules"])]
    procs = max(1, min(int(spec.get("procs", 6)), len(items)))
    if procs > 1:
        import multiprocessing as mp
        with mp.get_context("fork").Pool(procs) as pool:
            hist = pool.map(_history, items, chunksize=1)
    else:
        hist = [_history(x) for x in items]
    if PAGES_HANDLED_HERE[0] != 0 or any(h["handled_in_parent"] != 0 for h in hist):
        raise RuntimeError("the interpreter the tool processes are forked from has handled a page itself")
    ref1 = {(kd, fn): h for kd, fn, h in hist[0]["runs"][0]["listing"]}
    ref2 = {(kd, fn): h for kd, fn, h in hist[1]["runs"][0]["listing"]}
    r0 = hist[0]["runs"][0]
    reference = {"started": r0["started"], "exit": r0["exit"],
                 "files": [[kd, P.tokens_of(fn), ref2.get((kd, fn)) == h] for (kd, fn), h in sorted(ref1.items())]
                          + [[kd, P.tokens_of(fn), False] for (kd, fn) in sorted(set(ref2) - set(ref1))]}
    traces = []
    for h in hist[2:]:
        for rec in h["runs"]:
            rec["files"] = [[kd, P.tokens_of(fn), ref1.get((kd, fn)) == hh] for kd, fn, hh in rec.pop("listing")]
        h.pop("handled_in_parent")
        h["reference"] = reference
        traces.append(h)
    with open(out_path, "w") as fh:
        json.dump({"traces": traces}, fh)


# ------------------------------------------------------------------ called by the driver
def run_fresh(workdir, pages, kinds, nlines, schedules, procs=6, timeout=900):
    """-> list of traces (one per schedule), produced by a new interpreter.  Raises RuntimeError with the tail of its output."""
    from .core import VERIF
    root = os.path.join(workdir, "fresh_batch")
    spec_path, out_path = os.path.join(workdir, "fresh_spec.json"), os.path.join(workdir, "fresh_out.json")
    with open(spec_path, "w") as fh:
        json.dump({"root": root, "pages": list(pages), "kinds": list(kinds), "nlines": nlines,
                   "schedules": [list(s) for s in schedules], "procs": procs}, fh)
    if os.path.exists(out_path):
        os.remove(out_path)
    try:
        p = subprocess.run([sys.executable, "-W", "ignore", "-m", "harness.pf_fresh", spec_path, out_path], cwd=VERIF,
                           stdout=subprocess.PIPE, stderr=subprocess.STDOUT, text=True, timeout=timeout)
    except subprocess.TimeoutExpired:
        raise RuntimeError("the clean interpreter (harness.pf_fresh) did not end within %d s" % timeout)
    finally:
        shutil.rmtree(root, ignore_errors=True)
    if p.returncode != 0 or not os.path.exists(out_path):
        raise RuntimeError("the clean interpreter (harness.pf_fresh) failed (exit %s):\n%s" % (p.returncode, p.stdout[-3000:]))
    with open(out_path) as fh:
        out = json.load(fh)
    os.remove(out_path)
    os.remove(spec_path)
    return out["traces"]


if __name__ == "__main__":
    _main(sys.argv[1], sys.argv[2])
