"""C08 helpers: drive the real PageDecoder (wrapping the real CTC prefix decoder) with a toy language model whose hidden
state IS its context, over the page contents / histories TLC explored on spec/PageDecoder.tla, and record what happened.

Page content.  Line number i = PageNo * NLines + (l - 1) of the batch owns the two letters chr(97 + 2i), chr(98 + 2i), so
any text identifies the line it came from.  Kind 0 (decoded): two frames where the two letters are exactly equally
likely (0.45 / 0.45 / 0.10 blank) - the optical evidence is tied and the language model alone decides; kind 1
(confident): every frame >= 0.98 for one symbol, the OCR transcription is kept; kind 2: no logits at all.
Toy LM.  Hidden state = tuple of the symbols consumed so far (0 = line break, c + 1 = letter c); it prefers, by a factor
of 3, the letters whose number has the parity of a hash of the whole state.  Any context that leaks into a line flips
that parity in about half of the cases and changes the transcription.
Behind the real LMWrapper ("wrapped" flavours) the same LM is a torch module with dropout layers, constructed in training mode
(see _WModel / _WOut): the wrapper must put it into evaluation mode or the scores depend on the process-wide torch RNG.
"""
import numpy as np
import scipy.sparse as sp
import torch

from pero_ocr.core.layout import PageLayout, RegionLayout, TextLine
from pero_ocr.decoding.decoders import CTCPrefixLogRawNumpyDecoder, BLANK_SYMBOL
from pero_ocr.document_ocr.page_parser import PageDecoder, PageParser

from .ctc_common import ToyH

PAGES = "ABC"
THRESHOLD = 0.9
BEAM = 4
NONE_TEXT = [99]          # a line whose transcription is None


def letters_for(n_lines_total):
    return [chr(97 + i) for i in range(2 * n_lines_total)] + [BLANK_SYMBOL]


def hist_hash(hist):
    h = 7
    for x in hist:
        h = (h * 31 + x + 1) % 1000003
    return h


class ContextLM:
    """same interface as pero_ocr.decoding.lm_wrapper.LMWrapper as far as the decoder and PageDecoder use it"""
    def __init__(self, nc):
        self.nc = nc

    def initial_h(self, n):
        return ToyH([(0,)] * n)

    def initial_h_from_line(self, line):
        return ToyH([(0,) + tuple(ord(ch) - 96 for ch in line) + (0,)])

    def add_line_end(self, h):
        return ToyH([p + (0,) for p in h.ps])

    def advance_h0(self, c_inds, h):
        return ToyH([p + (int(c) + 1,) for p, c in zip(h.ps, c_inds)])

    def log_probs(self, h):
        out = np.empty((len(h.ps), self.nc))
        for r, p in enumerate(h.ps):
            hh = hist_hash(p)
            for c in range(self.nc):
                out[r, c] = np.log(3.0) if (hh + c) % 2 == 0 else 0.0      # weights 3 : 1, deliberately unnormalised
        return out

    def eos_scores(self, h):
        return np.zeros(len(h.ps))


# ---- the same context LM behind the REAL pero_ocr.decoding.lm_wrapper.LMWrapper / HiddenState ----------------------------------
# hidden state = one float64 scalar per beam entry: the history in base 16 behind a leading 1 (0 = '</s>', c + 1 = letter c);
# initial_h, initial_h_from_line, add_line_end, advance_h0, log_probs are then the wrapper's own code (torch tensors, in-place
# __setitem__), with exactly the semantics of ContextLM above.
WBASE = 16          # vocabulary <= 13 symbols; 10 symbols of history (3 lines) stay below 2^53


def hist_of_scalar(x):
    n = int(round(float(x)))
    ds = []
    while n > 1:
        ds.append(n % WBASE)
        n //= WBASE
    return tuple(reversed(ds))


def hist_of(h):
    """history tuple of the first entry of an LM state, whichever implementation produced it"""
    if hasattr(h, "ps"):
        return tuple(h.ps[0])
    return hist_of_scalar(h.prepare_for_torch().reshape(-1)[0])


# Like the LSTM language models the library loads (pero_ocr.decoding.decoding_itf.construct_lm: embedding -> dropout -> recurrent
# cell, dropout before the output layer), the toy LM CONTAINS DROPOUT, in the recurrent part and in the output layer, and is handed
# to LMWrapper in training mode, as torch modules are after construction.  In evaluation mode (LMWrapper's obligation) dropout is
# the identity and the LM is exactly the context LM above; left in training mode it draws masks from the process-wide torch RNG:
# a consumed symbol is zeroed or tripled, a score zeroed or doubled, so the result of a page depends on everything decoded before.
# (Recurrent part: p = 2/3, i.e. scale 3 - with an even scale every corrupted symbol number would be even and the parity of the
# state hash, which is all the scores depend on, would no longer depend on the masks drawn.)
DROPOUT_MODEL = 2.0 / 3.0
DROPOUT_OUT = 0.5


# Like every loaded model the toy LM also has PARAMETERS THAT REQUIRE GRAD and take part in the computation (a weight equal to 1.0 in
# the recurrent part and in the output layer: exact in float64).  Where autograd is enabled - the torch default, and the mode every new
# thread starts in - states and scores then carry a graph unless the wrapper switches autograd off around ITS OWN calls
# (`with torch.no_grad()` / `.detach()`); a wrapper that relies on a mode set once elsewhere fails (`.numpy()` raises) as soon as a page is
# decoded in another thread or after other code re-enabled autograd (run_history, ENVS).
class _WModel(torch.nn.Module):
    def __init__(self):
        super().__init__()
        self.drop = torch.nn.Dropout(DROPOUT_MODEL)
        self.unit = torch.nn.Parameter(torch.ones(1, dtype=torch.float64))

    def forward(self, xs, hs):
        h = hs.clone()
        emb = self.drop(xs.to(h.dtype)) * self.unit   # "embedding" of a symbol = its number (weight 1.0); dropout on the embedding
        for j in range(xs.shape[1]):
            h = h * WBASE + emb[:, j].view(1, -1, 1)
        return None, h

    def init_hidden(self, bsz):
        return torch.ones((1, bsz, 1), dtype=torch.float64)


class _WOut(torch.nn.Module):
    def __init__(self, nc):
        super().__init__()
        self.nc = nc
        self.drop = torch.nn.Dropout(DROPOUT_OUT)
        self.gain = torch.nn.Parameter(torch.ones(1, dtype=torch.float64))

    def forward(self, hs):
        rows = []
        for x in hs.reshape(-1).tolist():
            hh = hist_hash(hist_of_scalar(x))
            rows.append([0.0] + [np.log(3.0) if (hh + c) % 2 == 0 else 0.0 for c in range(self.nc)])
        return self.drop(torch.tensor(rows, dtype=torch.float64) * self.gain)


class _WLm(torch.nn.Module):        # module-level classes: parse_folder --process-count 2 pickles the page parser
    def __init__(self, nc):
        super().__init__()
        self.model = _WModel()
        self.decoder = _WOut(nc)
        self.vocab = {'</s>': 0}
        self.vocab.update({chr(97 + i): i + 1 for i in range(nc)})
        self._unused_prefix_len = 1


def make_wrapped_context_lm(nc):
    from pero_ocr.decoding.lm_wrapper import LMWrapper
    lm = _WLm(nc)
    lm.train()          # the state a freshly constructed / loaded torch model is in; evaluation mode is the wrapper's business
    return LMWrapper(lm, [chr(97 + i) for i in range(nc)], torch.device("cpu"))


def flavour_of(cfgid):
    """which LM implementation / beam width a page-content configuration is decoded with (same for 'alone' and histories)"""
    return [("toy", BEAM), ("wrapped", 1), ("wrapped", BEAM), ("toy", 1)][(cfgid // 2) % 4]


class RecordingDecoder:
    """the real prefix decoder; notes the LM state every call starts from"""
    def __init__(self, dec):
        self.dec = dec
        self._lm = dec._lm
        self.calls = []
        self.current_line = None

    def __call__(self, logits, **kw):
        init_h = kw.get("init_h")
        self.calls.append((self.current_line, None if init_h is None else hist_of(init_h)))
        return self.dec(logits, **kw)


def decode_cfg(cfgid, pages, nlines, nk):
    """cfgid -> (carry, {(page, line): kind}) exactly as PageDecoder.tla's CarryOf / KindOf"""
    carry = cfgid % 2 == 1
    k = cfgid // 2
    kinds = {}
    for p in pages:
        for l in range(1, nlines + 1):
            kinds[(p, l)] = (k // nk ** (PAGES.index(p) * nlines + (l - 1))) % nk
    return carry, kinds


def make_line(page, l, kind, nlines, n_total):
    i = PAGES.index(page) * nlines + (l - 1)
    x, y, blank = 2 * i, 2 * i + 1, 2 * n_total
    letters = letters_for(n_total)
    probs = np.zeros((5, len(letters)))
    text = None
    if kind == 0:
        for t in (0, 2):
            probs[t, x] = probs[t, y] = 0.45
            probs[t, blank] = 0.10
        for t in (1, 3, 4):
            probs[t, blank] = 0.98
            probs[t, x] = probs[t, y] = 0.01
    elif kind in (1, 3):
        for t, c in enumerate((x, blank, y, blank, blank)):
            probs[t, :] = 0.0
            probs[t, c] = 0.98
            probs[t, x if c != x else y] = 0.02
        # kind 3: confident under the threshold, but the line came without a transcription (page rebuilt from logits alone)
        text = letters[x] + letters[y] if kind == 1 else None
    logits = None
    if kind == 2 and (PAGES.index(page) + l) % 2 == 1:
        # the other way a line can fail: logits are present but have no frame, so the exception is raised INSIDE the decoder
        # call (ValueError), not by the missing-logits guard; PageDecoder.process_page must swallow it just the same
        logits = sp.csc_matrix(np.zeros((0, len(letters))))
    if kind != 2:
        with np.errstate(divide="ignore"):
            lp = np.log(probs)
        lp[~np.isfinite(lp)] = 0.0          # absent entries of the sparse matrix (the code floors them at -80)
        logits = sp.csc_matrix(lp)
    y0 = 10 * l
    return TextLine(id=str(l), baseline=np.array([[2, y0], [48, y0]]),
                    polygon=np.array([[2, y0 - 8], [48, y0 - 8], [48, y0 + 2], [2, y0 + 2]]), heights=[8, 2],
                    transcription=text, logits=logits, characters=letters, logit_coords=[0, 5],
                    crop=np.zeros((8, 20, 3), np.uint8))


def make_page(page, kinds, nlines, n_total):
    pl = PageLayout(id=page, page_size=(20 + 10 * nlines, 50))
    region = RegionLayout("r1", np.array([[0, 0], [50, 0], [50, 20 + 10 * nlines], [0, 20 + 10 * nlines]]))
    for l in range(1, nlines + 1):
        region.lines.append(make_line(page, l, kinds[(page, l)], nlines, n_total))
    pl.regions = [region]
    return pl


def make_page_decoder(carry, kinds, n_total, record=True, flavour=("toy", BEAM)):
    lm = make_wrapped_context_lm(2 * n_total) if flavour[0] == "wrapped" else ContextLM(2 * n_total)
    dec = CTCPrefixLogRawNumpyDecoder(letters_for(n_total), flavour[1], lm=lm, lm_scale=1.0)
    rec = RecordingDecoder(dec) if record else dec
    thr = THRESHOLD if any(k in (1, 3) for k in kinds.values()) else None
    pd = PageDecoder(rec, line_confidence_threshold=thr, carry_h_over=carry)
    if record:
        real_decode_line = pd.decode_line

        def decode_line(line, *args, **kwargs):       # whatever further arguments process_page hands to it
            rec.current_line = int(line.id)
            return real_decode_line(line, *args, **kwargs)
        pd.decode_line = decode_line
    return pd, rec


def text_codes(text):
    if text is None:
        return list(NONE_TEXT)
    return [ord(ch) - 96 for ch in text]


def tag_of_text(codes, nlines):
    """<<page, line>> of the line a non-empty text was read from (by its letters); [] for no text"""
    if not codes:
        return []
    owners = {(c - 1) // 2 for c in codes}
    if len(owners) != 1:
        return ["?", 0]
    i = owners.pop()
    return [PAGES[i // nlines] if i // nlines < len(PAGES) else "?", i % nlines + 1]


def tags_of_history(hist, nlines):
    """LM state -> sequence of <<page, line>> tags of the lines it has consumed"""
    out, seg = [], []
    for x in hist:
        if x == 0:
            if seg:
                out.append(tag_of_text(seg, nlines))
            seg = []
        else:
            seg.append(x)
    if seg:
        out.append(tag_of_text(seg, nlines))
    return out


def results_of(pl):
    return [text_codes(line.transcription) for line in pl.lines_iterator()]


def alone_results(cfgid, pages, nlines, nk):
    carry, kinds = decode_cfg(cfgid, pages, nlines, nk)
    n_total = len(pages) * nlines
    out = {}
    for p in pages:
        pd, _ = make_page_decoder(carry, kinds, n_total, record=False, flavour=flavour_of(cfgid))
        try:
            out[p] = results_of(pd.process_page(make_page(p, kinds, nlines, n_total)))
        except Exception:           # part of the observation: no history of this page can then equal "the page alone"
            out[p] = [[97]]
    return out


# Where a process_page call of a history is executed (the page and the configuration are the same, so must be the result):
#   "main"    in the thread that built the decoder, nothing else touched (every call of the plain histories);
#   "thread"  in a worker THREAD of the same process (threading.Thread, as a ThreadPoolExecutor / threaded service would do) - torch's
#             autograd mode is thread-local and a new thread starts with autograd enabled;
#   "grad-on" in the building thread after OTHER code of the process called torch.set_grad_enabled(True) (the torch default; e.g. a
#             training step of another model); the previous mode is restored after the call so that the harness stays unaffected.
ENVS = ("main", "thread", "grad-on")


def envs_for(cfgid, n_hist, ncalls):
    """environment of every call of the n_hist-th environment history of a configuration: a rotation of ENVS, so that every
    environment comes at every position and follows every other one"""
    return [ENVS[(j + cfgid // 2 + n_hist) % 3] for j in range(ncalls)]


def call_in_env(env, func):
    """run func() in the given environment; returns the exception it raised (or None)"""
    box = {"ex": None}

    def body():
        try:
            func()
        except Exception as ex:       # part of the observation
            box["ex"] = ex
    if env == "thread":
        import threading
        th = threading.Thread(target=body)
        th.start()
        th.join()
    elif env == "grad-on":
        prev = torch.is_grad_enabled()
        torch.set_grad_enabled(True)
        try:
            body()
        finally:
            torch.set_grad_enabled(prev)
    else:
        body()
    return box["ex"]


def run_history(cfgid, pages, nlines, nk, history, alone=None, envs=None):
    """history = [(worker, page), ...]; one long-lived PageDecoder per worker, as in parse_folder's Pool;
    envs = environment of every call (one of ENVS; default: every call in "main")"""
    carry, kinds = decode_cfg(cfgid, pages, nlines, nk)
    n_total = len(pages) * nlines
    if alone is None:
        alone = alone_results(cfgid, pages, nlines, nk)
    inst = {}
    calls = []
    # "processing the same page twice": for every other configuration a page that comes again in the history is the SAME
    # PageLayout object (as when a caller re-runs the decoder on a page it holds), otherwise a fresh copy of the page
    reuse = (cfgid // 2 + len(history)) % 2 == 0
    held = {}
    for n_call, (worker, page) in enumerate(history):
        env = envs[n_call] if envs else "main"
        if worker not in inst:
            inst[worker] = make_page_decoder(carry, kinds, n_total, flavour=flavour_of(cfgid))
        pd, rec = inst[worker]
        rec.calls = []
        outcome = "ok"
        pl = held.get(page) if reuse else None
        if pl is None:
            pl = make_page(page, kinds, nlines, n_total)
            held[page] = pl
        ex = call_in_env(env, lambda: pd.process_page(pl))
        if ex is not None:
            outcome = "exception:" + type(ex).__name__
        last_line = pd.last_line
        has_h = pd.last_h is not None
        calls.append({"page": page, "worker": worker, "outcome": outcome, "env": env,
                      "decodes": [{"line": ln, "from": tags_of_history(h, nlines) if h is not None else []}
                                  for ln, h in rec.calls],
                      "res": results_of(pl), "alone": alone[page],
                      "last_line": tag_of_text(text_codes(last_line), nlines) if last_line else [],
                      "has_h": bool(has_h),
                      "last_h": tags_of_history(hist_of(pd.last_h), nlines) if has_h else []})
    tr = {"cfgid": cfgid, "hist": [[w, p] for w, p in history], "calls": calls}
    if envs:
        tr["envs"] = list(envs)
    return tr


# ------------------------------------------------------------------ the schedule clause: through parse_folder.main()
PAR = {"cfgid": 0, "pages": "ABC", "nlines": 2, "nk": 2, "names": None}
# file ids of the pages in the folder: the tool processes in image-file-name order (a.png, p-2.png, p.png) while the ids sort
# a, p, p-2 - a resumed run that pairs sorted ids with file-name-ordered images would hand a page the image of another one
FILE_NAMES = {"A": "a", "B": "p", "C": "p-2"}


def file_name_of(page):
    return (PAR.get("names") or {}).get(page, page)


def page_of_file(name):
    for k, v in (PAR.get("names") or {}).items():
        if v == name:
            return k
    return name


class StubOcr:
    """stands for the OCR stage: gives the page its lines (logits, characters, OCR transcription of confident lines)"""
    provides_ctc_logits = True

    def process_page(self, image, page_layout):
        _, kinds = decode_cfg(PAR["cfgid"], PAR["pages"], PAR["nlines"], PAR["nk"])
        # the OCR result is a function of the IMAGE the tool handed in (every page image has its own grey value,
        # pf_common.grey_of): a page id paired with another page's image gets that page's lines, as a real OCR would
        pid = page_of_file(page_layout.id)
        if image is not None:
            from .pf_common import grey_of
            pid = {grey_of(file_name_of(p)): p for p in PAR["pages"]}.get(int(image[0, 0, 0]), pid)
        fresh = make_page(pid, kinds, PAR["nlines"], len(PAR["pages"]) * PAR["nlines"])
        page_layout.regions = fresh.regions
        return page_layout


class DecodingPageParser(PageParser):
    """a subclass of the REAL PageParser (process_page, update_confidences ... are the real ones) whose OCR stage is the
    stub above and whose decoder stage is a real PageDecoder over the real prefix decoder with the context LM"""
    def __init__(self, config, device=None, config_path=""):
        super().__init__(config, device=device, config_path=config_path)
        carry, kinds = decode_cfg(PAR["cfgid"], PAR["pages"], PAR["nlines"], PAR["nk"])
        self.run_ocr = True
        self.ocr = StubOcr()
        self.run_decoder = True
        self.decoder = make_page_decoder(carry, kinds, len(PAR["pages"]) * PAR["nlines"], record=False,
                                         flavour=flavour_of(PAR["cfgid"]))[0]


def read_results(xml_dir, pages):
    """{page: [text codes per line]} + {page: [confidence in 1/1000]} read back from the PAGE XML the tool wrote"""
    import os
    res, conf = {}, {}
    for p in pages:
        path = os.path.join(xml_dir, file_name_of(p) + ".xml")
        if not os.path.exists(path):
            res[p] = [[98]]
            conf[p] = []
            continue
        pl = PageLayout(file=path)
        res[p] = [text_codes(line.transcription) for line in pl.lines_iterator()]
        conf[p] = [-1 if line.transcription_confidence is None else int(round(line.transcription_confidence * 1000))
                   for line in pl.lines_iterator()]
    return res, conf
