------------------------- MODULE RegionAssign_Trace -------------------------
(* Trace layer for C11.  Two kinds of recorded executions, both judged at the level of the statement.

   kind = "assign": one real call of layout_helpers.assign_lines_to_regions on grid regions `regs` (shape names)
   and detected lines `lines` ([j, a, b]; det = the detected baseline points); `placed` lists every TextLine found
   in a region afterwards: region name, number of the detected line it stems from (taken from object identity of
   the heights list, not from the id), id string, baseline points and the grid cells its outline covers.
   Coordinates in thousandths of a pixel.
     1  the call returned
     2  all line ids are distinct
     3  every placed line is allowed: at most once per (region, line); its end points are one of the longest
        inside runs (> 2 px) of the detected baseline in that region (Allowed of RegionAssign); every point of
        it lies on the detected baseline
     4  its outline is clipped: covers only cells of the region, in the row of the line (tall = 1: baseline a quarter pixel above the cell centre, ascender height 2.5, the
        outline band also covers the row above)
     5  every line wholly inside a region (> 2 px) is placed there with its points unchanged (Mandatory)
     6  (Detailed only; a mismatch is MODEL-DRIFT) the placed pairs are exactly those of the detailed model

   kind = "extract": one real call of LayoutExtractor.process_page (stub detector) for an option combination;
   `result` lists the regions of the returned page (id, shape name) with their lines (id, cells).
     1  the call returned
     2  all line ids on the page are distinct
     3  every line lies inside its region (cells)                                                          *)
EXTENDS RegionAssign, TraceKit
CONSTANT Detailed
VARIABLES tid, passed

Tr == Traces[tid]
K == 1000
TRegs == {s \in Shapes : \E k \in 1..Len(Tr.regs) : Tr.regs[k] = s.name}
TLines == [n \in 1..Len(Tr.lines) |-> [j |-> Tr.lines[n][1], a |-> Tr.lines[n][2], b |-> Tr.lines[n][3]]]
ShapeNamed(name) == CHOOSE s \in Shapes : s.name = name

\* ---------------------------------------------------------------- kind = "assign"
P(k) == Tr.placed[k]
NP == Len(Tr.placed)
WellFormed(k) == /\ \E s \in TRegs : s.name = P(k).region
                 /\ P(k).line \in 1..Len(TLines)
                 /\ Len(P(k).pts) >= 2
ObsTuple(k) == <<P(k).region, P(k).line, P(k).pts[1][1], P(k).pts[Len(P(k).pts)][1]>>
AllowedK == {<<t[1], t[2], K * t[3], K * t[4]>> : t \in Allowed(TRegs, TLines)}
OnBaseline(k) == LET l == TLines[P(k).line]
                     pts == P(k).pts
                 IN /\ \A m \in 1..Len(pts) : pts[m][2] = K * Y(l) - (IF Tr.tall = 1 THEN 250 ELSE 0)
                    /\ \A m \in 1..(Len(pts) - 1) : pts[m][1] <= pts[m + 1][1]
Clipped(k) == LET r == ShapeNamed(P(k).region)
                  l == TLines[P(k).line]
              IN \A m \in 1..Len(P(k).cells) : /\ <<P(k).cells[m][1], P(k).cells[m][2]>> \in r.cells
                                               /\ P(k).cells[m][2] \in (IF Tr.tall = 1 THEN {l.j - 1, l.j} ELSE {l.j})
A1 == Tr.outcome = "ok"
A2 == Distinct([k \in 1..NP |-> P(k).id])
A3 == /\ \A k \in 1..NP : WellFormed(k)
      /\ \A k1, k2 \in 1..NP : (k1 # k2) => (P(k1).region # P(k2).region \/ P(k1).line # P(k2).line)
      /\ \A k \in 1..NP : ObsTuple(k) \in AllowedK /\ OnBaseline(k)
A4 == \A k \in 1..NP : Clipped(k)
A5 == \A t \in Mandatory(TRegs, TLines) : \E k \in 1..NP : /\ P(k).region = t[1] /\ P(k).line = t[2]
                                                           /\ P(k).pts = Tr.det[t[2]]
A6 == Detailed => {<<P(k).region, P(k).line>> : k \in 1..NP} = {<<t[1], t[2]>> : t \in Allowed(TRegs, TLines)}
PassedA == IF ~A1 THEN 0 ELSE IF ~A2 THEN 1 ELSE IF ~A3 THEN 2 ELSE IF ~A4 THEN 3 ELSE IF ~A5 THEN 4 ELSE IF ~A6 THEN 5 ELSE 6

\* ---------------------------------------------------------------- kind = "extract"
ResIds == Flat([k \in 1..Len(Tr.result) |-> [m \in 1..Len(Tr.result[k].lines) |-> Tr.result[k].lines[m].id]])
B1 == Tr.outcome = "ok"
B2 == Distinct(ResIds)
\* (a region whose polygon the driver cannot match with a library shape is not judged)
B3 == \A k \in 1..Len(Tr.result) : (\E s \in Shapes : s.name = Tr.result[k].name) =>
                                       \A m \in 1..Len(Tr.result[k].lines) :
                                         \A c \in 1..Len(Tr.result[k].lines[m].cells) :
                                            <<Tr.result[k].lines[m].cells[c][1], Tr.result[k].lines[m].cells[c][2]>> \in ShapeNamed(Tr.result[k].name).cells
PassedB == IF ~B1 THEN 0 ELSE IF ~B2 THEN 1 ELSE IF ~B3 THEN 2 ELSE 6

Passed == IF Tr.kind = "assign" THEN PassedA ELSE PassedB

TInit == /\ tid \in 1..NTraces
         /\ passed = Passed
         /\ regs = {} /\ lines = <<>> /\ placed = {}
         /\ opt = [dr |-> FALSE, dl |-> FALSE, merge |-> FALSE, multi |-> FALSE]
         /\ page = <<>> /\ oi = 1 /\ mi = 1 /\ phase = "trace"
TNext == UNCHANGED <<vars, tid, passed>>
TAccept == TKMark(tid, passed, passed = 6)
TPost == TKPost
ASSUME TKReset
=============================================================================
