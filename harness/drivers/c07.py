"""C07 - batched line recognition returns each line's own result in input order (DESIGN.md section 4, C07).

1. TLC proves on spec/LineBatcher.tla (one Batch action per iteration of the loop in BaseEngineLineOCR.process_lines,
   real constants 32 px / 480 * batch size / round-up to 32 / crop to the budget / transformer windows with 25 % overlap),
   for every list of widths and batch size of the bounds below: own result, every index written exactly once, window =
   [32 div 4, (32 + w) div 4] = exactly the frames lying inside the line, per-frame output inside the window equal to
   the output for the image alone (independence from order, batch mates and batch size), termination.  Named defective
   variants (scatter by batch position, window without padding offset, image placed at column 0, no max(1, ...)) must
   each violate an invariant: the model is sharp.
2. Every width list / batch size of the same bounds is executed by the real process_lines through a provenance stub
   engine (harness/lb_common.py) in the mode combinations sparse/dense x tight/loose x no-logits; each execution (the
   batches the network saw, and per input position the window, the per-frame provenance, the kept logits, the
   transcription, a digest compared with the same image recognised alone) is validated by TLC against LineBatcher_Trace.
   Strict = TRUE (design conformance) first; what is rejected there is re-validated with Strict = FALSE (property-level
   acceptance): rejected again = VIOLATION, accepted = MODEL-DRIFT.
"""
import itertools

from .. import lb_common as L
from ..core import pmap

LEVEL = "model_checking"

CTC_WIDTHS = [1, 32, 33, 448, 481, 500, 3841, 8000]     # 481 and 500 share a 32-px bucket and fill a batch each: consecutive batches of the same shape, different extent
CTC_WIDTHS_T = [1, 4, 31, 32, 33, 63, 448, 449, 481, 3841, 7616, 8000]
TRF_WIDTHS = [1, 16, 64, 65, 112, 113, 160, 200]
MODES = {"sparse": {"sparse": 1, "tight": 0, "nolog": 0}, "dense-tight": {"sparse": 0, "tight": 1, "nolog": 0},
         "sparse-tight": {"sparse": 1, "tight": 1, "nolog": 0}, "dense": {"sparse": 0, "tight": 0, "nolog": 0},
         "nolog": {"sparse": 1, "tight": 0, "nolog": 1}}
INVS = ["OwnResult", "WrittenOnce", "WindowOK", "WindowIsExtent", "Independent", "BatchWithinBudget", "SpansConsistent",
        "PartsCover", "TextFramesClosed", "TextOwn"]


def bounds(tier):
    """one dict of bounds drives both the TLC constants and the executed cases"""
    if tier == "quick":
        return [
            {"name": "ctc", "widths": CTC_WIDTHS, "maxlines": 3, "bs": [1, 2, 16], "transformer": False, "mlw": None,
             "modes": ["sparse", "dense-tight", "nolog"], "fraction": 1.0},
            {"name": "transformer", "widths": TRF_WIDTHS, "maxlines": 3, "bs": [1, 2], "transformer": True, "mlw": 64,
             "modes": ["sparse", "dense"], "fraction": 1.0},
        ]
    return [
        {"name": "ctc", "widths": CTC_WIDTHS, "maxlines": 3, "bs": [1, 2, 3, 8, 16], "transformer": False, "mlw": None,
         "modes": ["sparse", "dense-tight", "sparse-tight", "dense", "nolog"], "fraction": 1.0},
        {"name": "ctc-12-widths", "widths": CTC_WIDTHS_T, "maxlines": 3, "bs": [1, 2, 5, 16], "transformer": False, "mlw": None,
         "modes": ["sparse", "dense-tight", "sparse-tight", "dense", "nolog"], "fraction": 0.2},
        {"name": "ctc-4-lines", "widths": [1, 33, 448, 481, 3841, 8000], "maxlines": 4, "bs": [1, 2, 8, 16], "transformer": False,
         "mlw": None, "modes": ["sparse", "dense-tight", "nolog"], "fraction": 0.25},
        {"name": "transformer", "widths": TRF_WIDTHS, "maxlines": 3, "bs": [1, 2, 3], "transformer": True, "mlw": 64,
         "modes": ["sparse", "dense", "nolog"], "fraction": 1.0},
        {"name": "transformer-128", "widths": [1, 100, 128, 129, 224, 225, 300], "maxlines": 3, "bs": [1, 2], "transformer": True,
         "mlw": 128, "modes": ["sparse", "dense"], "fraction": 1.0},
    ]


def constants(b, pad=32, variant="ok", **over):
    c = {"Widths": set(b["widths"]), "MaxLines": b["maxlines"], "BatchSizes": set(b["bs"]), "Pad": pad, "Sub": L.SUB,
         "Transformer": bool(b["transformer"]), "MLW": b["mlw"] or 0, "Variant": variant}
    c.update(over)
    return c


def cases_of(ctx, b):
    out = []
    for n in range(b["maxlines"] + 1):
        for ws in itertools.product(b["widths"], repeat=n):
            for bs in b["bs"]:
                for m in b["modes"]:
                    out.append({"w": list(ws), "bs": bs, "mode": dict(MODES[m]), "transformer": b["transformer"],
                                "mlw": b["mlw"], "route": "engine", "bounds": b["name"]})
                if n >= 2 and not b["transformer"] and bs == b["bs"][0]:
                    out.append({"w": list(ws), "bs": bs, "mode": dict(MODES["sparse"]), "transformer": False, "mlw": None,
                                "route": "page", "bounds": b["name"]})
    if b["fraction"] < 1.0:
        out = ctx.rng.sample(out, max(1, int(len(out) * b["fraction"])))
    return out


def alias_cases(b):
    """lists in which the same array object stands at several positions (e.g. one blank crop used for every empty line)"""
    if b["transformer"]:
        return []
    out = []
    ws = [x for x in (33, 448, 500, 1) if x in b["widths"]][:3]
    for w0 in ws:
        for bs in b["bs"][:2]:
            out.append({"w": [w0], "alias": [0, 0], "bs": bs, "mode": dict(MODES["sparse"]), "transformer": False, "mlw": None,
                        "route": "engine", "bounds": b["name"]})
            out.append({"w": [w0], "alias": [0, 0, 0], "bs": bs, "mode": dict(MODES["dense-tight"]), "transformer": False, "mlw": None,
                        "route": "engine", "bounds": b["name"]})
            for w1 in ws:
                if w1 != w0:
                    for al in ([0, 1, 0], [1, 0, 0], [0, 1, 1, 0]):
                        out.append({"w": [w0, w1], "alias": al, "bs": bs, "mode": dict(MODES["sparse"]), "transformer": False,
                                    "mlw": None, "route": "engine" if len(al) == 3 else "page", "bounds": b["name"]})
    return out


def judge_alias(ctx, b, cases, traces, pad):
    """aliased lists are judged at property level only (the design models lists of distinct objects)"""
    if not cases:
        return
    loose = constants(b, pad=pad, Strict=False)
    acc, rej = ctx.validate("LineBatcher_Trace", traces, constants=loose, label="LineBatcher_Trace %s aliased lists" % b["name"])
    for c in cases:
        ctx.count(1, (b["name"], "alias", tuple(c["w"]), tuple(c["alias"]), c["bs"]))
    for i, prog in rej:
        kind, what = _describe(traces[i], prog)
        if kind == "unfinished":
            kind, what = "alias", "a position holding an object that also stands elsewhere in the list did not receive that object's result"
        ctx.violation({"bounds": b, "case": cases[i], "pad": pad, "trace": _short(traces[i]), "progress": prog}, "ctc:" + kind,
                      "%s; widths %s positions->objects %s batch size %d" % (what, cases[i]["w"], cases[i]["alias"], cases[i]["bs"]))


def _pad_of_engine(ctx):
    eng = L.StubEngine(L._config_path(None), 1, "ctc")
    return int(eng.line_padding_px)


def _nontrivial(tr):
    return len(tr["w"]) >= 2 and (len(tr["batches"]) >= 2 or any(len(b["rows"]) >= 2 for b in tr["batches"]))


def _describe(tr, prog):
    if tr["outcome"] != "ok":
        return "outcome", "process_lines ended with %s" % tr["outcome"]
    nb = len(tr["batches"])
    if prog < nb:
        return "batch", "run_ocr call %d (images %s, row width %s) is not admitted" % (prog + 1, tr["batches"][prog]["ids"], tr["batches"][prog]["fed"])
    i = prog - nb
    if i < len(tr["res"]):
        r = tr["res"][i]
        imgs = sorted({run[2] for run in r["lruns"]} | {run[2] for run in r["truns"]})
        return "line-result", ("result at input position %d (width %d) is not the result of that image: coords kind %d [%d, %d], "
                               "%d frames, source images seen in it %s, digest %d vs alone %d" % (
                                   i + 1, tr["w"][i], r["cs"], r["lo"], r["hi"], r["frames"], imgs, r["dig"], r["ref"]))
    return "unfinished", "the work list was not exhausted or the result lists have the wrong length"


def judge(ctx, b, cases, traces, pad):
    strict = constants(b, pad=pad, Strict=True)
    loose = constants(b, pad=pad, Strict=False)
    acc, rej = ctx.validate("LineBatcher_Trace", traces, constants=strict, label="LineBatcher_Trace %s strict" % b["name"])
    for c, tr in zip(cases, traces):
        ctx.count(1, (b["name"], tuple(tr["w"]), tr["bs"], tuple(sorted(tr["mode"].items())), c["route"]) if _nontrivial(tr) else None)
    good = [i for i in range(len(traces)) if i not in {r[0] for r in rej} and _nontrivial(traces[i])]
    if good:
        ctx.sample({"bounds": b["name"], "case": cases[good[len(good) // 2]], "trace": _short(traces[good[len(good) // 2]])}, limit=4)
    if good and "selftest_corrupted_trace_rejected" not in ctx.notes:
        cands = [i for i in good if traces[i]["res"] and traces[i]["res"][0]["truns"]]
        if cands:
            def corrupt(tr):
                tr["res"][0]["truns"][0][2] += 1      # the first character of line 1 now claims to come from another image
                return tr
            ctx.selftest_corrupt("LineBatcher_Trace", traces[cands[len(cands) // 2]], corrupt, constants=loose)
    if rej:
        idx = [r[0] for r in rej]
        sub = [traces[i] for i in idx]
        acc2, rej2 = ctx.validate("LineBatcher_Trace", sub, constants=loose, label="LineBatcher_Trace %s property-level" % b["name"])
        bad = {r[0]: r[1] for r in rej2}
        for k, i in enumerate(idx):
            if k in bad:
                kind, what = _describe(traces[i], bad[k])
                sig = "%s:%s" % ("transformer" if b["transformer"] else "ctc", kind)
                ctx.violation({"bounds": b, "case": cases[i], "pad": pad, "trace": _short(traces[i]), "progress": bad[k]}, sig,
                              "%s; widths %s batch size %d mode %s route %s" % (what, traces[i]["w"], traces[i]["bs"], traces[i]["mode"], cases[i]["route"]))
            else:
                ctx.model_drift("%s: execution differs from the design (batch composition / placement / merge) but every line "
                                "still gets its own result" % b["name"], 1, cases[i])
    return rej


def _short(tr):
    t = dict(tr)
    t["res"] = [{k: (v if not isinstance(v, list) or len(v) <= 6 else v[:6] + ["..."]) for k, v in r.items()} for r in tr["res"]]
    return t


def design(ctx, b):
    props = ["Terminates", "Progress"]
    ctx.tlc("LineBatcher", constants=constants(b), invariants=INVS, properties=props, spec="Spec", workers=8, timeout=3000,
            label="LineBatcher %s" % b["name"])


def sharpness(ctx):
    small = {"name": "variants", "widths": [1, 33, 448, 481, 3841], "maxlines": 3, "bs": [1, 2], "transformer": False, "mlw": None}
    for variant, inv in [("scatter_pos", "OwnResult"), ("window_nopad", "WindowOK"), ("place0", "WindowIsExtent")]:
        ctx.tlc("LineBatcher", constants=constants(small, variant=variant), invariants=INVS, workers=4, timeout=900,
                expect_violation=inv, label="LineBatcher variant %s" % variant, coverage=False)
    ctx.tlc("LineBatcher", constants=constants(small, variant="no_max1"), invariants=INVS, properties=["Progress"], spec="Spec",
            workers=4, timeout=900, expect_violation="Progress", label="LineBatcher variant no_max1", coverage=False)


def run(ctx):
    L.setup(ctx.workdir)
    ctx.rule = ("every list of 0..n line images with widths from the bounded set (1 px .. beyond the engine maximum, equal widths, "
                "every order) x batch size x mode, executed by the real BaseEngineLineOCR.process_lines (and PageOCR.process_page) with "
                "a provenance stub network; non-trivial = at least two lines and either two run_ocr calls or a batch with two rows")
    ctx.exhaustive = all(b["fraction"] >= 1.0 for b in bounds(ctx.tier))
    ctx.assume("stub network: frame output depends on 8 columns of the row's own pixels (the statement's bounded-neighbourhood networks); "
               "real networks are not covered",
               "widths from a fixed set of 8 (12) values including 1, 31/32/33, the budget boundaries 448/481, 3841 and 8000; <= 3 (4) lines",
               "sparsification: posterior exactly 1e-4 (weight * 10^4 = sum) admits both outcomes (not decidable in floating point)",
               "transformer mode: the window/merge clause is checked with texts whose overlaps are exact; the merge itself is C15's subject")
    pad = _pad_of_engine(ctx)
    sharpness(ctx)
    for b in bounds(ctx.tier):
        design(ctx, b)
        cases = cases_of(ctx, b)
        traces = pmap(L.run_case, cases, procs=6)
        judge(ctx, b, cases, traces, pad)
        acases = alias_cases(b)
        judge_alias(ctx, b, acases, [L.run_case(c) for c in acases], pad)
    ctx.notes["explanation"] = ("TLC exhaustive on LineBatcher per bounds entry (invariants %s, properties Terminates/Progress); every "
                                "width list of the same bounds run through the real process_lines with the provenance stub engine and "
                                "validated by LineBatcher_Trace (Strict, then property-level)" % INVS)
    ctx.notes["line_padding_px_read_from_engine"] = pad


def replay(ctx, case):
    L.setup(ctx.workdir)
    b = case["bounds"]
    tr = L.run_case(case["case"])
    judge(ctx, b, [case["case"]], [tr], case.get("pad", 32))
