---------------------------- MODULE ErrorSummary ----------------------------
(* Growth beyond the listed properties (DESIGN.md section 8): the error-statistics accumulator of
   pero_ocr/error_summary.py as a state machine.

     ErrorsSummary.from_lists(ref, hyp)   one summary per line: ref_len, nb_errors = levenshtein_distance(ref, hyp),
                                          alignment = levenshtein_alignment(hyp, ref) (pairs <<hyp symbol, ref symbol>>, 0 = None),
                                          nb_inss / nb_dels / nb_subs = edit_stats_for_alignment, confusions[ref][hyp] += 1 per
                                          pair, match types C / S / I / D, the non-matching SUFFIX of the match types, and its
                                          classification by BoundaryErrorsSummary (exactly one of correct, pure deletions, mixed
                                          deletions, pure insertions, mixed insertions, pure substitutions)
     ErrorsSummary.aggregate(list)        running totals, one loop iteration per summary, ErrorsSummary(...) built at the return
     ErrorsSummary.__init__               error_rate = nb_errors / ref_len, math.inf when ref_len = 0
     BoundaryErrorsSummary.__eq__         see Legacy

   State = what the code holds: the per-line summaries (`items`), the running totals of the aggregate call that is open (`cur`),
   the aggregates already returned (`parts`), the running totals of the aggregate OF AGGREGATES (`acc`, position `k`).
   Actions (one per call / loop iteration of the real code):
     Add(ref, hyp)  from_lists(ref, hyp) + the loop iteration of the open aggregate call that consumes the new summary
     Close          the open aggregate call returns ErrorsSummary(totals); the next one starts from zero
     StartMerge / MergeStep / Finish   aggregate(parts): one MergeStep per part, Finish = the constructor call at its return

   The edit-distance functions are property C13 (spec/EditDistance.tla, INSTANCEd here as ED): this module takes from it the
   distance, the statistics of an alignment and the machine's own alignment, and is deliberately NOT pinned to the machine's
   tie-breaks: Add chooses ANY minimum-cost alignment (`OptAls`), so every property below is checked for every optimal alignment
   and trace validation accepts whichever one the code picks.  OptimalOnly = FALSE (any alignment at all) is the self-test
   that shows what rests on C13: the AssertionError of BoundaryErrorsSummary ("both insertion and deletion in the ending
   errors") becomes reachable and nb_errors stops being subs + inss + dels.

   Legacy: BoundaryErrorsSummary.__eq__ compares pure_deletions and mixed_deletions ONLY, so a correct line, a line ending in
   insertions and a line ending in substitutions are all "equal".  Evidently all six counters are meant; the module models
   that (Legacy = FALSE, EqSound holds) and keeps the current comparison as Legacy = TRUE (EqSound violated).

   Symbols are positive integers, 0 is None.  Rates are exact fractions <<numerator, denominator>>, <<1, 0>> = inf.        *)
EXTENDS Integers, Sequences, FiniteSets, TLC
CONSTANTS Alphabet,     \* symbols (positive integers)
          MaxLen,       \* longest ref / hyp line
          MaxLines,     \* lines summarised in one history
          MaxParts,     \* aggregate calls of the first level (groups of lines: pages of a document)
          OptimalOnly,  \* TRUE: the alignment has minimum cost (what C13 establishes for levenshtein_alignment)
          Legacy        \* TRUE: __eq__ of BoundaryErrorsSummary as the code has it today

Unit == <<1, 1, 1>>
ED == INSTANCE EditDistance WITH Costs <- {Unit}, Legacy <- FALSE,
         src <- <<>>, tgt <- <<>>, cost <- Unit, i <- 0, row <- <<>>, bt <- <<>>, ssrc <- <<>>, stgt <- <<>>,
         srow <- <<>>, sbt <- <<>>, phase <- "none", al <- <<>>, sal <- <<>>

Sym0 == Alphabet \cup {0}
Strs == UNION {[1..n -> Alphabet] : n \in 0..MaxLen}
Cells == Sym0 \X Sym0                      \* <<ref symbol, hyp symbol>>
MaxOf(S) == CHOOSE m \in S : \A o \in S : m >= o

\* ------------------------------------------------------------------ alignments of hyp (source) and ref (target)
\* the Wagner-Fischer table, row by row (rows forced to explicit tables inside ED!LevRow); tbl[i + 1][j] = distance of s[1..i], t[1..j]
Tbl(s, t) == LET RECURSIVE g(_, _)
                 g(n, rows) == IF n > Len(s) THEN rows ELSE g(n + 1, Append(rows, ED!LevRow(rows[n], s[n], t, Unit)))
             IN g(1, << [j \in 0..Len(t) |-> j] @@ <<>> >>)
RECURSIVE OptFrom(_, _, _, _, _)
OptFrom(tbl, s, t, i, j) ==          \* all minimum-cost alignments of s[1..i] and t[1..j]
  IF i = 0 /\ j = 0 THEN {<<>>}
  ELSE LET d == tbl[i + 1][j]
           del == IF i > 0 /\ tbl[i][j] + 1 = d THEN {Append(a, <<s[i], 0>>) : a \in OptFrom(tbl, s, t, i - 1, j)} ELSE {}
           ins == IF j > 0 /\ tbl[i + 1][j - 1] + 1 = d THEN {Append(a, <<0, t[j]>>) : a \in OptFrom(tbl, s, t, i, j - 1)} ELSE {}
           sub == IF i > 0 /\ j > 0 /\ tbl[i][j - 1] + (IF s[i] = t[j] THEN 0 ELSE 1) = d
                  THEN {Append(a, <<s[i], t[j]>>) : a \in OptFrom(tbl, s, t, i - 1, j - 1)} ELSE {}
       IN del \cup ins \cup sub
\* (the table is bound through a set so that TLC evaluates it once)
OptAls(s, t) == UNION {OptFrom(tbl, s, t, Len(s), Len(t)) : tbl \in {Tbl(s, t)}}
RECURSIVE AllFrom(_, _, _, _)
AllFrom(s, t, i, j) ==               \* every alignment, optimal or not (self-test only)
  IF i = 0 /\ j = 0 THEN {<<>>}
  ELSE (IF i > 0 THEN {Append(a, <<s[i], 0>>) : a \in AllFrom(s, t, i - 1, j)} ELSE {})
       \cup (IF j > 0 THEN {Append(a, <<0, t[j]>>) : a \in AllFrom(s, t, i, j - 1)} ELSE {})
       \cup (IF i > 0 /\ j > 0 THEN {Append(a, <<s[i], t[j]>>) : a \in AllFrom(s, t, i - 1, j - 1)} ELSE {})
Alignments(hyp, ref) == IF OptimalOnly THEN OptAls(hyp, ref) ELSE AllFrom(hyp, ref, Len(hyp), Len(ref))

\* ------------------------------------------------------------------ from_lists
\* get_match_type(ref_sym, hyp_sym) on a pair p = <<hyp symbol, ref symbol>>; "X" = AssertionError("Invalid alignment None-None")
MatchType(p) == IF p[1] = 0 /\ p[2] = 0 THEN "X"
                ELSE IF p[1] = p[2] THEN "C" ELSE IF p[2] = 0 THEN "I" ELSE IF p[1] = 0 THEN "D" ELSE "S"
Types(al) == [n \in 1..Len(al) |-> MatchType(al[n])]
\* get_non_matching_suffix: the match types after the last "C"
Suffix(ty) == LET cs == {n \in 1..Len(ty) : ty[n] = "C"}
              IN SubSeq(ty, (IF cs = {} THEN 0 ELSE MaxOf(cs)) + 1, Len(ty))
Bnd(c, pd, md, pi, mi, ps) == [c |-> c, pd |-> pd, md |-> md, pi |-> pi, mi |-> mi, ps |-> ps]
ZeroB == Bnd(0, 0, 0, 0, 0, 0)
\* BoundaryErrorsSummary.__init__ (the elif chain in the order of the code)
Classify(sfx) == LET S == {sfx[n] : n \in 1..Len(sfx)}
                 IN IF sfx = <<>> THEN Bnd(1, 0, 0, 0, 0, 0)
                    ELSE IF "S" \in S /\ "D" \in S THEN Bnd(0, 0, 1, 0, 0, 0)
                    ELSE IF "S" \in S /\ "I" \in S THEN Bnd(0, 0, 0, 0, 1, 0)
                    ELSE IF "D" \in S THEN Bnd(0, 1, 0, 0, 0, 0)
                    ELSE IF "I" \in S THEN Bnd(0, 0, 0, 1, 0, 0)
                    ELSE IF "S" \in S THEN Bnd(0, 0, 0, 0, 0, 1)
                    ELSE ZeroB
\* the two AssertionErrors of the module
Raises(al) == LET ty == Types(al)
                  S == {Suffix(ty)[n] : n \in 1..Len(Suffix(ty))}
              IN (\E n \in 1..Len(ty) : ty[n] = "X") \/ ("I" \in S /\ "D" \in S)
ConfOf(al) == [p \in Cells |-> Cardinality({n \in 1..Len(al) : al[n][2] = p[1] /\ al[n][1] = p[2]})]

\* ErrorsSummary.__init__: error_rate
Inf == <<1, 0>>
Rate(errors, reflen) == IF reflen > 0 THEN <<errors, reflen>> ELSE Inf
Mk(t) == [lines |-> t.lines, ref_len |-> t.ref_len, errors |-> t.errors, subs |-> t.subs, inss |-> t.inss, dels |-> t.dels,
          conf |-> t.conf, bnd |-> t.bnd, rate |-> Rate(t.errors, t.ref_len)]
FromLists(ref, hyp, al) ==
  LET st == ED!EditStats(al)        \* <<nphn, ncor, nins, ndel, nsub>>
  IN Mk([lines |-> 1, ref_len |-> Len(ref), errors |-> ED!LevAny(ref, hyp, Unit),
         subs |-> st[5], inss |-> st[3], dels |-> st[4], conf |-> ConfOf(al), bnd |-> Classify(Suffix(Types(al)))])

\* ------------------------------------------------------------------ aggregate
ZeroT == [lines |-> 0, ref_len |-> 0, errors |-> 0, subs |-> 0, inss |-> 0, dels |-> 0,
          conf |-> [p \in Cells |-> 0], bnd |-> ZeroB]
PlusB(a, b) == Bnd(a.c + b.c, a.pd + b.pd, a.md + b.md, a.pi + b.pi, a.mi + b.mi, a.ps + b.ps)
\* one loop iteration: totals += summary
Plus(t, s) == [lines |-> t.lines + s.lines, ref_len |-> t.ref_len + s.ref_len, errors |-> t.errors + s.errors,
               subs |-> t.subs + s.subs, inss |-> t.inss + s.inss, dels |-> t.dels + s.dels,
               conf |-> [p \in Cells |-> t.conf[p] + s.conf[p]], bnd |-> PlusB(t.bnd, s.bnd)]
RECURSIVE Fold(_, _, _)
Fold(t, seq, from) == IF from > Len(seq) THEN t ELSE Fold(Plus(t, seq[from]), seq, from + 1)
Aggregate(seq) == Mk(Fold(ZeroT, seq, 1))          \* the whole call as an operator

\* BoundaryErrorsSummary.__eq__
BEq(a, b) == IF Legacy THEN a.pd = b.pd /\ a.md = b.md
             ELSE a.c = b.c /\ a.pd = b.pd /\ a.md = b.md /\ a.pi = b.pi /\ a.mi = b.mi /\ a.ps = b.ps

\* ------------------------------------------------------------------ the machine
VARIABLES hist,      \* the lines summarised so far: sequence of <<ref, hyp>>
          items,     \* their summaries (what from_lists returned), same order
          cur,       \* running totals of the open aggregate call
          parts,     \* the aggregates already returned
          acc, k,    \* aggregate(parts): running totals, parts consumed
          pc,        \* "add" | "merge" | "done"
          outcome    \* "running" | "ok" | "AssertionError"
vars == <<hist, items, cur, parts, acc, k, pc, outcome>>

Init == /\ hist = <<>> /\ items = <<>> /\ cur = ZeroT /\ parts = <<>> /\ acc = ZeroT /\ k = 0
        /\ pc = "add" /\ outcome = "running"

\* (an open call always has room to return: lines are only added while another part may still be closed)
AddWith(ref, hyp, al) ==
  /\ pc = "add" /\ Len(hist) < MaxLines /\ Len(parts) < MaxParts
  /\ hist' = Append(hist, <<ref, hyp>>)
  /\ IF Raises(al)
     THEN /\ outcome' = "AssertionError" /\ pc' = "done" /\ UNCHANGED <<items, cur, parts, acc, k>>
     ELSE LET s == FromLists(ref, hyp, al)
          IN /\ items' = Append(items, s)
             /\ cur' = Plus(cur, s)
             /\ UNCHANGED <<parts, acc, k, pc, outcome>>
Add(ref, hyp) == \E al \in Alignments(hyp, ref) : AddWith(ref, hyp, al)

Close == /\ pc = "add" /\ Len(parts) < MaxParts
         /\ parts' = Append(parts, Mk(cur)) /\ cur' = ZeroT
         /\ UNCHANGED <<hist, items, acc, k, pc, outcome>>

StartMerge == /\ pc = "add" /\ cur = ZeroT
              /\ pc' = "merge" /\ acc' = ZeroT /\ k' = 0
              /\ UNCHANGED <<hist, items, cur, parts, outcome>>
MergeStep == /\ pc = "merge" /\ k < Len(parts)
             /\ acc' = Plus(acc, parts[k + 1]) /\ k' = k + 1
             /\ UNCHANGED <<hist, items, cur, parts, pc, outcome>>
Finish == /\ pc = "merge" /\ k = Len(parts)
          /\ pc' = "done" /\ outcome' = "ok"
          /\ UNCHANGED <<hist, items, cur, parts, acc, k>>
Total == Mk(acc)            \* what aggregate(parts) returned (pc = "done", outcome = "ok")

Next == (\E ref \in Strs, hyp \in Strs : Add(ref, hyp)) \/ Close \/ StartMerge \/ MergeStep \/ Finish
Spec == Init /\ [][Next]_vars /\ WF_vars(Next)

\* ============================================ properties ============================================
RECURSIVE SumPairs(_)
SumPairs(S) == IF S = {} THEN 0 ELSE LET x == CHOOSE y \in S : TRUE IN x[2] + SumPairs(S \ {x})
Mass(conf, P) == SumPairs({<<p, conf[p]>> : p \in P})
BSum(b) == b.c + b.pd + b.md + b.pi + b.mi + b.ps
RangeOf(seq) == {seq[n] : n \in 1..Len(seq)}
\* every record of totals the state holds (summaries count as their totals)
Held == RangeOf(items) \cup RangeOf(parts) \cup {cur, acc}
Ok == outcome # "AssertionError"
\* the totals over everything summarised so far, wherever they sit at the moment
Whole == IF pc = "add" THEN Fold(cur, parts, 1) ELSE Fold(acc, parts, k + 1)

IsTotals(t) == /\ t.lines \in Nat /\ t.ref_len \in Nat /\ t.errors \in Nat /\ t.subs \in Nat /\ t.inss \in Nat /\ t.dels \in Nat
               /\ DOMAIN t.conf = Cells /\ \A p \in Cells : t.conf[p] \in Nat
               /\ \A f \in {"c", "pd", "md", "pi", "mi", "ps"} : t.bnd[f] \in Nat
TypeOK == /\ pc \in {"add", "merge", "done"} /\ outcome \in {"running", "ok", "AssertionError"}
          /\ Len(hist) <= MaxLines /\ Len(parts) <= MaxParts /\ k \in 0..Len(parts)
          /\ Ok => Len(items) = Len(hist)
          /\ \A t \in Held : IsTotals(t)
          /\ (outcome = "running") = (pc # "done")

\* from_lists and aggregate raise nothing on lists of symbols: neither AssertionError of the module can leave them
OnlyDocumentedErrors == outcome \in {"running", "ok"}

\* nb_errors = subs + inss + dels, in every summary and every running total ...
ErrorsSplit == \A t \in Held : t.errors = t.subs + t.inss + t.dels
\* ... = the sum of the Levenshtein distances of the lines; ref_len, lines and inss - dels are the sums they should be
LevSum == LET RECURSIVE f(_) f(n) == IF n = 0 THEN 0 ELSE f(n - 1) + ED!Lev(hist[n][1], hist[n][2], Unit) IN f(Len(hist))
RefSum == LET RECURSIVE f(_) f(n) == IF n = 0 THEN 0 ELSE f(n - 1) + Len(hist[n][1]) IN f(Len(hist))
HypSum == LET RECURSIVE f(_) f(n) == IF n = 0 THEN 0 ELSE f(n - 1) + Len(hist[n][2]) IN f(Len(hist))
ErrorsAreDistances == Ok => /\ Whole.errors = LevSum /\ Whole.ref_len = RefSum /\ Whole.lines = Len(hist)
                            /\ Whole.inss - Whole.dels = HypSum - RefSum
\* the confusion table: off-diagonal mass = nb_errors, the rows of real symbols sum to ref_len, row None = insertions,
\* column None = deletions, cell None-None empty, diagonal = matches
ConfusionMass == \A t \in Held :
                   /\ Mass(t.conf, {p \in Cells : p[1] # p[2]}) = t.errors
                   /\ Mass(t.conf, {p \in Cells : p[1] # 0}) = t.ref_len
                   /\ Mass(t.conf, {p \in Cells : p[1] = 0}) = t.inss
                   /\ Mass(t.conf, {p \in Cells : p[2] = 0}) = t.dels
                   /\ Mass(t.conf, {p \in Cells : p[1] # 0 /\ p[2] # 0 /\ p[1] # p[2]}) = t.subs
                   /\ t.conf[<<0, 0>>] = 0
\* exactly one ending class per line
OneClassPerLine == \A t \in Held : BSum(t.bnd) = t.lines
\* a line whose ending is not "correct" has an error; pure classes have the matching kind of error
ClassMeaning == \A s \in RangeOf(items) :
                   /\ s.errors = 0 => s.bnd.c = 1
                   /\ (s.bnd.pd = 1 \/ s.bnd.md = 1) => s.dels > 0
                   /\ (s.bnd.pi = 1 \/ s.bnd.mi = 1) => s.inss > 0
                   /\ (s.bnd.ps = 1 \/ s.bnd.md = 1 \/ s.bnd.mi = 1) => s.subs > 0
\* aggregate is associative: wherever the partial sums sit, together they are the flat sum of the items; the aggregate of the
\* aggregates IS the flat aggregate
AggregateIsFlat == Ok => /\ Whole = Fold(ZeroT, items, 1)
                         /\ (pc = "done") => Total = Aggregate(items)
\* ... and independent of the order of its argument
OrderIndependent == \A f \in Permutations(1..Len(items)) :
                       Fold(ZeroT, [n \in 1..Len(items) |-> items[f[n]]], 1) = Fold(ZeroT, items, 1)
\* error_rate: the ratio of the SUMS (not a mean of line rates); inf exactly when there is no reference symbol - even with 0 errors
RateDefined == /\ \A s \in RangeOf(items) \cup RangeOf(parts) : s.rate = (IF s.ref_len = 0 THEN Inf ELSE <<s.errors, s.ref_len>>)
               /\ (pc = "done" /\ Ok) => Total.rate = (IF RefSum = 0 THEN Inf ELSE <<LevSum, RefSum>>)
\* == on the ending classes means "same counters"
EqSound == \A a, b \in {t.bnd : t \in Held} : BEq(a, b) <=> (a = b)
\* what the code's own choice is: the alignment of the C13 machine is one of those Add may take; the table is the distance
CodeChoiceAdmissible == hist # <<>> =>
                           LET ref == hist[Len(hist)][1]
                               hyp == hist[Len(hist)][2]
                           IN /\ ED!MachineAl(hyp, ref, Unit) \in OptAls(hyp, ref)
                              /\ Tbl(hyp, ref)[Len(hyp) + 1][Len(ref)] = ED!Lev(ref, hyp, Unit)
\* aggregate leaves its arguments alone
InputsUntouched == [][/\ Len(items') >= Len(items) /\ \A n \in 1..Len(items) : items'[n] = items[n]
                      /\ Len(parts') >= Len(parts) /\ \A n \in 1..Len(parts) : parts'[n] = parts[n]]_vars
Terminates == <>(pc = "done")
=============================================================================
