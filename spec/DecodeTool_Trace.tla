--------------------------- MODULE DecodeTool_Trace ---------------------------
(* A recorded execution of the real decoding_itf / transcription_io code is accepted iff it is a behaviour of the matching
   machine of DecodeTool from the recorded input (Legacy = TRUE = the code as it is today):

     kind "factory"  decoder_factory on a real configparser section: same outcome (decoder class / exception), and for a decoder
                     the same letters, beam size, LM scale, insertion bonus (thousandths) and LM symbol table; the same number
                     of LM loads also when the constructor refuses the letters afterwards
     kind "tlog"     a call sequence on one real TimeLogger: after every call the same exception (or none), the same counters
                     and the same number of lines printed so far
     kind "decode"   a history of decode_page calls on one long-lived decoder: per call the same outcome, the same page of
                     transcriptions (labels in order, the text a transcription of the label's OWN stored logits - any of the
                     tied arg-max paths), the same TimeLogger counters and printed lines
     kind "tio"      save + load / load of a given file content / one parse call: the file content written, the outcome, the
                     loaded dictionary in order, the reported line number, the parsed parts

   Inputs beyond the bounds TLC enumerates on the design (sampled long lines, many labels, long files) go through the very same
   actions: nothing below depends on the constants that bound the initial states of the design runs.                       *)
EXTENDS DecodeTool, TraceKit
VARIABLE tid
Tr == Traces[tid]

TInit == /\ tid \in 1..NTraces
         /\ fa = IF Tr.kind = "factory" THEN F_Start(Tr.cfg, Tr.chars, Tr.allow) ELSE Idle
         /\ tl = IF Tr.kind = "tlog" THEN L_Start(Tr.loud) ELSE Idle
         /\ de = IF Tr.kind = "decode" THEN D_Start(Tr.calls[1].page, Tr.calls[1].loud, Tr.calls[1].dkind, 1) ELSE Idle
         /\ io = IF Tr.kind = "tio" THEN T_Start(Tr.mode, Tr.emb, Tr.d, Tr.file) ELSE Idle

\* ---------------------------------------------------------------- factory
Unknown == 999999      \* a private counter the harness could not read: not compared
Same(model, seen) == seen = Unknown \/ model = seen
F_Match == /\ fa'.outcome = Tr.outcome
           /\ fa'.chars = Tr.charsafter                                   \* the caller's list of characters is not touched
           /\ fa'.lmloads = Tr.lmloads
           /\ (Tr.outcome = "ok") => fa'.out = Tr.out
F_T == /\ F_Next
       /\ (fa'.outcome # "running") => F_Match

\* ---------------------------------------------------------------- TimeLogger
L_T == /\ tl.nops < Len(Tr.ops)
       /\ LET o == Tr.ops[tl.nops + 1]
              b == Tr.obs[tl.nops + 1] IN
          /\ CASE o.op = "start" -> L_CallStart
               [] o.op = "end" -> L_CallEnd(o.n)
               [] OTHER -> L_CallFinal
          /\ tl'.last = b.outcome /\ Same(tl'.t.lines, b.lines) /\ Same(tl'.t.frames, b.frames) /\ tl'.t.printed = b.printed
       /\ UNCHANGED <<fa, de, io>>

\* ---------------------------------------------------------------- decode_page histories
D_Match == LET c == Tr.calls[de'.ncall] IN
           /\ de'.outcome = c.outcome
           /\ Same(de'.t.lines, c.lines) /\ Same(de'.t.frames, c.frames) /\ de'.t.printed = c.printed
           /\ (c.outcome = "ok") => de'.res = c.res
\* a line was decoded: the text must be the recorded one right away (a call that ended in an exception shows no texts: one
\* representative of the tied arg-max paths is followed, the outcome does not depend on it)
D_LineMatch == LET c == Tr.calls[de.ncall]
                   got == de'.cur[de.i] IN
               IF c.outcome = "ok"
               THEN /\ de.p \in DOMAIN c.res /\ de.i \in DOMAIN c.res[de.p]
                    /\ got = c.res[de.p][de.i]
               ELSE got.text = CHOOSE x \in Transcripts(de.page[de.p][de.i].line) : TRUE
D_T == /\ \/ D_Step
          \/ /\ de.pc = "done" /\ de.ncall < Len(Tr.calls)
             /\ LET c == Tr.calls[de.ncall + 1] IN D_CallWith(c.page, c.loud, c.dkind)
       /\ (de.pc = "line" /\ de'.pc = "line" /\ de'.i = de.i + 1) => D_LineMatch
       /\ (de'.pc = "done") => D_Match
       /\ UNCHANGED <<fa, tl, io>>

\* ---------------------------------------------------------------- transcription_io
T_Match == /\ io'.outcome = Tr.outcome
           /\ (Tr.outcome = "ok" /\ Tr.mode # "parse") => io'.loaded = Tr.loaded
           /\ (Tr.outcome = "ValueError" /\ Tr.mode # "parse" /\ Tr.errline # 99) => io'.errline = Tr.errline   \* 99: message not understood
           /\ (Tr.outcome = "ok" /\ Tr.mode = "parse") =>
                 /\ io'.parsed.key = Tr.parsed.key /\ io'.parsed.text = Tr.parsed.text
                 /\ io'.parsed.emb = Tr.parsed.emb /\ Tr.parsed.embnone = ~Tr.emb
T_T == /\ T_Next
       /\ (io.pc = "save" /\ io'.pc = "load") => io'.file = Tr.saved      \* what save_transcriptions left in the file
       /\ (io'.pc = "done") => T_Match

TNext == /\ UNCHANGED tid
         /\ CASE Tr.kind = "factory" -> F_T
              [] Tr.kind = "tlog" -> L_T
              [] Tr.kind = "decode" -> D_T
              [] OTHER -> T_T

Progress == CASE Tr.kind = "factory" -> (CASE fa.pc = "type" -> 0 [] fa.pc = "beam" -> 1 [] fa.pc = "scale" -> 2 [] fa.pc = "bonus" -> 3
                                           [] fa.pc = "lm" -> 4 [] fa.pc = "ctc" -> 5 [] fa.pc = "greedy" -> 5 [] OTHER -> 6)
              [] Tr.kind = "tlog" -> tl.nops
              [] Tr.kind = "decode" -> 100 * de.ncall + (IF de.pc = "done" THEN 99 ELSE 10 * de.p + de.i)
              [] OTHER -> (CASE io.pc = "save" -> io.si [] io.pc = "load" -> 10 + io.lineno [] io.pc = "parse" -> 0 [] OTHER -> 99)
Finished == CASE Tr.kind = "factory" -> fa.pc = "done"
              [] Tr.kind = "tlog" -> tl.nops = Len(Tr.ops)
              [] Tr.kind = "decode" -> de.pc = "done" /\ de.ncall = Len(Tr.calls)
              [] OTHER -> io.pc = "done"
TAccept == TKMark(tid, Progress, Finished)
TPost == TKPost
ASSUME TKReset
=============================================================================
