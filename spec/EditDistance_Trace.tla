------------------------- MODULE EditDistance_Trace -------------------------
(* Trace layer for EditDistance (C13).  The functions are pure, so a recorded execution is judged in the initial
   state; `mask` is the set of violated clauses encoded as a sum of powers of two (0 = accepted):

     kind = "pair":  one pair of sequences (abstract symbol ids; the driver instantiates them with strings, ints,
                     mixed or large-alphabet symbols and maps results back; 0 = empty symbol, 99 = a symbol that is
                     not in the input) pushed through the six functions and ErrorsSummary.from_lists
        1   levenshtein_distance              = Lev(src, tgt, cost)
        2   levenshtein_alignment             is a GoodAlignment (projects to both inputs, minimum cost)
        4   levenshtein_alignment_path        is a GoodPath (directions recorded as d + 1)
        8   levenshtein_distance_substring    = LevSub(src, tgt)                       (unit costs only)
        16  levenshtein_alignment_substring   is a GoodSubAlignment                    (unit costs only)
        32  ErrorsSummary.from_lists(src, tgt): subs + inss + dels = errors = Lev, inss - dels = |hyp| - |ref|,
            ref_len = |ref|, one line                                                  (unit costs only)
     kind = "agg":   ErrorsSummary.aggregate over recorded summaries
        64  every numeric field of the aggregate = sum of the fields

        128 (drift, not a violation) the alignments differ from the ones the modelled machines produce
   Acceptance is property-level: ANY optimal alignment is accepted, the code's tie-breaks are not pinned;
   a mask of exactly 128 is reported by the driver as MODEL-DRIFT.                                          *)
EXTENDS EditDistance, TraceKit
VARIABLES tid, mask

Tr == Traces[tid]
Ok(f) == f.o = "ok"
PairsOf(v) == [k \in 1..Len(v) |-> <<v[k][1], v[k][2]>>]
PathOf(v) == [k \in 1..Len(v) |-> v[k] - 1]
C == <<Tr.cost[1], Tr.cost[2], Tr.cost[3]>>

C1 == Ok(Tr.dist) /\ Tr.dist.v = LevAny(Tr.src, Tr.tgt, C)
C2 == Ok(Tr.al) /\ (\A k \in 1..Len(Tr.al.v) : Len(Tr.al.v[k]) = 2) /\ GoodAlignment(PairsOf(Tr.al.v), Tr.src, Tr.tgt, C)
C4 == Ok(Tr.path) /\ (\A k \in 1..Len(Tr.path.v) : Tr.path.v[k] \in {0, 1, 2}) /\ GoodPath(PathOf(Tr.path.v), Tr.src, Tr.tgt, C)
C8 == Tr.unit => (Ok(Tr.sdist) /\ Tr.sdist.v = LevSub(Tr.src, Tr.tgt))
C16 == Tr.unit => (Ok(Tr.sal) /\ (\A k \in 1..Len(Tr.sal.v) : Len(Tr.sal.v[k]) = 2) /\ GoodSubAlignment(PairsOf(Tr.sal.v), Tr.src, Tr.tgt))
C32 == Tr.unit => LET s == Tr.summ IN
          /\ Ok(s) /\ s.subs >= 0 /\ s.inss >= 0 /\ s.dels >= 0
          /\ s.errors = LevAny(Tr.src, Tr.tgt, Unit)
          /\ s.subs + s.inss + s.dels = s.errors
          /\ s.inss - s.dels = Len(Tr.tgt) - Len(Tr.src)          \* ref = src, hyp = tgt
          /\ s.ref_len = Len(Tr.src) /\ s.lines = 1

Fields == {"lines", "ref_len", "errors", "subs", "inss", "dels"}
SumField(items, f) == FoldSeq(LAMBDA it, acc : acc + it[f], 0, items)
C64 == Ok(Tr.agg) /\ \A f \in Fields : Tr.agg[f] = SumField(Tr.items, f)

\* detailed conformance (tie-breaks of the backtrack matrices)
D128 == /\ (Ok(Tr.al) /\ C2) => PairsOf(Tr.al.v) = MachineAl(Tr.src, Tr.tgt, C)
        /\ (Ok(Tr.path) /\ C4) => PathPairs(PathOf(Tr.path.v), Tr.src, Tr.tgt) = MachineAl(Tr.src, Tr.tgt, C)
        /\ (Tr.unit /\ Ok(Tr.sal) /\ C16) => PairsOf(Tr.sal.v) = MachineSubAl(Tr.src, Tr.tgt)

B(c, v) == IF c THEN 0 ELSE v
\* kind = "scale": one pair over more than 65 536 distinct symbols (far beyond what TLC enumerates); ref = the distance by an
\* independent two-row dynamic programme in the driver, dist / dist_r = levenshtein_distance(short, long) / (long, short),
\* summ = ErrorsSummary.from_lists(short, long)
S1 == Ok(Tr.dist) /\ Tr.dist.v = Tr.ref /\ Ok(Tr.dist_r) /\ Tr.dist_r.v = Tr.ref
S32 == Ok(Tr.summ) /\ Tr.summ.errors = Tr.ref /\ Tr.summ.subs + Tr.summ.inss + Tr.summ.dels = Tr.ref
MaskOf == IF Tr.kind = "pair"
          THEN B(C1, 1) + B(C2, 2) + B(C4, 4) + B(C8, 8) + B(C16, 16) + B(C32, 32) + B(D128, 128)
          ELSE IF Tr.kind = "scale" THEN B(S1, 1) + B(S32, 32)
          ELSE B(C64, 64)

TInit == /\ tid \in 1..NTraces
         /\ mask = MaskOf
         /\ src = <<>> /\ tgt = <<>> /\ cost = Unit /\ i = 0 /\ row = <<>> /\ bt = <<>> /\ ssrc = <<>> /\ stgt = <<>>
         /\ srow = <<>> /\ sbt = <<>> /\ phase = "trace" /\ al = <<>> /\ sal = <<>>
TNext == UNCHANGED <<vars, tid, mask>>
TAccept == TKMark(tid, mask, mask = 0)
TPost == TKPost
ASSUME TKReset
=============================================================================
