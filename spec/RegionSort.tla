---------------------------- MODULE RegionSort ----------------------------
(* C12 - reading-order sorting only permutes regions and always terminates.

   Implementation-shaped model of pero_ocr/layout_engines/smart_sorter.py
   (SmartRegionSorter.process_page -> CoupledRegions.divide_and_order / decouple / get_ordered_ids)
   and pero_ocr/layout_engines/naive_sorter.py (NaiveRegionSorter.process_page / sort_regions).

   Regions are axis-parallel boxes with integer corners (zero width / height allowed): both sorters look at
   nothing but the bounding box of a region polygon.  The smart sorter is modelled as a machine with an
   explicit call stack: one frame per divide_and_order invocation, one action per iteration of its loops
   (pop the head of non_aligned, add the first intersecting region, close a group, decouple fallback,
   descend into a group, return with the groups sorted).  get_ordered_ids is fused into the return step
   (a frame returns the flattened order of its sub-tree).  The same algorithm is also given as recursive
   operators (SmartOrder, the transcription validated against the real code while prototyping); the
   invariant MachineIsFunction ties the two together, and the trace layer uses the function.

   Property layer: Permutation (safety), NoException, FrameConserves, DepthBounded, NaiveIsStableSort and
   Termination (liveness, <>Done under weak fairness of Next).

   Legacy = TRUE reproduces the current naive sorter, which hands an empty page to DBSCAN (ValueError).
   Fallback = FALSE removes the decouple fallback (planned mutant): the recursion then never bottoms out on
   mutually intersecting regions and ends in Python's RecursionError (stack depth MaxDepth here).          *)
EXTENDS Integers, Sequences, FiniteSets, TLC, SequencesExt

CONSTANTS Inputs,     \* set of pages = sequences of boxes [id, x0, x1, y0, y1] (normally <- LatticeInputs)
          G,          \* lattice: corner coordinates in 0..G-1
          MaxN,       \* at most MaxN regions on a page
          Sorters,    \* subset of {"smart", "naive"}
          Eps,        \* naive sorter: DBSCAN radius (image width // ImageWidthDenominator) in lattice units
          Legacy,     \* TRUE: naive sorter without the guard for short pages (current tree)
          Fallback,   \* FALSE: smart sorter without decouple()
          MaxDepth    \* stands for Python's recursion limit

VARIABLES regs,       \* the page: sequence of regions (input, never changed)
          sorter, pc, outcome, out,
          stack,      \* smart sorter: frames of divide_and_order, top = last
          labels, corder, ci, order   \* naive sorter: DBSCAN labels, sorted cluster ids, loop index, result indices

vars == <<regs, sorter, pc, outcome, out, stack, labels, corder, ci, order>>

-----------------------------------------------------------------------------
(* bounded input space shared with the driver: all sequences of at most MaxN boxes on the G x G lattice *)
Ivs == {iv \in (0..(G-1)) \X (0..(G-1)) : iv[1] <= iv[2]}
PagesOfLen(n) == {[i \in 1..n |-> [id |-> i, x0 |-> f[i][1][1], x1 |-> f[i][1][2], y0 |-> f[i][2][1], y1 |-> f[i][2][2]]] :
                     f \in [1..n -> Ivs \X Ivs]}
LatticeInputs == UNION {PagesOfLen(n) : n \in 0..MaxN}

-----------------------------------------------------------------------------
(* helpers *)
Abs(a) == IF a < 0 THEN -a ELSE a
Min2(a, b) == IF a < b THEN a ELSE b
MinOf(S) == CHOOSE m \in S : \A o \in S : m <= o
MaxOf(S) == CHOOSE m \in S : \A o \in S : m >= o
Rng(s) == {s[i] : i \in 1..Len(s)}
Ids(s) == [i \in 1..Len(s) |-> s[i].id]
RemoveAtIdx(s, i) == SubSeq(s, 1, i-1) \o SubSeq(s, i+1, Len(s))
\* Python's sorted(): stable sort of sequence s by the integer key k(element)
StableSortBy(s, k(_)) ==
  LET idx == SortSeq([i \in 1..Len(s) |-> i], LAMBDA a, b : k(s[a]) < k(s[b]) \/ (k(s[a]) = k(s[b]) /\ a < b))
  IN [j \in 1..Len(s) |-> s[idx[j]]]
RECURSIVE SumSeq(_)
SumSeq(s) == IF s = <<>> THEN 0 ELSE Head(s) + SumSeq(Tail(s))

(* the property itself, shared with the trace layer: b holds exactly the elements of a, each once *)
IsPermOf(b, a) == /\ Len(b) = Len(a)
                  /\ \A i \in 1..Len(a) : Cardinality({j \in 1..Len(b) : b[j] = a[i]}) =
                                          Cardinality({j \in 1..Len(a) : a[j] = a[i]})

-----------------------------------------------------------------------------
(* smart sorter, geometry *)
BBox(g) == [x0 |-> MinOf({r.x0 : r \in Rng(g)}), x1 |-> MaxOf({r.x1 : r \in Rng(g)}),
            y0 |-> MinOf({r.y0 : r \in Rng(g)}), y1 |-> MaxOf({r.y1 : r \in Rng(g)})]
\* numpy: intersection / width > 0.1; width = 0 gives inf (intersection > 0) or nan (0/0, comparison False)
RatioGt(i, w) == IF w = 0 THEN i > 0 ELSE 10 * i > w
\* CoupledRegions.intersect(region, vertical): c = corners of the coupled group, r = candidate region
Intersect(c, r, vertical) ==
  IF vertical /\ c.x0 <= r.x1 /\ r.x0 <= c.x1
  THEN LET i == Min2(Abs(c.x0 - r.x1), Abs(r.x0 - c.x1)) IN RatioGt(i, c.x1 - c.x0) /\ RatioGt(i, r.x1 - r.x0)
  ELSE IF ~vertical /\ c.y0 <= r.y1 /\ r.y0 <= c.y1
  THEN LET i == Min2(Abs(c.y0 - r.y1), Abs(r.y0 - c.y1)) IN RatioGt(i, c.y1 - c.y0) /\ RatioGt(i, r.y1 - r.y0)
  ELSE FALSE
Hits(cur, non, vertical) == {i \in 1..Len(non) : Intersect(BBox(cur), non[i], vertical)}
\* decouple(): sort by the axis whose sorted minima have the larger sum of neighbour differences
AdjDiffs(s) == SumSeq([i \in 1..(Len(s) - 1) |-> Abs(s[i] - s[i+1])])
Decoupled(g) ==
  LET xs == StableSortBy(g, LAMBDA r : r.x0)
      ys == StableSortBy(g, LAMBDA r : r.y0)
      xd == AdjDiffs([i \in 1..Len(xs) |-> xs[i].x0])
      yd == AdjDiffs([i \in 1..Len(ys) |-> ys[i].y0])
  IN IF xd > yd THEN xs ELSE ys
Singletons(s) == [i \in 1..Len(s) |-> <<s[i]>>]
KeyOf(bb, vertical) == IF vertical THEN bb.x0 ELSE bb.y0

(* the same algorithm as a recursive function (transcription of divide_and_order + get_ordered_ids) *)
RECURSIVE Grow(_, _, _)
Grow(c, non, vertical) ==
  LET hits == Hits(c, non, vertical)
  IN IF hits = {} THEN <<c, non>>
     ELSE LET i == MinOf(hits) IN Grow(Append(c, non[i]), RemoveAtIdx(non, i), vertical)
RECURSIVE Couple(_, _)
Couple(non, vertical) ==
  IF non = <<>> THEN <<>>
  ELSE LET gr == Grow(<<Head(non)>>, Tail(non), vertical) IN <<gr[1]>> \o Couple(gr[2], vertical)
RECURSIVE Order(_, _, _)
Order(rs, vertical, hasParent) ==
  IF Len(rs) = 1 THEN rs
  ELSE LET groups == Couple(rs, vertical)
           groups2 == IF Len(groups) = 1 /\ hasParent THEN Singletons(Decoupled(groups[1])) ELSE groups
           ordered == [i \in 1..Len(groups2) |->
                         [key |-> KeyOf(BBox(groups2[i]), vertical),
                          seq |-> IF Len(groups2[i]) > 1 THEN Order(groups2[i], ~vertical, TRUE) ELSE groups2[i]]]
           sorted == StableSortBy(ordered, LAMBDA o : o.key)
       IN FlattenSeq([i \in 1..Len(sorted) |-> sorted[i].seq])
SmartOrder(rs) == IF Len(rs) < 2 THEN rs ELSE Order(rs, FALSE, FALSE)

-----------------------------------------------------------------------------
(* naive sorter: DBSCAN(eps, min_samples = 1) on the y_min values = connected components of |a - b| <= eps,
   labelled in the order of their first member *)
RECURSIVE Closure(_, _)
Closure(S, rs) == LET T == S \cup {j \in 1..Len(rs) : \E i \in S : Abs(rs[i].y0 - rs[j].y0) <= Eps}
                  IN IF T = S THEN S ELSE Closure(T, rs)
Comp(i, rs) == Closure({i}, rs)
First(i, rs) == MinOf(Comp(i, rs))
DbscanLabels(rs) == [i \in 1..Len(rs) |-> Cardinality({First(j, rs) : j \in {j \in 1..Len(rs) : First(j, rs) < First(i, rs)}})]
\* np.unique(labels, return_index=True): cluster ids 0..K-1 and the first index of each
NClusters(lab) == Cardinality(Rng(lab))
ClusterFirstIdx(lab, c) == MinOf({i \in 1..Len(lab) : lab[i] = c})
SortedClusters(lab, rs) == StableSortBy([c \in 1..NClusters(lab) |-> c - 1], LAMBDA c : rs[ClusterFirstIdx(lab, c)].y0)
RECURSIVE SeqOfSet(_)
SeqOfSet(S) == IF S = {} THEN <<>> ELSE LET m == MinOf(S) IN <<m>> \o SeqOfSet(S \ {m})
ClusterOrder(lab, rs, c) == StableSortBy(SeqOfSet({i \in 1..Len(lab) : lab[i] = c}), LAMBDA i : rs[i].y0)
NaiveOrder(rs) == StableSortBy(rs, LAMBDA r : r.y0)     \* what the clustering amounts to, whatever Eps is

-----------------------------------------------------------------------------
(* the machine *)
NewFrame(rs, v, hp) == [rs |-> rs, vertical |-> v, hasParent |-> hp, phase |-> "couple",
                        non |-> rs, cur |-> <<>>, aligned |-> <<>>, k |-> 1, res |-> <<>>]
Top == stack[Len(stack)]
SetTop(f) == [stack EXCEPT ![Len(stack)] = f]
NoNaive == UNCHANGED <<labels, corder, ci, order>>

Init == /\ regs \in Inputs
        /\ sorter \in Sorters
        /\ pc = "start" /\ outcome = "ok" /\ out = <<>> /\ stack = <<>>
        /\ labels = <<>> /\ corder = <<>> /\ ci = 1 /\ order = <<>>

\* process_page: if len(page_layout.regions) < 2: return page_layout
SmartEarlyReturn == /\ pc = "start" /\ sorter = "smart" /\ Len(regs) < 2
                    /\ out' = regs /\ pc' = "done"
                    /\ UNCHANGED <<regs, sorter, outcome, stack>> /\ NoNaive
\* CoupledRegions(regions).divide_and_order()
SmartEnter == /\ pc = "start" /\ sorter = "smart" /\ Len(regs) >= 2
              /\ stack' = <<NewFrame(regs, FALSE, FALSE)>> /\ pc' = "run"
              /\ UNCHANGED <<regs, sorter, outcome, out>> /\ NoNaive
\* coupled = CoupledRegions([non_aligned.pop(0)], self)
PopHead == /\ pc = "run" /\ Top.phase = "couple"
           /\ stack' = SetTop([Top EXCEPT !.cur = <<Head(Top.non)>>, !.non = Tail(Top.non), !.phase = "grow"])
           /\ UNCHANGED <<regs, sorter, pc, outcome, out>> /\ NoNaive
\* for idx, region in enumerate(non_aligned): if coupled.intersect(region, vertical): pop, add, break
GrowAdd == /\ pc = "run" /\ Top.phase = "grow"
           /\ LET hits == Hits(Top.cur, Top.non, Top.vertical)
              IN /\ hits # {}
                 /\ LET i == MinOf(hits)
                    IN stack' = SetTop([Top EXCEPT !.cur = Append(Top.cur, Top.non[i]), !.non = RemoveAtIdx(Top.non, i)])
           /\ UNCHANGED <<regs, sorter, pc, outcome, out>> /\ NoNaive
\* no region intersects any more: aligned.append(coupled)
GrowClose == /\ pc = "run" /\ Top.phase = "grow"
             /\ Hits(Top.cur, Top.non, Top.vertical) = {}
             /\ stack' = SetTop([Top EXCEPT !.aligned = Append(Top.aligned, Top.cur), !.cur = <<>>,
                                            !.phase = IF Top.non = <<>> THEN "divided" ELSE "couple"])
             /\ UNCHANGED <<regs, sorter, pc, outcome, out>> /\ NoNaive
\* if len(aligned) == 1 and self.parent is not None and self in self.parent.region_list: self.decouple()
NeedsDecouple(f) == Len(f.aligned) = 1 /\ f.hasParent /\ Fallback
Decouple == /\ pc = "run" /\ Top.phase = "divided" /\ NeedsDecouple(Top)
            /\ stack' = SetTop([Top EXCEPT !.aligned = Singletons(Decoupled(Top.aligned[1])), !.phase = "children"])
            /\ UNCHANGED <<regs, sorter, pc, outcome, out>> /\ NoNaive
KeepGroups == /\ pc = "run" /\ Top.phase = "divided" /\ ~NeedsDecouple(Top)
              /\ stack' = SetTop([Top EXCEPT !.phase = "children"])
              /\ UNCHANGED <<regs, sorter, pc, outcome, out>> /\ NoNaive
\* for idx, coupled in enumerate(self.region_list): if len(coupled.region_list) > 1: coupled.divide_and_order(not vertical)
Descend == /\ pc = "run" /\ Top.phase = "children" /\ Top.k <= Len(Top.aligned) /\ Len(Top.aligned[Top.k]) > 1
           /\ IF Len(stack) >= MaxDepth
              THEN outcome' = "exception:RecursionError" /\ pc' = "done" /\ UNCHANGED stack
              ELSE stack' = Append(stack, NewFrame(Top.aligned[Top.k], ~Top.vertical, TRUE)) /\ UNCHANGED <<pc, outcome>>
           /\ UNCHANGED <<regs, sorter, out>> /\ NoNaive
Leaf == /\ pc = "run" /\ Top.phase = "children" /\ Top.k <= Len(Top.aligned) /\ Len(Top.aligned[Top.k]) = 1
        /\ stack' = SetTop([Top EXCEPT !.res = Append(Top.res, [key |-> KeyOf(BBox(Top.aligned[Top.k]), Top.vertical),
                                                                   seq |-> Top.aligned[Top.k]]),
                                       !.k = Top.k + 1])
        /\ UNCHANGED <<regs, sorter, pc, outcome, out>> /\ NoNaive
\* self.region_list = sorted(self.region_list, key = x_min | y_min); return (get_ordered_ids flattens the sub-tree)
Return == /\ pc = "run" /\ Top.phase = "children" /\ Top.k > Len(Top.aligned)
          /\ LET sorted == StableSortBy(Top.res, LAMBDA o : o.key)
                 flat == FlattenSeq([i \in 1..Len(sorted) |-> sorted[i].seq])
             IN IF Len(stack) = 1
                THEN out' = flat /\ pc' = "done" /\ stack' = <<>>
                ELSE LET par == stack[Len(stack) - 1]
                         par2 == [par EXCEPT !.res = Append(par.res, [key |-> KeyOf(BBox(Top.rs), par.vertical), seq |-> flat]),
                                             !.k = par.k + 1]
                     IN stack' = Append(SubSeq(stack, 1, Len(stack) - 2), par2) /\ UNCHANGED <<out, pc>>
          /\ UNCHANGED <<regs, sorter, outcome>> /\ NoNaive

\* short pages.  Current tree (Legacy): no guard, DBSCAN(...).fit_predict on an array with 0 samples raises ValueError.
\* Repaired: if len(page_layout.regions) < 2: return page_layout
NaiveShortPage == /\ pc = "start" /\ sorter = "naive"
                  /\ IF Legacy
                     THEN Len(regs) = 0 /\ outcome' = "exception:ValueError" /\ UNCHANGED out
                     ELSE Len(regs) < 2 /\ out' = regs /\ UNCHANGED outcome
                  /\ pc' = "done"
                  /\ UNCHANGED <<regs, sorter, stack>> /\ NoNaive
\* labels = DBSCAN(eps, min_samples=1).fit_predict(y_min); clusters sorted by the y_min of their first member
NaiveCluster == /\ pc = "start" /\ sorter = "naive" /\ (IF Legacy THEN Len(regs) > 0 ELSE Len(regs) >= 2)
                /\ labels' = DbscanLabels(regs)
                /\ corder' = SortedClusters(labels', regs)
                /\ ci' = 1 /\ order' = <<>> /\ pc' = "clusters"
                /\ UNCHANGED <<regs, sorter, outcome, out, stack>>
\* for cluster_id in sorted_cluster_idxs: order.extend(sorted(point_idxs, key = y_min))
NaiveClusterStep == /\ pc = "clusters" /\ ci <= Len(corder)
                    /\ order' = order \o ClusterOrder(labels, regs, corder[ci])
                    /\ ci' = ci + 1
                    /\ UNCHANGED <<regs, sorter, pc, outcome, out, stack, labels, corder>>
\* page_layout.regions = [page_layout.regions[idx] for idx in order]
NaiveFinish == /\ pc = "clusters" /\ ci > Len(corder)
               /\ out' = [i \in 1..Len(order) |-> regs[order[i]]]
               /\ pc' = "done"
               /\ UNCHANGED <<regs, sorter, outcome, stack, labels, corder, ci, order>>

Next == \/ SmartEarlyReturn \/ SmartEnter \/ PopHead \/ GrowAdd \/ GrowClose \/ Decouple \/ KeepGroups
        \/ Descend \/ Leaf \/ Return
        \/ NaiveShortPage \/ NaiveCluster \/ NaiveClusterStep \/ NaiveFinish

Spec == Init /\ [][Next]_vars /\ WF_vars(Next)

-----------------------------------------------------------------------------
(* property layer *)
Done == pc = "done"
\* safety: the result holds exactly the input regions (whole records: id and geometry), each once
Permutation == (Done /\ outcome = "ok") => IsPermOf(out, regs)
NoException == Done => outcome = "ok"
\* every frame still owns exactly the regions it was called with (nothing lost or duplicated on the way)
FrameOwns(f) ==
  IF f.phase \in {"couple", "grow", "divided"}
  THEN FlattenSeq(f.aligned) \o f.cur \o f.non
  ELSE FlattenSeq([i \in 1..Len(f.res) |-> f.res[i].seq]) \o FlattenSeq(SubSeq(f.aligned, f.k, Len(f.aligned)))
FrameConserves == \A d \in 1..Len(stack) :
                     /\ IsPermOf(FrameOwns(stack[d]), stack[d].rs)
                     \* a frame waiting for a callee has handed aligned[k] to it
                     /\ (d < Len(stack)) => (stack[d].phase = "children" /\ stack[d + 1].rs = stack[d].aligned[stack[d].k])
DepthBounded == Len(stack) <= 2 * MaxN
\* the machine computes the recursive transcription (which the trace layer uses as the detailed model)
MachineIsFunction == (Done /\ outcome = "ok" /\ sorter = "smart" /\ Fallback) => out = SmartOrder(regs)
\* the DBSCAN detour amounts to a stable sort by y_min for every radius
NaiveIsStableSort == (Done /\ outcome = "ok" /\ sorter = "naive") => out = NaiveOrder(regs)
\* liveness: both sorters terminate on every page
Termination == <>Done
=============================================================================
