"""C07 helper: a provenance stub engine plugged into the real BaseEngineLineOCR.process_lines, and the projection of
its results to the integer trace format of spec/LineBatcher_Trace.tla.

Every pixel column of a test image encodes (image tag, own column number); padding is zero.  The stub network
(run_ocr) is a per-frame function of the columns 4f-2 .. 4f+5 of each row's own pixels (bounded receptive field):
it outputs log-weights from which (image tag, first visible own column, number of visible columns) and two
low-posterior classes can be recovered exactly.  Nothing here judges anything: TLC compares the projected integers
with the specification."""
import contextlib
import io
import json
import os
import signal
import zlib

import numpy as np
import torch

from pero_ocr.ocr_engine.line_ocr_engine import BaseEngineLineOCR

H = 4                 # line height of the test crops
SUB = 4               # net_subsampling of the CTC engines
FR = 2                # receptive field radius (LineBatcher!FR)
BLK = 16              # transformer stub: one symbol per BLK own columns (LineBatcher!Blk)
WA = 29990            # LineBatcher!WA
S4 = (12, 13, 12, 40)
S5 = (2, 11, 12, 3000)
TS4 = (6, 5, 7, 6)
TS5 = (2, 6, 3000, 7)
BASE = 0x1000
BAD = 9999            # sentinel for "not decodable"
# per-frame constant added to all logits of a frame by the CTC stub (period 4; the first frame of every window, pad // SUB = 8,
# is a multiple of 4): a constant per frame changes no posterior, so it must change neither the sparse keep-set nor anything else,
# but it gives the rows of one line very different magnitudes (float64: exp underflows beyond ~745)
SHIFTS = np.array([0.0, 800.0, -800.0, 300.0])
CASE_TIMEOUT = 120
MAX_CALLS = 2000      # run_ocr calls per process_lines call before the case is declared non-terminating


def make_image(tag, width):
    img = np.zeros((H, width, 3), dtype=np.uint8)
    x = np.arange(1, width + 1)
    img[:, :, 0] = tag
    img[:, :, 1] = x % 256
    img[:, :, 2] = x // 256
    return img


def write_config(path, max_line_width=None):
    cfg = {"line_px_height": H, "line_vertical_scale": 1, "checkpoint": "none.pt", "characters": ["a", "b", "c"],
           "net_name": "stub"}
    if max_line_width is not None:
        cfg["max_line_width"] = max_line_width
    # written by whichever forked worker needs it first: atomically, so that a worker running side by side never reads a
    # half-written file (seen once under load 300: JSONDecodeError in the engine constructor, reported as an outcome of the code)
    tmp = "%s.%d.tmp" % (path, os.getpid())
    with open(tmp, "w") as fh:
        json.dump(cfg, fh)
    os.replace(tmp, path)
    return path


class StubEngine(BaseEngineLineOCR):
    """The real constructor (constants 32 px / 480 * batch_size come from the code under test); run_ocr is the stub."""

    def __init__(self, json_def, batch_size, model_type="ctc"):
        super().__init__(json_def, torch.device("cpu"), batch_size=batch_size, model_type=model_type)
        if model_type == "ctc":
            self.net_subsampling = SUB
        self.seen = []

    # ---- what the network is fed: decoded from the pixels
    @staticmethod
    def _rows(batch):
        tagc = batch[:, 0, :, 0].astype(np.int64)
        colc = batch[:, 0, :, 1].astype(np.int64) + 256 * batch[:, 0, :, 2].astype(np.int64)
        rows = []
        for t, c in zip(tagc, colc):
            nzp = np.nonzero(t)[0]
            if len(nzp) == 0:
                rows.append({"tag": 0, "src": 0, "place": 0, "n": 0})
                continue
            a, b = int(nzp[0]), int(nzp[-1])
            ok = (b - a + 1 == len(nzp)) and bool(np.all(t[a:b + 1] == t[a])) and \
                bool(np.all(np.diff(c[a:b + 1]) == 1))
            rows.append({"tag": int(t[a]) if ok else BAD, "src": int(c[a]), "place": a, "n": b - a + 1})
        return tagc, colc, rows

    def run_ocr(self, batch_data):
        batch_data = np.asarray(batch_data)
        tagc, colc, rows = self._rows(batch_data)
        ids = []
        for r in rows:
            if not ids or ids[-1] != r["tag"]:
                ids.append(r["tag"])
        self.seen.append({"ids": ids, "fed": int(batch_data.shape[2]), "rows": rows})
        if len(self.seen) > MAX_CALLS:
            raise CaseTimeout()
        if self.model_type == "transformer":
            return self._run_transformer(tagc, colc)
        return self._run_ctc(tagc, colc)

    @staticmethod
    def _run_ctc(tagc, colc):
        n, width = tagc.shape
        f = width // SUB
        big = 1 << 40
        pt = np.pad(tagc, ((0, 0), (FR, SUB + FR + SUB)))
        pc = np.pad(colc, ((0, 0), (FR, SUB + FR + SUB)))
        k = SUB + 2 * FR
        wt = np.stack([pt[:, j:j + SUB * f:SUB] for j in range(k)], axis=2)        # n, f, k
        wc = np.stack([pc[:, j:j + SUB * f:SUB] for j in range(k)], axis=2)
        m = wt > 0
        nz = m.sum(axis=2)
        img = wt.max(axis=2) if f else np.zeros((n, 0), dtype=np.int64)
        col = np.where(m, wc, big).min(axis=2) if f else np.zeros((n, 0), dtype=np.int64)
        col = np.where(nz > 0, col, 0)
        s4 = np.asarray(S4)[img % 4]
        s5 = np.asarray(S5)[img % 4]
        weights = np.stack([WA + img, WA + col % 1000, WA + col // 1000, WA + nz, s4, s5], axis=2).astype(np.float64)
        logits = np.log(weights) + SHIFTS[np.arange(f) % 4][None, :, None]
        texts = []
        for i in range(n):
            sel = nz[i] > 0
            codes = BASE + img[i][sel] * 2048 + col[i][sel] % 2048
            texts.append("".join(map(chr, codes.tolist())))
        return texts, logits

    @staticmethod
    def _run_transformer(tagc, colc):
        n = tagc.shape[0]
        per_row = []
        for t, c in zip(tagc, colc):
            sel = t > 0
            tags = t[sel]
            blocks = (c[sel] - 1) // BLK
            keep = np.ones(len(blocks), dtype=bool)
            keep[1:] = (blocks[1:] != blocks[:-1]) | (tags[1:] != tags[:-1])
            per_row.append((tags[keep], blocks[keep]))
        kmax = max([len(b) for _, b in per_row] + [0]) + 2
        weights = np.zeros((n, kmax, 4), dtype=np.float64)
        weights[:, :, 0] = WA
        weights[:, :, 1] = WA
        weights[:, :, 2] = TS4[0]
        weights[:, :, 3] = TS5[0]
        texts = []
        for i, (tags, blocks) in enumerate(per_row):
            ln = len(blocks)
            weights[i, :ln, 0] = WA + tags
            weights[i, :ln, 1] = WA + blocks
            weights[i, :ln, 2] = np.asarray(TS4)[tags % 4]
            weights[i, :ln, 3] = np.asarray(TS5)[tags % 4]
            texts.append("".join(map(chr, (BASE + tags * 2048 + blocks % 2048).tolist())))
        return texts, np.log(weights)


# ------------------------------------------------------------------------------------------------ projection
def _recover(arr):
    """log-weights -> integer weights (0 where the stored value is exactly 0, -1 where not a log of an integer)"""
    arr = np.asarray(arr, dtype=np.float64)
    with np.errstate(over="ignore", invalid="ignore"):
        e = np.exp(arr)
    r = np.rint(e)
    ok = np.isfinite(e) & (np.abs(e - r) <= 1e-6 * np.maximum(r, 1)) & (r < 1e9)
    out = np.where(ok, r, -1).astype(np.int64)
    out[arr == 0] = 0
    return out


def _runs(cols, first=0):
    """cols: list of equally long integer arrays; run-length encode rows -> [[g0, g1, v1, v2, ...], ...]
    (g counted from `first`)"""
    n = len(cols[0])
    if n == 0:
        return []
    m = np.stack(cols, axis=1)
    change = np.ones(n, dtype=bool)
    change[1:] = np.any(m[1:] != m[:-1], axis=1)
    starts = np.nonzero(change)[0]
    ends = np.append(starts[1:], n) - 1
    return [[int(a) + first, int(b) + first] + [int(v) for v in m[a]] for a, b in zip(starts, ends)]


def _text_runs(text, step):
    codes = np.array([ord(ch) for ch in text], dtype=np.int64) - BASE
    k = np.arange(len(codes))
    ok = (codes >= 0) & (codes < 16 * 2048)
    img = np.where(ok, codes // 2048, BAD)
    d = np.where(ok, (codes % 2048 - step * k) % 2048, 0)
    return _runs([img, d]) if len(codes) else []


def _dense(lg):
    if lg is None:
        return None
    if hasattr(lg, "toarray"):
        return np.asarray(lg.toarray(), dtype=np.float64)
    return np.asarray(lg, dtype=np.float64)


def project_line(text, lg, coords, transformer, base_off=0):
    """one returned (transcription, logits, logit_coords) triple -> integers"""
    res = {"cs": 0, "lo": 0, "hi": 0, "lk": 0, "frames": 0, "lruns": [], "tlen": 0, "truns": [], "dig": 0, "ref": 0}
    if not isinstance(text, str):
        res["tlen"] = BAD
        text = ""
    res["tlen"] = len(text) if res["tlen"] != BAD else BAD
    res["truns"] = _text_runs(text, 1 if transformer else SUB)
    dig = zlib.crc32(text.encode("utf-8", "surrogatepass"))
    arr = _dense(lg)
    lo, hi = 0, 0
    if coords is None:
        res["cs"] = 0
    elif list(coords) == [None, None]:
        res["cs"] = 1
    else:
        res["cs"] = 2
        lo, hi = int(coords[0]), int(coords[1])
        res["lo"], res["hi"] = lo, hi
    if arr is not None and arr.ndim == 2:
        res["lk"] = 1
        res["frames"] = int(arr.shape[0])
        if res["cs"] == 2:
            a, b = max(lo, 0), max(min(hi, arr.shape[0]), max(lo, 0))
        else:
            a, b = 0, arr.shape[0]
        win = arr[a:b]
        g = np.arange(a, b)
        if not transformer:
            win = np.where(win != 0, win - SHIFTS[g % 4][:, None], 0.0)      # undo the stub's per-frame constant (0 = not stored)
        wts = _recover(win)
        if transformer:
            if wts.shape[1] == 4:
                img = wts[:, 0] - WA
                blk = wts[:, 1] - WA
                res["lruns"] = _runs([img, blk - g, np.zeros_like(g), wts[:, 2], wts[:, 3]], a)
            else:
                res["lk"] = 2
        else:
            if wts.shape[1] == 6:
                img = wts[:, 0] - WA
                col = (wts[:, 1] - WA) + 1000 * (wts[:, 2] - WA)
                nz = wts[:, 3] - WA
                res["lruns"] = _runs([img, col - SUB * g, nz, wts[:, 4], wts[:, 5]], a)
            else:
                res["lk"] = 2
        dig = zlib.crc32(np.ascontiguousarray(wts).tobytes(), dig)      # recovered integer weights: robust to 1-ulp differences of np.log
    elif arr is not None:
        res["lk"] = 2
    res["dig"] = int(dig & 0x7FFFFFFF)
    return res


class CaseTimeout(Exception):
    pass


def _alarm(signum, frame):
    raise CaseTimeout()


_ENV = {"cfg_dir": None}
_REF = {}


def setup(workdir):
    _ENV["cfg_dir"] = workdir
    _REF.clear()


def _config_path(mlw):
    p = os.path.join(_ENV["cfg_dir"], "stub_%s.json" % ("none" if mlw is None else mlw))
    if not os.path.exists(p):
        write_config(p, mlw)
    return p


def _call(engine, images, mode, route):
    kw = dict(sparse_logits=bool(mode["sparse"]), tight_crop_logits=bool(mode["tight"]), no_logits=bool(mode["nolog"]))
    if route == "page":
        # PageOCR.process_page zips the results back onto the lines (always with the default flags)
        from pero_ocr.core.layout import PageLayout, RegionLayout, TextLine
        from pero_ocr.document_ocr.page_parser import PageOCR
        page = PageLayout(id="p", page_size=(100, 100))
        half = (len(images) + 1) // 2
        k = 0
        for ri, chunk in enumerate([images[:half], images[half:]]):
            reg = RegionLayout("r%d" % ri, np.array([[0, 0], [10, 0], [10, 10], [0, 10]]))
            for im in chunk:
                ln = TextLine(id="l%d" % k, baseline=np.array([[0, 5], [10, 5]]), polygon=np.array([[0, 0], [10, 0], [10, 10], [0, 10]]),
                              heights=[2, 2])
                ln.crop = im
                reg.lines.append(ln)
                k += 1
            page.regions.append(reg)
        ocr = PageOCR.__new__(PageOCR)
        ocr.ocr_engine = engine
        ocr.device = torch.device("cpu")
        ocr.process_page(None, page)
        lines = list(page.lines_iterator())
        return [l.transcription for l in lines], [l.logits for l in lines], [l.logit_coords for l in lines]
    return engine.process_lines(images, **kw)


def reference_digest(tag, width, mode, transformer, mlw):
    """the same image recognised alone (batch size 16: the largest pixel budget), same flags"""
    key = (tag, width, mode["sparse"], mode["tight"], mode["nolog"], transformer, mlw)
    if key not in _REF:
        eng = StubEngine(_config_path(mlw), 16, "transformer" if transformer else "ctc")
        with contextlib.redirect_stdout(io.StringIO()):
            t, l, c = eng.process_lines([make_image(tag, width)], sparse_logits=bool(mode["sparse"]),
                                        tight_crop_logits=bool(mode["tight"]), no_logits=bool(mode["nolog"]))
        _REF[key] = project_line(t[0], l[0], c[0], transformer)["dig"]
    return _REF[key]


def run_case(case, eng=None, images=None):
    """case: {"w": [...], "bs": n, "mode": {sparse, tight, nolog}, "transformer": bool, "mlw": int|None, "route": "engine"|"page"}
    eng: a long-lived StubEngine that already served earlier calls (run_session); default: a fresh engine
    images: the list object to hand in (run_session: a list that may have been handed to an engine before)"""
    w, bs, mode = case["w"], case["bs"], case["mode"]
    transformer, mlw = bool(case.get("transformer")), case.get("mlw")
    tr = {"kind": "lb", "w": list(w), "bs": bs, "mode": dict(mode), "outcome": "ok", "batches": [], "res": [], "alias": []}
    # case["alias"][j] = index into w of the object standing at input position j (the same ndarray object may occur at several
    # positions of the list handed to process_lines); default: every position holds its own object
    al = case.get("alias") or list(range(len(w)))
    if images is None or case.get("alias"):
        uniq = [make_image(i + 1, wi) for i, wi in enumerate(w)]
        images = [uniq[a] for a in al]
    old = signal.signal(signal.SIGALRM, _alarm)
    signal.alarm(CASE_TIMEOUT)
    try:
        if eng is None:
            eng = StubEngine(_config_path(mlw), bs, "transformer" if transformer else "ctc")
        eng.seen = []
        with contextlib.redirect_stdout(io.StringIO()):
            texts, logits, coords = _call(eng, images, mode, case.get("route", "engine"))
        if not (len(texts) == len(logits) == len(coords) == len(al)):
            tr["outcome"] = "length"
        else:
            first = {}
            for j, a in enumerate(al):
                r = project_line(texts[j], logits[j], coords[j], transformer)
                r["ref"] = reference_digest(a + 1, w[a], mode, transformer, mlw)
                if a not in first:
                    first[a] = r
                else:
                    tr["alias"].append({"src": a + 1, "res": r})
            tr["res"] = [first[a] for a in range(len(w))] if len(first) == len(w) else []
    except CaseTimeout:
        tr["outcome"] = "timeout"
    except Exception as ex:          # part of the observation
        tr["outcome"] = "exception:" + type(ex).__name__
    finally:
        signal.alarm(0)
        signal.signal(signal.SIGALRM, old)
    if eng is not None:
        tr["batches"] = eng.seen[:64]
        if case.get("alias"):
            # the network saw every aliased object once per position; the trace lists each object once (first occurrence)
            seen, kept = set(), []
            for b in tr["batches"]:
                ids = [t for t in b["ids"] if t not in seen]
                seen.update(ids)
                if ids:
                    kept.append(dict(b, ids=ids, rows=[r for r in b["rows"] if r["tag"] in ids][:len(ids)]))
            tr["batches"] = kept
    return tr


# ------------------------------------------------------------------------------------------------ history (long-lived engines)
# The statement makes the result at a position a function of the image at that position (and of the engine asked): nothing a
# caller did before - earlier calls on the same engine object, calls on other engine objects of the same process, a call that
# failed half-way, the same list object handed in again - may show in it.  A session is a sequence of process_lines calls on a
# few long-lived engine objects, executed in ONE process; every call in scope yields one trace, judged by LineBatcher_Trace
# exactly like a call on a fresh engine.  Two engine types:
#   "lb"  the provenance StubEngine above (BaseEngineLineOCR.process_lines + stub run_ocr): trace kind "lb"
#   "pt"  the real PytorchEngineLineOCR (its constructor, run_ocr and greedy CTC decoding into the engine's own characters)
#         around a TorchScript stub network loaded from the checkpoint file named in the engine's json: trace kind "pt"
ABASE = 0x4E00        # alphabet a = the characters chr(ABASE + 2048 * a + k), k = 0 .. nsym-1 (LineBatcher_Trace!PtSym)
ASTRIDE = 2048
BADSYM = 99999        # a returned character that belongs to none of the alphabets (or a transcription that is not a str)
PT_MUL_TAG = 577      # LineBatcher_Trace!PtLab: class of a frame = (577 * image tag + 37 * ((last own column in the frame - 1) div 8)) mod nsym
PT_MUL_BLK = 37
PT_BLK = 8            # two frames per block: every symbol is emitted by a run of equal frames (CTC collapse is exercised)


def alphabet(a, nsym):
    return [chr(ABASE + ASTRIDE * a + k) for k in range(nsym)]


def make_image_pt(tag, width):
    """as make_image, but the tag has 16 bits (low byte in pixel row 0, high byte in pixel row 1): lists of more than 255 lines"""
    img = make_image(tag % 256, width)
    img[1, :, 0] = tag // 256
    return img


BADVAL = (1 << 30) - 1        # a stored value that is no integer (nan, inf, fraction) or is out of range


SPINF = 8000000               # code of a floor distance: the "other" classes of the frame carry the logit -inf (log of a zero posterior)


def check_pats(pats, nsym):
    """the frame patterns of the wide-range network (inputs of the case; LineBatcher_Trace!SpFrameOK reads them from the trace)"""
    assert len(pats) >= 2 and nsym + 1 <= 16
    for p in pats:
        assert len(p["ds"]) <= nsym and all(isinstance(d, int) and d >= 1 for d in p["ds"]) and p["fl"] >= 1
        assert abs(p["off"]) + max(p["ds"] + [p["fl"] if p["fl"] != SPINF else 1]) < (1 << 23)       # exact in float32
        assert all(d != SPINF for d in p["ds"])


def _pt_network_wide(nsym, pats):
    """as _pt_network (same arg-max class per frame), but the frames have the dynamic range of a real network: the frame whose
    arg-max class is cls emits  off - D  with D = 0 for cls, ds[j] for class (cls + j) % C, fl for every other class (fl = SPINF:
    the logit -inf, round 9); the pattern
    [off, ds, fl] is pattern 0 for frames that see padding only, else 1 + ((last own column - 1) // 4 + image tag) % (len(pats) - 1)"""
    check_pats(pats, nsym)
    c = nsym + 1
    dist = torch.zeros(len(pats), c)
    for k, p in enumerate(pats):
        dist[k] = torch.tensor([0] + list(p["ds"]) + [float("inf") if p["fl"] == SPINF else p["fl"]] * (c - 1 - len(p["ds"])),
                               dtype=torch.float32)
    offs = torch.tensor([float(p["off"]) for p in pats])

    class PtNetWide(torch.nn.Module):
        def __init__(self, nsym: int, npat: int, dist, offs):
            super().__init__()
            self.nsym = nsym
            self.npat = npat
            self.dist = dist
            self.offs = offs

        def forward(self, x):                                    # N x 3 x H x W, values 0..1; images of make_image_pt
            v = torch.round(x[:, :, 0, :] * 255.0).long()
            tag = v[:, 0] + 256 * torch.round(x[:, 0, 1, :] * 255.0).long()
            col = v[:, 1] + 256 * v[:, 2]                        # own column number (>= 1), 0 = padding
            n = tag.shape[0]
            f = tag.shape[1] // 4
            tag = tag[:, :4 * f].reshape(n, f, 4).max(dim=2)[0]
            col = col[:, :4 * f].reshape(n, f, 4).max(dim=2)[0]
            blk = torch.div(torch.clamp(col - 1, min=0), 8, rounding_mode="floor")
            lab = (tag * 577 + blk * 37) % self.nsym
            cls = torch.where(col == 0, torch.full_like(lab, self.nsym), lab)
            c = self.nsym + 1
            g4 = torch.div(torch.clamp(col - 1, min=0), 4, rounding_mode="floor")
            k = torch.where(col == 0, torch.zeros_like(lab), 1 + (g4 + tag) % (self.npat - 1))
            j = (torch.arange(c)[None, None, :] - cls[:, :, None]) % c
            logits = self.offs[k][:, :, None] - torch.gather(self.dist[k], 2, j)
            return logits.permute(0, 2, 1)                       # N x C x T

    return PtNetWide(nsym, len(pats), dist, offs)


def _pt_network(nsym):
    class PtNet(torch.nn.Module):
        """frame f is a function of the pixel columns 4f .. 4f+3 of its own row (bounded horizontal neighbourhood): blank (last
        class) where they are all padding, else a class computed from the image tag and the last own column visible in the frame"""

        def __init__(self, nsym: int):
            super().__init__()
            self.nsym = nsym

        def forward(self, x):                                    # N x 3 x H x W, values 0..1; images of make_image_pt
            v = torch.round(x[:, :, 0, :] * 255.0).long()
            tag = v[:, 0] + 256 * torch.round(x[:, 0, 1, :] * 255.0).long()
            col = v[:, 1] + 256 * v[:, 2]                        # own column number (>= 1), 0 = padding
            n = tag.shape[0]
            f = tag.shape[1] // 4
            tag = tag[:, :4 * f].reshape(n, f, 4).max(dim=2)[0]
            col = col[:, :4 * f].reshape(n, f, 4).max(dim=2)[0]
            blk = torch.div(torch.clamp(col - 1, min=0), 8, rounding_mode="floor")
            lab = (tag * 577 + blk * 37) % self.nsym
            cls = torch.where(col == 0, torch.full_like(lab, self.nsym), lab)
            c = self.nsym + 1
            logits = torch.nn.functional.one_hot(cls, c).float() * 12.0          # unique maximum: no arg-max ties
            logits = logits + torch.nn.functional.one_hot((cls + 1) % c, c).float() * 3.0
            return logits.permute(0, 2, 1)                       # N x C x T

    return PtNet(nsym)


def _pt_engine(wd, k, spec):
    """the real PytorchEngineLineOCR, built by its public constructor from a json definition + an exported (TorchScript) model"""
    from pero_ocr.ocr_engine.pytorch_ocr_engine import PytorchEngineLineOCR
    ck = os.path.join(wd, "pt_%d.pt" % k)
    model = torch.jit.script(_pt_network_wide(spec["nsym"], spec["pats"]) if spec.get("pats") else _pt_network(spec["nsym"]))
    model.save(ck)
    model.save(ck + ".cpu")        # the engine loads "<checkpoint>.cpu" on a cpu device
    js = os.path.join(wd, "pt_%d.json" % k)
    with open(js, "w", encoding="utf8") as fh:
        json.dump({"line_px_height": H, "line_vertical_scale": 1, "checkpoint": os.path.basename(ck),
                   "characters": alphabet(spec["alpha"], spec["nsym"]), "net_name": "stub"}, fh)
    return PytorchEngineLineOCR(js, torch.device("cpu"), batch_size=spec["bs"])


def _stored(arr):
    """stored values (integer logits of the wide-range network, 0 = not stored) -> integers; BADVAL for anything else"""
    with np.errstate(invalid="ignore"):
        r = np.rint(arr)
        ok = np.isfinite(arr) & (r == arr) & (np.abs(arr) < BADVAL)
    return np.where(ok, np.where(ok, r, 0), BADVAL).astype(np.int64)


def project_pt(text, lg, coords, wide=False):
    """one (transcription, logits, logit_coords) triple of a "pt" engine -> integers: the characters as ABASE-relative codes, the
    window, and the arg-max class of every returned frame inside the window; wide: also the stored value of every class at
    every returned frame inside the window (sp)"""
    res = {"cs": 0, "lo": 0, "hi": 0, "lk": 0, "frames": 0, "tlen": 0, "txt": [], "a0": 0, "amax": [], "sp": []}
    if isinstance(text, str):
        res["tlen"] = len(text)
        res["txt"] = [(ord(ch) - ABASE) if ABASE + ASTRIDE <= ord(ch) < ABASE + 8 * ASTRIDE else BADSYM for ch in text]
    else:
        res["tlen"] = BAD
    lo, hi = 0, 0
    if coords is None:
        res["cs"] = 0
    elif list(coords) == [None, None]:
        res["cs"] = 1
    else:
        res["cs"] = 2
        lo, hi = int(coords[0]), int(coords[1])
        res["lo"], res["hi"] = lo, hi
    arr = _dense(lg)
    if arr is not None and arr.ndim == 2:
        res["lk"] = 1
        res["frames"] = int(arr.shape[0])
        if res["cs"] == 2:
            a, b = max(lo, 0), max(min(hi, arr.shape[0]), max(lo, 0))
        else:
            a, b = 0, arr.shape[0]
        res["a0"] = a
        res["amax"] = [int(v) for v in arr[a:b].argmax(axis=1)] if b > a and arr.shape[1] > 0 else []
        if wide and res["amax"]:
            res["sp"] = [[int(v) for v in row] for row in _stored(arr[a:b])]
    elif arr is not None:
        res["lk"] = 2
    return res


def _failing_call(eng, kw):
    """a call outside the scope (the narrowest crop has the wrong height: numpy refuses it when its batch - the last one - is
    assembled, or a stricter engine refuses the list up front).  Whatever the engine does with it, the next call must not notice."""
    bad = np.full((H + 1, 5, 3), 7, dtype=np.uint8)
    try:
        with contextlib.redirect_stdout(io.StringIO()):
            eng.process_lines([make_image(1, 481), make_image(2, 200), bad, make_image(3, 190)], **kw)
        return "ok"
    except CaseTimeout:
        raise
    except Exception as ex:
        return "exception:" + type(ex).__name__


def _pt_call(eng, images, spec, call, w):
    mode = call["mode"]
    kw = dict(sparse_logits=bool(mode["sparse"]), tight_crop_logits=bool(mode["tight"]), no_logits=bool(mode["nolog"]))
    tr = {"kind": "pt", "w": list(w), "bs": spec["bs"], "mode": dict(mode), "outcome": "ok", "batches": [], "res": [], "alias": [],
          "alpha": spec["alpha"], "nsym": spec["nsym"], "wide": int(bool(spec.get("pats"))), "pats": list(spec.get("pats") or [])}
    try:
        with contextlib.redirect_stdout(io.StringIO()), np.errstate(all="ignore"):
            texts, logits, coords = eng.process_lines(images, **kw)
        if not (len(texts) == len(logits) == len(coords) == len(w)):
            tr["outcome"] = "length"
        else:
            tr["res"] = [project_pt(t, l, c, wide=bool(tr["wide"])) for t, l, c in zip(texts, logits, coords)]
    except CaseTimeout:
        tr["outcome"] = "timeout"
    except Exception as ex:          # part of the observation
        tr["outcome"] = "exception:" + type(ex).__name__
    return tr


def run_session(sess):
    """sess: {"engines": [{"type": "lb"|"pt", "bs": n, ("alpha": a, "nsym": k)}], "calls": [{"e": engine index, "w": [...],
    "mode": {...}, ("fail": 1: preceded by a failing call on the same engine)}]}.  Engines are created on first use and live to
    the end of the session; a list of crops asked for twice (same widths) is the same list object with the same arrays.
    Returns one trace per call, in order."""
    import tempfile
    import warnings
    warnings.filterwarnings("ignore", category=FutureWarning)
    torch.set_num_threads(1)
    wd = tempfile.mkdtemp(prefix="sess_", dir=_ENV["cfg_dir"])
    engines, lists, traces = {}, {}, []
    for call in sess["calls"]:
        spec = sess["engines"][call["e"]]
        w = call["w"]
        mk = make_image if spec["type"] == "lb" else make_image_pt
        images = lists.setdefault((spec["type"], tuple(w)), [mk(i + 1, wi) for i, wi in enumerate(w)])
        kw = dict(sparse_logits=bool(call["mode"]["sparse"]), tight_crop_logits=bool(call["mode"]["tight"]),
                  no_logits=bool(call["mode"]["nolog"]))
        if spec["type"] == "lb":
            if call["e"] not in engines:
                engines[call["e"]] = StubEngine(_config_path(None), spec["bs"], "ctc")
            eng = engines[call["e"]]
            if call.get("fail"):
                old = signal.signal(signal.SIGALRM, _alarm)
                signal.alarm(CASE_TIMEOUT)
                try:
                    _failing_call(eng, kw)
                except CaseTimeout:
                    pass
                finally:
                    signal.alarm(0)
                    signal.signal(signal.SIGALRM, old)
            tr = run_case({"w": w, "bs": spec["bs"], "mode": call["mode"], "transformer": False, "mlw": None, "route": "engine"},
                          eng=eng, images=images)
        else:
            old = signal.signal(signal.SIGALRM, _alarm)
            signal.alarm(CASE_TIMEOUT)
            try:
                if call["e"] not in engines:
                    engines[call["e"]] = _pt_engine(wd, call["e"], spec)
                eng = engines[call["e"]]
                if call.get("fail"):
                    _failing_call(eng, kw)
                tr = _pt_call(eng, images, spec, call, w)
            except CaseTimeout:
                tr = {"kind": "pt", "w": list(w), "bs": spec["bs"], "mode": dict(call["mode"]), "outcome": "timeout", "batches": [],
                      "res": [], "alias": [], "alpha": spec["alpha"], "nsym": spec["nsym"], "wide": int(bool(spec.get("pats"))),
                      "pats": list(spec.get("pats") or [])}
            finally:
                signal.alarm(0)
                signal.signal(signal.SIGALRM, old)
        traces.append(tr)
    return traces
