"""C15 - stitching the parts of an over-long line never loses text (DESIGN.md section 4, C15; Appendix A.10).

1. Design: TLC folds Merge (find_best_overlap + the slice arithmetic, repaired: explicit end index) over every list of parts of
   the bounded shape on spec/Stitch.tla and proves LengthOK / StartsOK / EndsOK / RowsOK / RowOfChar / NoOverlapConcat and the action
   property MergeOK (every merge satisfies the statement's StepOK).  Self-test: Legacy=TRUE (txt[:-o // 2], empty for o = 0)
   must violate.
2. Cases: the same part lists (+ seeded windows of one text with and without noise in the overlap) go through the real
   merge_transcriptions_and_logits (every prefix of the list = the state of the loop) with logits whose rows are tagged
   <<part, index>>, and find_best_overlap.
3. Conformance: Stitch_Trace accepts a step iff StepOK holds for the recorded (text so far, part, detected overlap, new text,
   row count) -> rejection = VIOLATION; equality with the modelled slices / overlap detection is tracked as drift only.
"""
import itertools
import random

from .. import st_common as S

LEVEL = "model_checking"
INVS = ["LengthOK", "StartsOK", "EndsOK", "RowsOK", "RowOfChar", "NoOverlapConcat"]
PROPS = ["MergeOK"]
DRIFT = 1000


def constants(b, legacy=False):
    return {"Alphabet": set(range(1, b["alphabet"] + 1)), "MaxLen": b["maxlen"], "MaxParts": b["parts"],
            "Extras": set(b["extras"]), "Legacy": legacy}


def bounds(ctx):
    q = [{"name": "2 parts len<=3", "alphabet": 2, "maxlen": 3, "parts": 2, "extras": [0, 2], "frac": 1.0},
         {"name": "3 parts len<=2", "alphabet": 2, "maxlen": 2, "parts": 3, "extras": [0, 1], "frac": 1.0}]
    if ctx.tier == "quick":
        return q
    return q + [{"name": "2 parts len<=4", "alphabet": 2, "maxlen": 4, "parts": 2, "extras": [0, 3], "frac": 1.0},
                {"name": "3 parts len<=3", "alphabet": 2, "maxlen": 3, "parts": 3, "extras": [0], "frac": 1.0},
                {"name": "2 parts len<=3 abc", "alphabet": 3, "maxlen": 3, "parts": 2, "extras": [0, 1], "frac": 1.0},
                {"name": "4 parts len<=2", "alphabet": 2, "maxlen": 2, "parts": 4, "extras": [0], "frac": 1.0}]


def part_lists(b):
    strs = S.strings(b["alphabet"], b["maxlen"])
    for n in range(1, b["parts"] + 1):
        for combo in itertools.product(strs, repeat=n):
            for ex in itertools.product(b["extras"], repeat=n):
                yield {"parts": [list(p) for p in combo], "extra": list(ex)}


def window_cases(ctx, n):
    """true overlapping windows of one text; with probability 1/2 one character inside an overlap is misrecognised"""
    out = []
    for _ in range(n):
        alpha = ctx.rng.choice([2, 3, 4])
        ln = ctx.rng.randint(5, 9)
        text = [ctx.rng.randint(1, alpha) for _ in range(ln)]
        w = ctx.rng.randint(3, 5)
        ov = ctx.rng.randint(1, w - 1)
        parts, start = [], 0
        while True:
            parts.append(text[start:start + w])
            if start + w >= ln:
                break
            start += w - ov
        if ctx.rng.random() < 0.5 and len(parts) > 1:
            p = ctx.rng.randrange(1, len(parts))
            if parts[p]:
                j = ctx.rng.randrange(0, min(ov, len(parts[p])))
                parts[p] = list(parts[p])
                parts[p][j] = 1 + (parts[p][j] % alpha)
        if ctx.rng.random() < 0.2:
            parts.insert(ctx.rng.randrange(0, len(parts) + 1), [])       # an empty part anywhere
        out.append({"parts": parts, "extra": [ctx.rng.choice([0, 1, 3]) for _ in parts]})
    return out


def disjoint_cases(ctx):
    """long neighbouring parts over disjoint alphabets (nothing to stitch): lengths around the values where n * (1.0 / n) is not
    exactly 1.0 in floating point (49, 98, 103, 107, 161 ...), plus ordinary lengths"""
    rng = random.Random(ctx.seed * 7919 + 15)
    out = []
    for la, lb in [(49, 49), (50, 49), (98, 60), (103, 103), (30, 107), (12, 20)] + ([(161, 161), (196, 110)] if ctx.tier == "thorough" else []):
        a = [rng.choice([1, 2]) for _ in range(la)]
        b = [rng.choice([3, 4]) for _ in range(lb)]
        out.append({"parts": [a, b], "extra": [0, 1]})
        out.append({"parts": [b, a, [5] * 7], "extra": [1, 0, 0]})
    return out


def engine_cases(ctx, n):
    """batches of 1-3 lines of 3-26 character cells (0 = blank cell: no character is recognised there)"""
    out = []
    for _ in range(n):
        lines = []
        for _ in range(ctx.rng.randint(1, 3)):
            ln = ctx.rng.choice([3, 8, 9, 12, 14, 15, 20, 21, 26])
            alpha = ctx.rng.choice([2, 4])
            blank = ctx.rng.choice([0.0, 0.0, 0.3, 0.6])
            cells = [0 if ctx.rng.random() < blank else ctx.rng.randint(1, alpha) for _ in range(ln)]
            if ctx.rng.random() < 0.3 and ln > 12:
                a = ctx.rng.randint(4, ln - 8)
                cells[a:a + 8] = [0] * 8                      # a blank stretch longer than a window overlap
            lines.append(cells)
        out.append({"lines": lines, "workdir": ctx.workdir})
    return out


def signature(tr, prog):
    if prog >= len(tr["steps"]):
        return "final-result"
    st = tr["steps"][prog]
    if st["outcome"] != "ok":
        return "merge:%s" % st["outcome"]
    if prog == 0:
        return "single-part"
    return "merge:overlap-0" if st["o"] == 0 else "merge:overlap>0"


def describe(tr, prog):
    if prog >= len(tr["steps"]):
        return "parts %s merge to %r but the caller got %r with %d logits rows (%s)" % (
            [S.text_of(p) for p in tr["parts"]], S.text_of(tr["steps"][-1]["text"]), S.text_of([c for c in tr["final"]["text"] if c != 99]),
            len(tr["final"]["rows"]), tr["final"]["outcome"])
    st = tr["steps"][prog]
    prev = tr["steps"][prog - 1]["text"] if prog else []
    return ("parts %s: merging part %d %r into %r with detected overlap %d gave %r with %d logits rows (%s): length / kept prefix / "
            "kept suffix / row count / plain concatenation for overlap 0 violated" % (
                [S.text_of(p) for p in tr["parts"]], prog + 1, S.text_of(tr["parts"][prog]), S.text_of(prev), st["o"],
                S.text_of([c for c in st["text"] if c != 99]), len(st["rows"]), st["outcome"]))


def judge(ctx, cases, traces, consts, label):
    acc, rej = ctx.validate("Stitch_Trace", traces, constants=consts, label="Stitch_Trace " + label,
                            shards=max(1, min(4, len(traces) // 2500)))
    drift = [i for i, p in rej if p == DRIFT]
    ctx.traces_validated += len(drift)
    for i, tr in enumerate(traces):
        nt = len(tr["parts"]) >= 2 and any(s["o"] > 0 for s in tr["steps"])
        ctx.count(1, repr((tr["parts"], tr["extra"])) if nt else None)
    for i in drift:
        ctx.model_drift("merged text / rows / detected overlap differ from the modelled slices (statement holds)", 1, cases[i])
    viol = [(i, p, signature(traces[i], p)) for i, p in rej if p != DRIFT]
    seen, first, rest = set(), [], []
    for v in viol:
        (first if v[2] not in seen else rest).append(v)
        seen.add(v[2])
    for i, p, sig in first + rest:
        ctx.violation({"case": cases[i], "constants": {k: (sorted(v) if isinstance(v, set) else v) for k, v in consts.items()},
                       "progress": p, "trace": traces[i]}, sig, describe(traces[i], p))
        ctx.notes.setdefault("rejections_by_signature", {}).setdefault(sig, 0)
        ctx.notes["rejections_by_signature"][sig] += 1
    bad = {i for i, _ in rej}
    return [tr for i, tr in enumerate(traces) if i not in bad]


def run(ctx):
    ctx.rule = ("every list of 1..n parts over {a,b[,c]} up to the length bound (incl. empty parts, unrelated strings, exact and noisy "
                "overlaps) x surplus logit rows, plus seeded windows of one text; merged on every prefix by the real "
                "merge_transcriptions_and_logits with tagged logits; non-trivial = some detected overlap > 0")
    ctx.exhaustive = True
    ctx.assume("logits have at least as many rows as characters (surplus 0-3 rows)",
               "reading (DESIGN.md Appendix D): cut of the merged text <= ceil(o/2); 'ends with the last part' in full only when the overlap "
               "is exact, otherwise from floor(o/2) on; the statement is applied to every merge of (text so far, next part)",
               "'detected overlap' = what find_best_overlap returns on (text so far, next part)")
    selftest = False
    for b in bounds(ctx):
        ctx.tlc("Stitch", constants=constants(b), invariants=INVS, properties=PROPS, workers=4, timeout=3000, label="Stitch " + b["name"])
        cases = list(part_lists(b))
        traces = S.run_cases(cases)
        good = judge(ctx, cases, traces, constants(b), b["name"])
        pick = [t for t in good if len(t["parts"]) >= 2 and t["steps"][-1]["o"] > 0 and len(t["steps"][-1]["text"]) >= 2]
        if pick:
            ctx.sample({"config": b["name"], "trace": pick[len(pick) // 2]}, limit=3)
        if pick and not selftest:
            def corrupt(tr):
                tr["steps"][-1]["text"] = tr["steps"][-1]["text"][:-1]       # the last merged character is lost
                return tr
            ctx.selftest_corrupt("Stitch_Trace", pick[len(pick) // 2], corrupt, constants=constants(b))
            selftest = True
    ctx.tlc("Stitch", constants=constants({"alphabet": 2, "maxlen": 2, "parts": 2, "extras": [0]}, legacy=True), invariants=[],
            properties=PROPS, workers=2, expect_violation="MergeOK", label="Stitch Legacy=TRUE (self-test)")
    dj = disjoint_cases(ctx)
    judge(ctx, dj, S.run_cases(dj), {"Alphabet": {1, 2, 3, 4, 5}, "MaxLen": 9, "MaxParts": 9, "Extras": {0, 1}, "Legacy": False},
          "long parts over disjoint alphabets")
    wins = window_cases(ctx, 400 if ctx.tier == "quick" else 4000)
    traces = S.run_cases(wins)
    good = judge(ctx, wins, traces, {"Alphabet": {1, 2, 3, 4}, "MaxLen": 9, "MaxParts": 9, "Extras": {0, 1, 3}, "Legacy": False},
                 "windows of one text")
    if good:
        ctx.sample({"config": "windows", "trace": good[len(good) // 2]}, limit=5)
    ctx.notes["windows_sampled"] = len(wins)
    # the same through BaseEngineLineOCR.process_lines (model_type="transformer") with a stub run_ocr
    ecases = engine_cases(ctx, 60 if ctx.tier == "quick" else 400)
    etraces, eorigin = [], []
    for c in ecases:
        for tr in S.run_engine_case(c):
            etraces.append(tr)
            eorigin.append({"engine": True, "lines": c["lines"], "line": tr["engine"]["line"]})
    good = judge(ctx, eorigin, etraces, {"Alphabet": {1, 2, 3, 4}, "MaxLen": 9, "MaxParts": 9, "Extras": {0, 1, 2}, "Legacy": False},
                 "process_lines with a stub engine")
    multi = [t for t in good if len(t["parts"]) >= 3]
    if multi:
        ctx.sample({"config": "process_lines", "trace": multi[len(multi) // 2]}, limit=6)
    ctx.notes["engine_lines"] = len(etraces)
    ctx.notes["explanation"] = ("TLC exhaustive on Stitch per bounds (invariants %s, action property MergeOK) + Legacy self-test; every part list "
                                "merged by pero_ocr.ocr_engine.line_ocr_engine.merge_transcriptions_and_logits on each prefix, validated by "
                                "Stitch_Trace (StepOK = verdict, modelled slices = drift); seeded windows beyond the TLC bounds are "
                                "conformance-only" % INVS)


def replay(ctx, case):
    consts = dict(case["constants"])
    for k in ("Alphabet", "Extras"):
        consts[k] = set(consts[k])
    c = case["case"]
    if c.get("engine"):
        trs = [t for t in S.run_engine_case({"lines": c["lines"], "workdir": ctx.workdir}) if t["engine"]["line"] == c["line"]]
        judge(ctx, [c] * len(trs), trs, consts, "replay")
    else:
        judge(ctx, [c], [S.run_case(c)], consts, "replay")
