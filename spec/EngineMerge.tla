---------------------------- MODULE EngineMerge ----------------------------
(* Merging the outputs of several OCR engines (user_scripts/merge_ocr_results.py: merge_layouts), property C19.

   Implementation-shaped: one Scan action per iteration of the inner loop `for line in lines` (one engine's result for
   the current line compared with the running threshold, strict `>`, three fields + the confidence copied into the line
   object of the FIRST layout), NextLine per iteration of the outer zip loop, Remerge = calling merge_layouts a second time
   on the same list (the first layout now holds the merged result) for the idempotence clause.

   Confidences are abstracted to an ordered scale (only comparisons matter):
        0 = the engine has no confidence for the line (empty / absent transcription; -10 in the code)
        2 = mean character confidence exactly 0.0        (the initial threshold of the code)
        4, 6, ... = positive mean confidences in increasing order (equal numbers = exactly equal floats)
   Odd numbers are free for the seeded defect "initial threshold -1" (a threshold between 0 and 2).
   The three copied fields are provenance tags: the number of the engine whose ORIGINAL transcription / logits /
   character table the merged line holds.  len is the transcription length (only used by the seeded defect that
   compares sums instead of means).

   Chain = TRUE models INCREMENTAL merging with one long-lived result layout (a pipeline that receives the engine outputs one
   after another): call p merges the tuple <<result so far, engine p + 1>> into the line objects of the first layout, which
   at that moment hold what the earlier calls left there.  Every such call is a merge of a 2-tuple of layouts inside the scope
   of C19, so after call p every line must hold the first arg-max of engines 1..p+1 (ChainCorrect), and after the last call
   exactly what one call on the whole tuple gives (ChainEqualsOneShot).  The seeded defect Mut = "stale_conf" scores the line
   object of slot 1 with the confidence of what it held ORIGINALLY (a per-object memo that survives the replacement of the
   line's transcription / logits / character table): invisible to Remerge (the true winner is still in the list and wins
   again), visible in a chain.                                                                                  *)
EXTENDS Naturals, Sequences, FiniteSets, TLC
CONSTANTS NEngines, NLines,
          Confs,      \* subset of {0, 2, 4, 6, ...}
          Lens,       \* transcription lengths (use {1} unless Mut = "sums")
          Mut,        \* "none" | "ge" | "no_chars" | "init_minus1" | "sums" | "stale_conf"
          Chain       \* FALSE: one call on the tuple of all engines, then the same call again; TRUE: incremental merging (NEngines >= 2)

Engines == 1..NEngines
Lines == 1..NLines
Untouched == 1                       \* recorded confidence of a line nothing was copied into
Thr0 == IF Mut = "init_minus1" THEN 1 ELSE 2
\* the tuple of layouts handed to call number p (slot 1 = the long-lived first layout) and the number of calls
Slots(p) == IF Chain THEN <<1, p + 1>> ELSE [i \in 1..NEngines |-> i]
NCalls == IF Chain THEN NEngines - 1 ELSE 2

VARIABLES conf, len,                 \* inputs: conf[e][k], len[e][k]
          pass, l, e, best,          \* loop counters, running threshold
          text, logits, chars, rec,  \* per line: provenance of the three fields of the merged line, recorded confidence
          snap                       \* the merged result after the first pass (for the idempotence clause)
vars == <<conf, len, pass, l, e, best, text, logits, chars, rec, snap>>

Fresh == [text |-> [k \in Lines |-> 1], logits |-> [k \in Lines |-> 1], chars |-> [k \in Lines |-> 1],
          rec |-> [k \in Lines |-> Untouched]]

Init == /\ conf \in [Engines -> [Lines -> Confs]]
        /\ len \in [Engines -> [Lines -> Lens]]
        /\ pass = 1 /\ l = 1 /\ e = 0 /\ best = Thr0
        /\ text = Fresh.text /\ logits = Fresh.logits /\ chars = Fresh.chars /\ rec = Fresh.rec
        /\ snap = Fresh

\* what layout s of the list holds for line k: from the second call on layout 1 holds the merged line of the calls before
SlotText(s, k) == IF pass >= 2 /\ s = 1 THEN snap.text[k] ELSE s
SlotLogits(s, k) == IF pass >= 2 /\ s = 1 THEN snap.logits[k] ELSE s
SlotChars(s, k) == IF pass >= 2 /\ s = 1 THEN snap.chars[k] ELSE s
\* get_confidences is computed from the slot's transcription and logits (consistent triples: the engine of the text)
SlotConf(s, k) == IF Mut = "stale_conf" /\ s = 1 THEN conf[1][k] ELSE conf[SlotText(s, k)][k]
SlotLen(s, k) == len[SlotText(s, k)][k]
Score(s, k) == IF Mut = "sums" /\ SlotConf(s, k) >= 2 THEN (SlotConf(s, k) - 2) * SlotLen(s, k) + 2 ELSE SlotConf(s, k)

Scan == /\ l <= NLines /\ e < Len(Slots(pass))
        /\ e' = e + 1
        /\ LET s == Slots(pass)[e + 1]
               sc == Score(s, l)
               wins == IF Mut = "ge" THEN sc >= best ELSE sc > best
           IN  IF wins
               THEN /\ best' = sc
                    /\ text' = [text EXCEPT ![l] = SlotText(s, l)]
                    /\ logits' = [logits EXCEPT ![l] = SlotLogits(s, l)]
                    /\ chars' = IF Mut = "no_chars" THEN chars ELSE [chars EXCEPT ![l] = SlotChars(s, l)]
                    /\ rec' = [rec EXCEPT ![l] = SlotConf(s, l)]
               ELSE UNCHANGED <<best, text, logits, chars, rec>>
        /\ UNCHANGED <<conf, len, pass, l, snap>>

NextLine == /\ l <= NLines /\ e = Len(Slots(pass))
            /\ l' = l + 1 /\ e' = 0 /\ best' = Thr0
            /\ UNCHANGED <<conf, len, pass, text, logits, chars, rec, snap>>

Remerge == /\ pass < NCalls /\ l = NLines + 1
           /\ snap' = [text |-> text, logits |-> logits, chars |-> chars, rec |-> rec]
           /\ pass' = pass + 1 /\ l' = 1 /\ e' = 0 /\ best' = Thr0
           /\ UNCHANGED <<conf, len, text, logits, chars, rec>>

Next == Scan \/ NextLine \/ Remerge
Spec == Init /\ [][Next]_vars

\* ======================================== properties (C19) =========================================
MaxConf(k) == CHOOSE m \in {conf[i][k] : i \in Engines} : \A i \in Engines : conf[i][k] <= m
FirstArgMax(k) == CHOOSE i \in Engines : conf[i][k] = MaxConf(k) /\ \A j \in 1..(i-1) : conf[j][k] < MaxConf(k)

\* The statement, with the reading decision of DESIGN.md Appendix D for a maximum that is not positive, for ONE call on a tuple of
\* layouts whose confidences for the line are cf[1..n] (what the layouts hold when the call is made):
\* tx, lg, ch = slots whose field before the call equals the merged line's field; r = recorded confidence (Untouched if unchanged)
MaxOf(cf) == CHOOSE m \in {cf[i] : i \in DOMAIN cf} : \A i \in DOMAIN cf : cf[i] <= m
FirstArgMaxOf(cf) == CHOOSE i \in DOMAIN cf : cf[i] = MaxOf(cf) /\ \A j \in 1..(i-1) : cf[j] < MaxOf(cf)
AcceptsOn(cf, tx, lg, ch, r) ==
    IF MaxOf(cf) > 2
    THEN LET w == FirstArgMaxOf(cf) IN w \in tx /\ w \in lg /\ w \in ch /\ r = MaxOf(cf)
    ELSE \/ 1 \in tx /\ 1 \in lg /\ 1 \in ch /\ r = Untouched                         \* nothing copied
         \/ MaxOf(cf) = 2 /\ LET w == FirstArgMaxOf(cf) IN                             \* or the first arg-max (confidence 0) copied
                                 w \in tx /\ w \in lg /\ w \in ch /\ r \in {2, Untouched}
\* ... for the call on the tuple of all engines
Accepts(k, tx, lg, ch, r) == AcceptsOn([i \in Engines |-> conf[i][k]], tx, lg, ch, r)

\* the algorithm as it is: when no engine is positive nothing at all is copied
Strict(k) == IF MaxConf(k) > 2
             THEN LET w == FirstArgMax(k) IN text[k] = w /\ logits[k] = w /\ chars[k] = w /\ rec[k] = MaxConf(k)
             ELSE text[k] = 1 /\ logits[k] = 1 /\ chars[k] = 1 /\ rec[k] = Untouched

Finished(k) == k < l \/ pass = 2
Correct == \A k \in Lines : (pass = 1 /\ k < l) => Strict(k)
CorrectPermissive == \A k \in Lines : (pass = 1 /\ k < l) => Accepts(k, {text[k]}, {logits[k]}, {chars[k]}, rec[k])
\* the three fields of a merged line always come from one engine
SameEngine == \A k \in Lines : text[k] = logits[k] /\ logits[k] = chars[k]
\* merging the merged result again changes nothing
Idempotent == (pass = 2) => \A k \in Lines : k < l =>
                 /\ text[k] = snap.text[k] /\ logits[k] = snap.logits[k] /\ chars[k] = snap.chars[k]
                 /\ (rec[k] = snap.rec[k] \/ (snap.rec[k] = Untouched /\ rec[k] = Untouched))

\* ---------------------------------------- incremental merging (Chain = TRUE) ----------------------------------------
MaxUpTo(k, n) == CHOOSE m \in {conf[i][k] : i \in 1..n} : \A i \in 1..n : conf[i][k] <= m
FirstArgMaxUpTo(k, n) == CHOOSE i \in 1..n : conf[i][k] = MaxUpTo(k, n) /\ \A j \in 1..(i-1) : conf[j][k] < MaxUpTo(k, n)
StrictUpTo(k, n) == IF MaxUpTo(k, n) > 2
                    THEN LET w == FirstArgMaxUpTo(k, n) IN text[k] = w /\ logits[k] = w /\ chars[k] = w /\ rec[k] = MaxUpTo(k, n)
                    ELSE text[k] = 1 /\ logits[k] = 1 /\ chars[k] = 1 /\ rec[k] = Untouched
\* during call p (= pass) the lines already processed hold the first arg-max of engines 1..p+1, the others (from the second call on)
\* that of engines 1..p
ChainCorrect == Chain => \A k \in Lines : (k < l => StrictUpTo(k, pass + 1)) /\ ((k > l /\ pass >= 2) => StrictUpTo(k, pass))
\* ... and every call is, on its own 2-tuple, a merge the statement accepts
ChainStepAccepted == Chain => \A k \in Lines : k < l =>
                        AcceptsOn(<<conf[snap.text[k]][k], conf[pass + 1][k]>>,
                                  {s \in 1..2 : <<snap.text[k], pass + 1>>[s] = text[k]}, {s \in 1..2 : <<snap.logits[k], pass + 1>>[s] = logits[k]},
                                  {s \in 1..2 : <<snap.chars[k], pass + 1>>[s] = chars[k]},
                                  rec[k])
\* after the last call: what one call on the whole tuple gives
ChainEqualsOneShot == (Chain /\ pass = NCalls /\ l = NLines + 1) => \A k \in Lines : Strict(k)
=============================================================================
