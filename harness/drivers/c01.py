"""C01 - PAGE XML export/import preserves the page layout (DESIGN.md section 4 C01, Appendix A.14, Appendix D).

1. TLC model-checks spec/PageXml.tla over every bounded abstract page and every behaviour
   Build; Export v; Load how; Export v'; Load how'; Export v'   (v, v' in both PAGE versions, how in {into, ctor}):
   invariants InvWritten / InvRoundTrip / InvHeld / InvFixpoint.  Legacy=TRUE (sort keyed by region object) must violate
   InvWritten (self-test).
2. The same pages (one JSON file feeds TLC's Init and the Python driver) are built as real PageLayout objects and the
   behaviours are replayed through to_pagexml_string / to_pagexml / from_pagexml_string / from_pagexml / PageLayout(file=).
   After each call the live object and the written document are projected to integers/tokens.
3. TLC validates every recorded execution against PageXml_Trace: first the detailed level (behaviour of PageXml); an
   execution rejected there is judged at the property level (clauses of the statement only): rejected -> VIOLATION,
   accepted -> MODEL-DRIFT.
4. History and scale (judged by the same operators of PageXml, see PageXml_Trace):
   * space "scale": sampled pages beyond the small bounds (coordinates beyond 2^15 / 2^16 / 2^24 / 2^27, sizes, indices and
     heights beyond 2^16 / 2^24, 300 lines, 1100-point outlines, 70 000-character texts): the far-away pages are
     model-checked like the others, all of them are executed and validated like the others; a page of 260 regions is
     executed and judged at the property level only (the design's recursive sort cannot order that many inside TLC);
   * "fine" executions: coordinates finer than the model's quarter grid and than float32 (q/4 +- 2^-30); page0 of the record
     is the oracle page computed with exact rationals by pagexml_common.oracle_page; property level only;
   * histories (kind "hist", pagexml_common.run_hist): Export; Load; Export; the caller edits the loaded page IN PLACE;
     Export; Load; [a load that fails half way]; Load of the FIRST document again; Export - all in one long-lived process
     together with the other executions of the same worker; clauses 10-15 of HClause; property level only.
"""
import json
import os
import random

from .. import pagexml_common as P
from ..core import pmap

LEVEL = "model_checking"

CLAUSES = {1: ("raised", "the real code raised / the behaviour did not complete"),
           2: ("written-order", "1st export: regions not written in reading order (unlisted last, otherwise stable)"),
           3: ("round-trip", "load(export(p)) differs from p beyond the documented rounding"),
           4: ("held-order", "PageLayout(file=...) does not hold the regions in reading order"),
           5: ("written-order", "2nd export: regions not written in reading order"),
           6: ("round-trip", "2nd load(export(p)) differs from p beyond the documented rounding"),
           7: ("held-order", "2nd PageLayout(file=...) does not hold the regions in reading order"),
           8: ("written-order", "3rd export: regions not written in reading order"),
           9: ("fixpoint", "re-export of the re-loaded document differs from the document (timestamps aside)"),
           10: ("written-order", "history: export of a loaded page edited in place: regions not written in reading order"),
           11: ("round-trip", "history: a loaded page edited in place, saved and loaded back differs from the edited page beyond the "
                              "documented rounding"),
           12: ("held-order", "history: PageLayout(file=...) of the edited page's document does not hold the regions in reading order"),
           13: ("round-trip", "history: the first document loaded AGAIN (after the page loaded from it before was edited in place / "
                              "after a failing load) differs from the page it was written from"),
           14: ("held-order", "history: PageLayout(file=...) of the first document loaded again does not hold the regions in reading order"),
           15: ("written-order", "history: export of the page loaded again: regions not written in reading order")}

TRACE_CONSTS = {"Pages": set(), "Vers": {1, 2}, "Hows": {"into", "ctor"}, "GuessVals": set(), "OffTenths": set(),
                "Legacy": False}

QUICK_ATTR_BEH = [(1, 1, "string", "file"), (2, 2, "file", "ctor"), (1, 2, "ctor", "string"), (2, 1, "string", "ctor")]
QUICK_STRUCT_BEH = [(1, 1, "string", "ctor"), (1, 2, "ctor", "string"), (2, 1, "file", "file"), (2, 2, "ctor", "ctor"),
                    (1, 1, "ctor", "file", "rev"), (2, 2, "ctor", "string", "rot"), (1, 2, "ctor", "ctor", "rev"),
                    (2, 1, "ctor", "ctor", "rot")]
STRUCT_VIAS = [("string", "ctor"), ("ctor", "string"), ("file", "file"), ("ctor", "ctor")]
ALL_VIAS = [(a, b) for a in ("string", "file", "ctor") for b in ("string", "file", "ctor")]


def spaces(ctx):
    """name -> (pages, behaviours (v1, v2, via1, via2), TLC versions, TLC hows)"""
    if ctx.tier == "quick":
        return {
            "attributes": (P.attribute_pages(ntexts=8, nconfs=5, nheights=4, ncoords=5, region_attrs=True), QUICK_ATTR_BEH),
            "structure": (P.structure_pages(["r1", "r2", "r3"], [0, 7], {"r1": 2, "r3": 1}), QUICK_STRUCT_BEH),
        }
    return {
        "attributes": (P.attribute_pages(ntexts=12, nconfs=7, nheights=5, ncoords=6, region_attrs=True),
                       QUICK_ATTR_BEH + [(1, 1, "ctor", "ctor"), (2, 2, "string", "string")]),
        "structure": (P.structure_pages(["r1", "r2", "r3"], [0, 1, 7], {"r1": 2, "r3": 1}),
                      [(v1, v2, a, b, pm) for (v1, v2), (a, b) in zip([(1, 1), (2, 2), (1, 2), (2, 1)] * 3, ALL_VIAS)
                       for pm in (("id", "rev", "rot") if a == "ctor" else ("id",))]),
    }


def design(ctx, name, pages, legacy=False, expect=None, workers=4):
    pf = os.path.join(ctx.workdir, "pages_%s.json" % name)
    with open(pf, "w") as fh:
        json.dump(pages, fh)
    mc = ("---- MODULE MC_PageXml ----\nEXTENDS PageXml, Json\n"
          "MCPages == LET s == JsonDeserialize(\"%s\") IN {s[i] : i \\in 1..Len(s)}\n"
          "MCGuess == {OffGrid, 100}\n====\n" % pf)
    consts = {"Pages": "<-MCPages", "Vers": {1, 2}, "Hows": {"into", "ctor"}, "GuessVals": "<-MCGuess", "OffTenths": {7},
              "Legacy": legacy}
    return ctx.tlc("MC_PageXml", constants=consts,
                   invariants=["InvWritten", "InvRoundTrip", "InvHeld", "InvFixpoint"],
                   files={"MC_PageXml.tla": mc}, workers=workers, timeout=3000, expect_violation=expect,
                   label="PageXml %s%s (%d pages)" % (name, " Legacy" if legacy else "", len(pages)), jvm_mem="8g")


def cases_of(pages, behaviours, tables=None):
    out = []
    for pg in pages:
        for beh in behaviours:
            v1, v2, a, b = beh[:4]
            c = {"page": pg, "v1": v1, "v2": v2, "via1": a, "via2": b, "perm1": beh[4] if len(beh) > 4 else "id"}
            if tables is not None:
                c["tables"] = tables
            out.append(c)
    return out


def execute(ctx, cases):
    P.set_workdir(ctx.workdir)
    return pmap(P.run_any, cases, procs=6)


def _slim(tr):
    out = {k: v for k, v in tr.items() if k in ("kind", "page0", "events", "outcome")}
    out.setdefault("kind", "std")
    return out


def _key(c):
    pg = c["page"]
    nontrivial = bool(pg["regions"]) and (len(pg["regions"]) > 1 or bool(pg["regions"][0]["lines"]))
    if not nontrivial:
        return None
    big = len(json.dumps(pg)) > 20000
    return json.dumps([P.doc_hash(json.dumps(pg, sort_keys=True)) if big else pg, c["v1"], c["v2"], c["via1"], c["via2"],
                       c.get("perm1", "id"), c.get("jitter", 0), c.get("shift", []), bool(c.get("fail")), bool(c.get("hist")),
                       bool(c.get("after"))],
                      sort_keys=True)


def _describe(c):
    if c.get("hist"):
        return "history: loaded page moved in place by %s%s, then the first document loaded again" % (
            c["shift"], " and a failing load" if c.get("fail") else "")
    if c.get("jitter"):
        return "coordinates off the quarter grid by 2^-%d (page0 = exact-rational oracle)" % c["jitter"]
    return "regions-reordered-before-1st-load=%s%s" % (c.get("perm1", "id"), ", executed after a " + _describe(c["after"]) if c.get("after") else "")


def _property_level(ctx, name, cases, traces, slim, rej, shards=None):
    """rej = [(index, detailed progress)]: judged by the clauses of the statement only; rejected -> VIOLATION, accepted -> drift"""
    ridx = [i for i, _ in rej]
    acc2, rej2 = ctx.validate("PageXml_Trace", [slim[i] for i in ridx], constants=TRACE_CONSTS, init="PInit", next_="PNext",
                              constraint="PAccept", label="PageXml_Trace property-level %s" % name, jvm_mem="4g", shards=shards)
    bad = {ridx[j]: clause for j, clause in rej2}
    for i, prog in rej:
        if i in bad:
            sig, what = CLAUSES.get(bad[i], ("clause-%d" % bad[i], "clause %d" % bad[i]))
            tr = traces[i]
            c = cases[i]
            if bad[i] == 1:
                what += " (%s at call %d: %s)" % (tr["outcome"], tr.get("where", 0), tr.get("error", ""))
                sig = "raised:%s" % tr["outcome"].split(":")[-1]
            pg = c["page"]
            big = len(pg["regions"]) > 6
            ctx.violation({"case": c, "trace": slim[i] if len(json.dumps(slim[i])) < 60000 else {"omitted": "large; re-execute the case"},
                           "clause": bad[i], "detailed_progress": prog}, sig,
                          "%s; space %s, behaviour v=%d/%d via=%s/%s %s, page regions=%s reading_order=%s" % (
                              what, name, c["v1"], c["v2"], c["via1"], c["via2"], _describe(c),
                              ("%d regions" % len(pg["regions"])) if big else [r["id"] for r in pg["regions"]],
                              (pg["ro"] if not big else "%d entries" % len(pg["ro"])) if pg["hasRO"] else None))
        elif prog >= 0:
            ctx.model_drift("%s: differs from PageXml at event %d, statement satisfied" % (name, prog + 1), 1,
                            {"case": cases[i], "trace": slim[i]})
    return bad


def judge_property(ctx, name, cases, traces):
    """histories and 'fine' executions: no detailed level (the design has no Edit action / cannot hold the off-grid input);
    every execution is judged by the clauses of the statement"""
    for tr in traces:
        if tr["outcome"].startswith("harness:"):
            raise RuntimeError("harness could not build the abstract page as a real object: %s" % json.dumps(tr)[:2000])
    slim = [_slim(t) for t in traces]
    for c in cases:
        ctx.count(1, _key(c))
    for k in (0, len(cases) - 1):
        ctx.sample({"space": name, "case": {f: cases[k].get(f) for f in ("v1", "v2", "via1", "via2", "hist", "shift", "fail", "jitter")},
                    "trace": slim[k] if len(json.dumps(slim[k])) < 20000 else "large"}, limit=6)
    return _property_level(ctx, name, cases, traces, slim, [(i, -1) for i in range(len(cases))],
                           shards=max(1, min(4, len(cases) // 40)))


def judge(ctx, name, cases, traces, shards=None):
    """detailed level first; the rejected ones at the property level"""
    for c, tr in zip(cases, traces):
        if tr["outcome"].startswith("harness:"):
            raise RuntimeError("harness could not build the abstract page as a real object: %s" % json.dumps(tr)[:2000])
    slim = [_slim(t) for t in traces]
    acc, rej = ctx.validate("PageXml_Trace", slim, constants=TRACE_CONSTS, label="PageXml_Trace detailed %s" % name,
                            jvm_mem="4g", shards=shards)
    for c in cases:
        ctx.count(1, _key(c))
    mid = slim[len(slim) // 2]
    ctx.sample({"space": name, "case": {k: cases[len(cases) // 2][k] for k in ("v1", "v2", "via1", "via2")},
                "trace": mid if len(json.dumps(mid)) < 20000 else "large"}, limit=3)
    if rej:
        _property_level(ctx, name, cases, traces, slim, rej)
    return acc, rej


def _corrupt(tr):
    # the confidence read back by the first load is off by one thousandth
    for ev in tr["events"]:
        if ev["a"] == "Load":
            for r in ev["page"]["regions"]:
                for l in r["lines"]:
                    if l["conf"]:
                        l["conf"][0] += 128
                        return tr
            ev["page"]["size"][0] += 1
            return tr
    return tr


def random_tables(rng):
    """token -> seeded random XML-legal Unicode string of the token's class (thorough tier)"""
    def chars(n, pools):
        return "".join(chr(rng.choice(rng.choice(pools))) for _ in range(n))
    latin = range(0x20, 0x7F)
    markup = [ord(c) for c in "<>&\"'"]
    comb = range(0x300, 0x370)
    rtl = list(range(0x5D0, 0x5EB)) + list(range(0x627, 0x64B))
    astral = list(range(0x1F600, 0x1F650)) + list(range(0x20000, 0x20100)) + [0x10FFFD, 0x10000]
    ws = [0x20, 0x9, 0xA, 0xD, 0xA0, 0x2003, 0x85, 0x2028]
    bmp = list(range(0xA0, 0xD7FF, 37)) + list(range(0xE000, 0xFFFD, 53)) + [0xFFFD, 0xD7FF, 0xE000, 0x7F, 0x9F]
    texts = [""]
    plan = [[latin], [latin, markup], [latin, [0x20]], [latin, comb], [rtl, latin, [0x20]], [astral, latin], [ws, latin], [ws],
            [bmp], [markup], [latin, markup, comb, rtl, astral, ws, bmp]]
    for pools in plan:
        s = chars(rng.randint(1, 12), pools)
        while s in texts:
            s = chars(rng.randint(1, 12), pools)
        texts.append(s)
    texts[3] = " " + texts[3] + "  "              # leading / trailing blanks
    while len(set(texts)) != len(texts):
        texts[3] += "x"
    pids = [chars(rng.randint(1, 10), [latin, markup, bmp]), chars(rng.randint(1, 10), [latin, astral])]
    if pids[0] == pids[1]:
        pids[1] += "2"
    types = ["paragraph", chars(rng.randint(1, 8), [latin, markup])]
    if types[1] == types[0]:
        types[1] += "2"
    return {"texts": texts, "pids": pids, "types": types}


def run(ctx):
    ctx.rule = ("every abstract page of two bounded spaces (attributes: 1 region x 1 line, all combinations of text class x "
                "confidence x heights x index x coordinate set, region text/type/page id; structure: every sequence of <= 3 "
                "regions x every partial reading order in two dictionary orders, 0-2 lines per region) x behaviours Build; "
                "Export v; Load; Export v'; Load; Export v' over both PAGE versions and the string / file / "
                "PageLayout(file=) API variants; non-trivial = page with a line or several regions")
    ctx.exhaustive = True
    ctx.assume("coordinates are multiples of 1/4 px, heights of 1/16, confidences of 1/1024 (exactly representable, so that "
               "np.round / ':.1f' / ':.3f' are the exact half-even rounding of the model)",
               "a confidence is only attached to a line that has a transcription",
               "heights absent from a document are guessed on import: only 'present and stable' is asserted (np.random seeded)",
               "region and line ids are unique; every line has a baseline and a polygon with at least two points")
    sp = spaces(ctx)
    for name, (pages, behaviours) in sp.items():
        design(ctx, name, pages)
        cases = cases_of(pages, behaviours)
        traces = execute(ctx, cases)
        judge(ctx, name, cases, traces)
    history_and_scale(ctx, sp)
    # self-test 1: the sort keyed by the region object (the tree as found) must be visible to TLC
    legacy_pages = [p for p in sp["structure"][0] if len(p["regions"]) >= 2 and p["hasRO"]][:300]
    design(ctx, "structure-legacy", legacy_pages, legacy=True, expect="InvWritten", workers=2)
    # self-test 2: binding - one corrupted field of an accepted execution must be rejected
    pg = P.attribute_pages(2, 2, 2, 1, False)[-1]
    P.set_workdir(ctx.workdir)
    good = _slim(P.run_case({"page": pg, "v1": 1, "v2": 2, "via1": "string", "via2": "ctor", "perm1": "id"}))
    before = ctx.traces_validated
    acc, _ = ctx.validate("PageXml_Trace", [good], constants=TRACE_CONSTS, shards=1, label="PageXml_Trace selftest pristine")
    ctx.traces_validated = before
    if acc == 1:
        ctx.selftest_corrupt("PageXml_Trace", good, _corrupt, constants=TRACE_CONSTS)
    elif ctx.violations:
        # the tree under test breaks even the single-line page used for the demonstration: nothing to corrupt
        ctx.notes["selftest_corrupted_trace_rejected"] = "skipped: the pristine execution is itself rejected (see violations)"
    else:
        raise RuntimeError("self-test: pristine single-line execution rejected although no violation was reported")
    if ctx.tier == "thorough":
        # seeded concrete strings: every token class instantiated with fresh random XML-legal Unicode
        rng = random.Random(ctx.seed * 7919 + 17)
        pages = P.attribute_pages(ntexts=12, nconfs=3, nheights=3, ncoords=4, region_attrs=True)
        two = two_by_two_pages()
        cases = []
        for rep in range(6):
            tb = random_tables(rng)
            sub = rng.sample(pages, 300) + rng.sample(two, min(len(two), 150))
            for pg in sub:
                v1, v2 = rng.choice([(1, 1), (1, 2), (2, 1), (2, 2)])
                a, b = rng.choice(ALL_VIAS)
                cases.append({"page": pg, "v1": v1, "v2": v2, "via1": a, "via2": b, "perm1": rng.choice(["id", "id", "rev", "rot"]),
                              "tables": tb})
        traces = execute(ctx, cases)
        judge(ctx, "seeded-strings", cases, traces)
    ctx.notes["explanation"] = ("TLC exhaustive on PageXml per page space (InvWritten, InvRoundTrip, InvHeld, InvFixpoint; "
                                "Legacy=TRUE violates InvWritten); every page x behaviour executed on real PageLayout objects "
                                "and validated by PageXml_Trace (detailed level, then property level for the rejected ones)")


def two_by_two_pages():
    """2 regions x 2 lines with mixed optional elements, every reading order over them (thorough tier)"""
    import itertools
    pages = []
    for ro in [None, [], [["a", 1], ["b", 0]], [["b", 0]], [["a", 0], ["b", 0]], [["b", 3], ["a", 7]], [["zz", 0], ["b", 1]]]:
        for t1, t2, h, c in itertools.product([None, 0, 3, 8], [2, 7], P.HEIGHTS[:3], [None, 8000]):
            la = [P.mk_line("a1", idx=None, hts=h, text=t1, conf=(c if t1 is not None else None), **P.COORDS[1]),
                  P.mk_line("a2", idx=0, hts=None, text=t2, conf=c, **P.COORDS[2])]
            lb = [P.mk_line("b1", idx=4, hts=(5, 0), text=t2, conf=None, **P.COORDS[0]),
                  P.mk_line("b2", idx=None, hts=h, text=t1, conf=None, **P.COORDS[3])]
            pages.append(P.mk_page([P.mk_region("a", la, typ=1, text=t2), P.mk_region("b", lb, typ=None, text=t1)], ro=ro, pid=1))
    return pages


SCALE_BEH = [(1, 2, "string", "ctor"), (2, 1, "ctor", "file"), (2, 2, "file", "string")]
HIST_BEH = [(1, 1, "string", "file"), (2, 2, "file", "ctor"), (1, 2, "ctor", "string"), (2, 1, "string", "ctor"), (2, 2, "ctor", "ctor")]
SHIFTS = [[100, 50, 16], [-7, 3, 0], [1, -1, 4], [-3000, 70000, 1]]     # dx, dy pixels; heights + dh/16


def hist_cases(ctx, sp, far):
    """histories over a sample of the exhaustive spaces (every k-th page with a region) and the far-away pages; in one worker
    process a history is followed by other histories, plain and 'fine' executions (long-lived module state is shared)"""
    quick = ctx.tier == "quick"
    attr = [p for p in sp["attributes"][0]]
    struct = [p for p in sp["structure"][0] if p["regions"]]
    pick = attr[::(29 if quick else 7)] + struct[5::(67 if quick else 17)]
    out = []
    for k, pg in enumerate(pick):
        v1, v2, a, b = HIST_BEH[k % len(HIST_BEH)]
        out.append({"hist": True, "page": pg, "v1": v1, "v2": v2, "via1": a, "via2": b, "shift": SHIFTS[k % 3], "fail": k % 3 == 1})
        if k % 4 == 0:          # the same page again, right after that history in the same process, as a plain execution
            out.append({"page": pg, "v1": v2, "v2": v1, "via1": a, "via2": b, "perm1": "id", "after": dict(out[-1])})
    for k, pg in enumerate(far):
        v1, v2, a, b = HIST_BEH[k % len(HIST_BEH)]
        out.append({"hist": True, "page": pg, "v1": v1, "v2": v2, "via1": a, "via2": b, "shift": SHIFTS[(k + 1) % 4], "fail": k % 2 == 0,
                    "tables": "scale"})
    return out


def history_and_scale(ctx, sp):
    # scale: the far-away pages are inside what TLC enumerates (32-bit integers): model-checked; the long ones are executed and
    # validated only (sampled inputs beyond the design's bounded space)
    scale = P.scale_pages()
    far = [p for p in scale if len(json.dumps(p)) < 4000]
    design(ctx, "scale", far, workers=2)
    cases = cases_of(scale, SCALE_BEH if ctx.tier == "quick" else SCALE_BEH + QUICK_ATTR_BEH, tables="scale")
    traces = execute(ctx, cases)
    judge(ctx, "scale", cases, traces, shards=3)
    # histories, 'fine' inputs and plain executions interleaved in the same long-lived worker processes
    cases = hist_cases(ctx, sp, far)
    fine = [{"page": pg, "v1": v1, "v2": v2, "via1": a, "via2": b, "perm1": "id", "jitter": 30}
            for pg in P.fine_pages() for v1, v2, a, b in (QUICK_ATTR_BEH[:2] if ctx.tier == "quick" else QUICK_ATTR_BEH)]
    # more than 255 regions: first, so that it shares its TLC shard with small executions only
    cases.insert(0, {"page": P.many_regions_page(), "v1": 2, "v2": 1, "via1": "ctor", "via2": "string", "perm1": "rev"})
    step = max(1, len(cases) // len(fine))
    for k, c in enumerate(fine):
        cases.insert(min(len(cases), (k + 1) * step + k), c)
    for c in cases:
        c["plevel"] = True          # replay: judge at the property level only
    traces = execute(ctx, cases)
    judge_property(ctx, "history+fine", cases, traces)
    ctx.rule += ("; plus, sampled (not exhaustive): pages of the 'scale' space (coordinates / sizes / indices / heights beyond 2^16 "
                 "and 2^24, hundreds of lines / regions / points, 70 000-character texts), 'fine' inputs (coordinates q/4 +- 2^-30 "
                 "judged against an exact-rational oracle page) and histories over long-lived objects (a loaded page edited in "
                 "place, a failing load, the first document loaded again)")
    ctx.assume("a page object returned by a load belongs to the caller: editing it in place is not allowed to change what a later "
               "load of any document returns")


def replay(ctx, case):
    c = case["case"]
    P.set_workdir(ctx.workdir)
    tr = P.run_any(c)
    if c.get("plevel") or c.get("hist") or c.get("jitter") or c.get("after"):
        judge_property(ctx, "replay", [c], [tr])
    else:
        judge(ctx, "replay", [c], [tr])
