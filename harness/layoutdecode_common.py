"""C18 helper: bounded configuration spaces of spec/LayoutDecode.tla, the stub network that renders the ridges of a
configuration into the maps of the rotated image, and the recorders for the two trace kinds of LayoutDecode_Trace
(pixel round trip through np.rot90 + LayoutEngine.rotate_layout; LayoutEngine.detect on synthetic ridges)."""
import contextlib
import io
import itertools
import warnings

import numpy as np

from pero_ocr.layout_engines.cnn_layout_engine import LayoutEngine

U = 1000


def asc2(row):
    return 4 + 2 * (row % 4)


def desc2(row):
    return 2 + (row % 3)


def short_len(ep):
    return 10 if ep else 6


def make_engine():
    """LayoutEngine without a model: __new__ + the attributes __init__ would set (defaults of the constructor)"""
    eng = LayoutEngine.__new__(LayoutEngine)
    eng.line_end_weight = 1.0
    eng.vertical_line_connection_range = 5
    eng.smooth_line_predictions = True
    eng.line_detection_threshold = 0.2
    eng.adaptive_downsample = True
    eng.paragraph_line_threshold = 0.3
    return eng


# mirror of LayoutDecode!DefaultEngine / OtherEngines (thresholds in 1/1000); the trace carries the record and
# LayoutDecode_Trace!HistBound compares it with the spec's
DEFAULT_ENGINE = {"range": 5, "smooth": True, "lew": 1000, "thr": 200}
OTHER_ENGINES = [{"range": 35, "smooth": False, "lew": 0, "thr": 200},
                 {"range": 5, "smooth": True, "lew": 1000, "thr": 900},
                 {"range": 21, "smooth": True, "lew": 2500, "thr": 100}]


def build_engine(params):
    """LayoutEngine from its REAL constructor with the keyword arguments PageParser's LayoutExtractor passes for one
    LAYOUT_PARSER section; only the network class is replaced (no model file) by the stub"""
    import pero_ocr.layout_engines.cnn_layout_engine as cle
    orig = cle.TorchParseNet
    cle.TorchParseNet = lambda *a, **kw: StubNet(None)
    try:
        with contextlib.redirect_stdout(io.StringIO()):
            return cle.LayoutEngine(model_path=None, device=None, downsample=4, adaptive_downsample=True,
                                    detection_threshold=params["thr"] / 1000.0, max_mp=5.0, line_end_weight=params["lew"] / 1000.0,
                                    vertical_line_connection_range=params["range"], smooth_line_predictions=params["smooth"],
                                    paragraph_line_threshold=0.3)
    finally:
        cle.TorchParseNet = orig


# --------------------------------------------------------------------------------------------- ridges
def ridge_bounds(**kw):
    b = {"MapH": 46, "MapW": 64, "Dss": [1, 2, 4], "Rows": [8, 24, 39], "X0s": [3, 12], "Lens": [0, 30], "Dys": [0], "Hists": [0]}
    b.update(kw)
    return b


def tla_constants(b=None, mode="ridges", variant="ok", max_h=5, max_w=7):
    b = b or ridge_bounds()
    return {"Mode": mode, "Variant": variant, "MaxH": max_h, "MaxW": max_w, "MapH": b["MapH"], "MapW": b["MapW"],
            "Dss": set(b["Dss"]), "Rows": set(b["Rows"]), "X0s": set(b["X0s"]), "Lens": set(b["Lens"]), "Dys": set(b.get("Dys", [0])), "Hists": set(b.get("Hists", [0]))}


def enumerate_ridge_cases(b):
    """mirror of LayoutDecode!RidgeInit"""
    rows = sorted(b["Rows"])
    options = [(0, 0)] + [(x0, ln) for x0 in b["X0s"] for ln in b["Lens"]]
    out = []
    for k, ds, ep, rm, dy, hist in itertools.product(range(4), b["Dss"], (False, True), (False, True), b.get("Dys", [0]),
                                                     b.get("Hists", [0])):
        for ch in itertools.product(options, repeat=len(rows)):
            if all(o == (0, 0) for o in ch):
                continue
            ridges, ok = [], True
            for y, o in zip(rows, ch):
                if o == (0, 0):
                    continue
                ln = short_len(ep) if o[1] == 0 else o[1]
                if o[0] + ln - 1 > b["MapW"] - 1:
                    ok = False
                if dy != 0 and not (y + dy <= b["MapH"] - 4 and ln >= 2 * dy):
                    ok = False
                ridges.append({"y": y, "x0": o[0], "x1": o[0] + ln - 1, "a2": asc2(y), "d2": desc2(y), "dy": dy})
            if ok:
                out.append({"mode": "ridges", "k": k, "ds": ds, "ep": ep, "rm": rm, "hist": hist, "ridges": ridges, "mh": b["MapH"],
                            "mw": b["MapW"]})
    return out


def render(mh, mw, ridges, ep, window=None):
    """maps with channels (ascender, descender, baseline, end points, region separators): Gaussian-profile ridges.
    window = w: only the rows within w of a ridge are written (tall maps with many ridges; exp(-w*w/2) is dropped)"""
    m = np.zeros((mh, mw, 5), np.float32)
    for r in ridges:
        y, x0, x1, dy = r["y"], r["x0"], r["x1"], r.get("dy", 0)
        lo, hi = (0, mh) if window is None else (max(0, min(y, y + dy) - window), min(mh, max(y, y + dy) + window + 1))
        yy = np.arange(lo, hi)[:, None].astype(np.float64)
        xs = np.arange(x0, x1 + 1)
        yc = y + (xs - x0) * (dy / float(max(1, x1 - x0)))           # ridge centre per column (flat ridge: dy = 0)
        prof = np.exp(-0.5 * (yy - yc[None, :]) ** 2.0).astype(np.float32)
        m[lo:hi, x0:x1 + 1, 2] = np.maximum(m[lo:hi, x0:x1 + 1, 2], prof)
        band = np.abs(yy - yc[None, :]) <= 3
        m[lo:hi, x0:x1 + 1, 0] = np.where(band, r["a2"] / 2.0, m[lo:hi, x0:x1 + 1, 0])
        m[lo:hi, x0:x1 + 1, 1] = np.where(band, r["d2"] / 2.0, m[lo:hi, x0:x1 + 1, 1])
        if ep:
            for xe, ye in ((x0, y), (x1, y + dy)):
                m[max(0, ye - 2):ye + 3, max(0, xe - 1):xe + 2, 3] = 1.0
    return m


class StubNet:
    def __init__(self, case):
        self.case = case
        self.seen = [0, 0]

    def get_maps_with_optimal_resolution(self, image):
        c = self.case
        self.seen = [int(image.shape[0]), int(image.shape[1])]
        return render(c["mh"], c["mw"], c["ridges"], c["ep"], c.get("window")), c["ds"]


def _milli(v):
    v = float(v)
    if not np.isfinite(v) or abs(v) > 2e6:
        return -999999
    return int(round(v * U))


def _bbox(arr):
    a = np.asarray(arr, dtype=float).reshape(-1, 2)
    return [_milli(a[:, 0].min()), _milli(a[:, 1].min()), _milli(a[:, 0].max()), _milli(a[:, 1].max())]


def run_ridge_case(case):
    hist = case.get("hist", 0)
    net = StubNet(case)
    k, ds = case["k"], case["ds"]
    # the page need not be a multiple of the down-sampling factor (LayoutDecode!RotH / RotW)
    rot_h = case["mh"] * ds + (ds - 1 if case.get("rm") else 0)
    rot_w = case["mw"] * ds + (ds // 2 if case.get("rm") else 0)
    orig = (rot_w, rot_h) if k in (1, 3) else (rot_h, rot_w)
    img = np.zeros(orig + (3,), np.uint8)
    rec = {"mode": "ridges", "k": k, "ds": ds, "ep": bool(case["ep"]), "rm": bool(case.get("rm", False)), "ridges": case["ridges"], "outcome": "ok",
           "seen": [0, 0], "lines": [], "plines": [], "reg": [], "nreg": 0, "hist": hist}
    try:
        if hist == 0:
            eng = make_engine()
        else:
            # several engines in one process (PageParser: one LayoutEngine per LAYOUT_PARSER section): the default engine and ANOTHER
            # one with other constructor parameters, both from the real constructor, the other one built later; the other engine
            # parses a page first, then the default engine decodes the maps of the configuration
            rec["other"] = dict(OTHER_ENGINES[hist - 1])
            eng = build_engine(DEFAULT_ENGINE)
            other = build_engine(OTHER_ENGINES[hist - 1])
            try:
                with contextlib.redirect_stdout(io.StringIO()), warnings.catch_warnings(), np.errstate(all="ignore"):
                    warnings.simplefilter("ignore")
                    other.parse(render(case["mh"], case["mw"], case["ridges"], case["ep"]), ds)
            except Exception:        # (what the other engine makes of the page is not judged)
                pass
        eng.parsenet = net
        np.random.seed(12345)        # parse() breaks ties of the left-to-right sort with np.random.rand()
        with contextlib.redirect_stdout(io.StringIO()), warnings.catch_warnings(), np.errstate(all="ignore"):
            warnings.simplefilter("ignore")
            p_list, b_list, h_list, t_list = eng.detect(img, rot=k)
        rec["seen"] = net.seen
        # the same maps decoded without any rotation handling: the lines in the frame of the rotated image
        np.random.seed(12345)
        with contextlib.redirect_stdout(io.StringIO()), warnings.catch_warnings(), np.errstate(all="ignore"):
            warnings.simplefilter("ignore")
            # (decoded five times from the SAME array: decoding must not depend on what the array went through in an earlier decode)
            same_maps = render(case["mh"], case["mw"], case["ridges"], case["ep"])
            for _ in range(5 if hist == 0 else 1):        # (an in-place blur of a strong synthetic ridge needs a few passes to move an end point)
                np.random.seed(12345)
                pb, _, _ = eng.parse(same_maps, ds)
        rec["plines"] = [{"pts": [[_milli(x), _milli(y)] for x, y in np.asarray(b, dtype=float)]} for b in pb]
        for b, h, t in zip(b_list, h_list, t_list):
            b = np.asarray(b, dtype=float)
            rec["lines"].append({"pts": [[_milli(x), _milli(y)] for x, y in b], "h": [_milli(h[0]), _milli(h[1])],
                                 "tl": _bbox(t)})
        if not (len(b_list) == len(h_list) == len(t_list)):
            rec["outcome"] = "exception:ListLengths"
        rec["nreg"] = len(p_list)
        if len(p_list):
            rec["reg"] = _bbox(np.concatenate([np.asarray(p, dtype=float).reshape(-1, 2) for p in p_list], axis=0))
    except Exception as ex:          # part of the observation
        rec["outcome"] = "exception:" + type(ex).__name__
    return rec


# --------------------------------------------------------------------------------------------- pixels
class _CaptureNet:
    image = None

    def get_maps_with_optimal_resolution(self, image):
        self.image = np.array(image)
        return np.zeros((12, 12, 5), np.float32), 1          # nothing to detect: detect() returns after parse()


def run_pixel_case(case):
    """every pixel of an H x W page through the real np.rot90 (as detect() applies it) and the real rotate_layout"""
    h, w, k = case["H"], case["W"], case["k"]
    rec = {"mode": "pixels", "H": h, "W": w, "k": k, "outcome": "ok", "shape": [0, 0], "px": []}
    try:
        idx = np.arange(h * w).reshape(h, w, 1)
        eng = make_engine()
        cap = _CaptureNet()
        eng.parsenet = cap                                   # the page as the network sees it inside the real detect()
        with contextlib.redirect_stdout(io.StringIO()), warnings.catch_warnings(), np.errstate(all="ignore"):
            warnings.simplefilter("ignore")
            eng.detect(idx, rot=k)
        rot = cap.image[:, :, 0]
        rec["shape"] = [int(rot.shape[0]), int(rot.shape[1])]
        where = {}
        for ry in range(rot.shape[0]):
            for rx in range(rot.shape[1]):
                where[int(rot[ry, rx])] = (rx, ry)
        pts = np.array([where[y * w + x] for y in range(h) for x in range(w)], dtype=float)
        # one array per list, as detect() passes them (regions, baselines, outlines)
        p_list, b_list, t_list = eng.rotate_layout([pts.copy()], [pts.copy()], [pts.copy()], k, rot.shape + (3,))
        p, b, t = np.asarray(p_list[0]), np.asarray(b_list[0]), np.asarray(t_list[0])
        i = 0
        for y in range(h):
            for x in range(w):
                rx, ry = where[y * w + x]
                rec["px"].append([x, y, rx, ry, _milli(p[i, 0]), _milli(p[i, 1]), _milli(b[i, 0]), _milli(b[i, 1]),
                                  _milli(t[i, 0]), _milli(t[i, 1])])
                i += 1
    except Exception as ex:
        rec["outcome"] = "exception:" + type(ex).__name__
    return rec


def run_case(case):
    return run_pixel_case(case) if case["mode"] == "pixels" else run_ridge_case(case)


def _run_cases(cases):
    return [run_ridge_case(c) for c in cases]


def run_history_cases(cases):
    """the configurations with hist > 0, one forked child process per value of hist: in each child the FIRST parse() of the
    process is the one of the other engine (state that the first user of a class fills for everybody shows there; the parent has
    not executed any pero_ocr code when this is called), and every case is self-contained (both engines are built anew), so
    that a replay of one case in a fresh process re-creates its history"""
    import multiprocessing as mp
    from concurrent.futures import ProcessPoolExecutor
    groups = {}
    for i, c in enumerate(cases):
        groups.setdefault(c["hist"], []).append(i)
    out = [None] * len(cases)
    if not groups:
        return out
    # one pool with a single worker per group = one freshly forked process per value of hist (forked at submit time)
    pools = {h: ProcessPoolExecutor(max_workers=1, mp_context=mp.get_context("fork")) for h in sorted(groups)}
    try:
        futs = {h: pools[h].submit(_run_cases, [cases[i] for i in groups[h]]) for h in sorted(groups)}
        for h, idx in groups.items():
            for i, tr in zip(idx, futs[h].result()):
                out[i] = tr
    finally:
        for pool in pools.values():
            pool.shutdown(wait=True)
    return out


def enumerate_pixel_cases(max_h, max_w):
    return [{"mode": "pixels", "H": h, "W": w, "k": k} for h in range(1, max_h + 1) for w in range(1, max_w + 1) for k in range(4)]


# --------------------------------------------------------------------------------------------- scale + history
# Pages of a SCALE the bounded spaces above cannot reach (hundreds / more than a thousand ridges in one column, ridges and
# coordinates beyond 16-bit ranges, heights beyond 255 map px), decoded one after the other by ONE long-lived engine (the way
# a caller that processes a directory of pages uses it), some of them after a call that fails half-way and the first one once
# more at the end.  TLC cannot enumerate such configurations, but it does not have to: the ridges of the sampled page are
# recorded in the trace (integers) and LayoutDecode_Trace evaluates the SAME per-ridge clause (LineMatches) on them; only the
# search for a bijection is replaced by its equivalent for separated ridges (ScaleOnePerRidge).
def scale_sequence(tier, seed=0):
    """parameter dicts of the pages; everything else (ridges, heights) is derived from them by scale_case()"""
    seq = [
        {"n": 300, "mw": 64, "ds": 2, "k": 1, "ep": False, "rm": True, "via": "detect"},      # > 255 ridges, through detect + un-rotation
        {"n": 523, "mw": 72, "ds": 1, "k": 0, "ep": True, "rm": False, "via": "parse", "fail_before": True},   # > 2 x 256
        {"n": 2, "mw": 40000, "ds": 2, "k": 3, "ep": False, "rm": True, "via": "detect"},     # columns > 32767, coordinates > 65535
        {"n": 1040, "mw": 64, "ds": 3, "k": 0, "ep": False, "rm": False, "via": "parse"},     # > 1024 ridges, rows > 32767 / ds
        {"n": 3, "mw": 1100, "ds": 8, "k": 2, "ep": True, "rm": True, "via": "detect", "hbig": True, "y0": 400, "pitch": 400,
         "fail_before": True},                                                                 # heights > 255 map px
        {"n": 5, "mw": 64, "ds": 1, "k": 1, "ep": False, "rm": False, "via": "detect", "pitch": 16900},   # map rows > 32767 and > 65535
    ]
    if tier == "thorough":
        seq += [{"n": 2200, "mw": 64, "ds": 1, "k": 0, "ep": False, "rm": False, "via": "parse"},   # > 2048 ridges, rows > 32767
                {"n": 700, "mw": 64, "ds": 4, "k": 3, "ep": True, "rm": True, "via": "detect"}]
    for i, p in enumerate(seq):
        p["seed"] = seed * 1009 + i
    seq.append(dict(seq[0], again=True))            # the first page once more, after everything else
    return seq


def scale_case(p):
    rng = np.random.RandomState(p["seed"] % (2 ** 31))
    n, mw = p["n"], p["mw"]
    ridges, y = [], p.get("y0", 8)
    for _ in range(n):
        if mw <= 128:
            x0, x1 = int(rng.randint(3, 20)), int(rng.randint(mw - 30, mw - 3))
        else:                                     # long ridges: the whole width, or a short one far to the right
            x0 = int(rng.randint(3, 20)) if rng.randint(0, 2) == 0 or not ridges else int(rng.randint(mw - 300, mw - 200))
            x1 = int(rng.randint(mw - 30, mw - 3))
        a2, d2 = int(rng.randint(2, 21)), int(rng.randint(1, 11))                 # half map pixels
        if p.get("hbig"):
            a2, d2 = int(rng.randint(520, 700)), int(rng.randint(2, 11))
        ridges.append({"y": y, "x0": x0, "x1": x1, "a2": a2, "d2": d2, "dy": 0})
        y += p.get("pitch", 15) + int(rng.randint(0, 3))
    mh = ridges[-1]["y"] + 7
    return {"mode": "scale", "via": p["via"], "k": p["k"], "ds": p["ds"], "ep": bool(p["ep"]), "rm": bool(p.get("rm", False)),
            "ridges": ridges, "mh": mh, "mw": mw, "window": 10}


def _lines_of(b_list, h_list, t_list):
    out = []
    for b, h, t in zip(b_list, h_list, t_list):
        b = np.asarray(b, dtype=float)
        out.append({"pts": [[_milli(x), _milli(y)] for x, y in b], "h": [_milli(h[0]), _milli(h[1])], "tl": _bbox(t)})
    return out


def run_scale_sequence(seq, upto=None):
    """the pages of `seq` (all, or the first upto + 1) through one engine and one stub network; one trace per page"""
    eng = make_engine()
    net = StubNet(None)
    eng.parsenet = net
    traces = []
    for p in seq[:None if upto is None else upto + 1]:
        case = scale_case(p)
        net.case = case
        k, ds = case["k"], case["ds"]
        rec = dict(case, outcome="ok", seen=[0, 0], lines=[], plines=[], reg=[], nreg=0, n=p["n"], again=bool(p.get("again", False)))
        if p.get("fail_before"):
            # a call on the same long-lived engine that raises half-way (no down-sampling factor: the first decoded line cannot be
            # scaled); whatever it does, it must not leave anything behind for the next page
            try:
                with contextlib.redirect_stdout(io.StringIO()), warnings.catch_warnings(), np.errstate(all="ignore"):
                    warnings.simplefilter("ignore")
                    eng.parse(render(60, 64, [{"y": 8, "x0": 5, "x1": 40, "a2": 6, "d2": 3}, {"y": 30, "x0": 9, "x1": 50, "a2": 8, "d2": 2}],
                                     False), None)
            except Exception:
                pass
        np.random.seed(12345)
        try:
            with contextlib.redirect_stdout(io.StringIO()), warnings.catch_warnings(), np.errstate(all="ignore"):
                warnings.simplefilter("ignore")
                if case["via"] == "parse":
                    b_list, h_list, t_list = eng.parse(render(case["mh"], case["mw"], case["ridges"], case["ep"], 10), ds)
                    p_list = []
                else:
                    rot_h = case["mh"] * ds + (ds - 1 if case["rm"] else 0)
                    rot_w = case["mw"] * ds + (ds // 2 if case["rm"] else 0)
                    orig = (rot_w, rot_h) if k in (1, 3) else (rot_h, rot_w)
                    img = np.broadcast_to(np.uint8(0), orig + (3,))          # a blank page of that size without its memory
                    p_list, b_list, h_list, t_list = eng.detect(img, rot=k)
                    rec["seen"] = net.seen
                    np.random.seed(12345)
                    pb, _, _ = eng.parse(render(case["mh"], case["mw"], case["ridges"], case["ep"], 10), ds)
                    rec["plines"] = [{"pts": [[_milli(x), _milli(y)] for x, y in np.asarray(b, dtype=float)]} for b in pb]
            rec["lines"] = _lines_of(b_list, h_list, t_list)
            if not (len(b_list) == len(h_list) == len(t_list)):
                rec["outcome"] = "exception:ListLengths"
            rec["nreg"] = len(p_list)
            if len(p_list):
                rec["reg"] = _bbox(np.concatenate([np.asarray(q, dtype=float).reshape(-1, 2) for q in p_list], axis=0))
        except Exception as ex:          # part of the observation
            rec["outcome"] = "exception:" + type(ex).__name__
        traces.append(rec)
    return traces
