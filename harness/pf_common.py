"""Shared by the C17 and C08 drivers: run the real user_scripts/parse_folder.py main() on a temporary batch folder in a
forked child with a stub PageParser, optionally killing the process right after its k-th output write, and record what
it did (pages handed to Computator.__call__, file writes in order, exit status, folder listing afterwards).

Nothing of /repo is changed: the child (a fork of the harness process) replaces parse_folder.PageParser by a stub,
parse_folder.Computator by a tracing subclass and wraps the five write functions (PageLayout.to_pagexml / save_logits /
to_altoxml, cv2.imwrite for the rendering and the line crops); the kill is os._exit inside the wrapper, i.e. between two
writes - writes themselves are taken as atomic, the statement of C17 quantifies over points between writes."""
import hashlib
import importlib.util
import json
import os
import re
import shutil
import signal
import sys
import time

import cv2
import numpy as np
import scipy.sparse as sp

from .core import REPO, MachineryFailure

KILL_CODE = 77
EXC_CODE = 78
NO_KILL = 1000      # "kill point" of a process that is left to end by itself


def _load_pf():
    path = os.path.join(REPO, "user_scripts", "parse_folder.py")
    spec = importlib.util.spec_from_file_location("parse_folder", path)
    mod = importlib.util.module_from_spec(spec)
    sys.modules["parse_folder"] = mod
    spec.loader.exec_module(mod)
    return mod


pf = _load_pf()
from pero_ocr.core.layout import PageLayout, RegionLayout, TextLine  # noqa: E402

# ------------------------------------------------------------------ names <-> tokens
EXT_TOKENS = (".logits", ".xml", ".jpg")
_TOK = re.compile(r"\.logits|\.xml|\.jpg|\.[a-z]+|-|[0-9]+|[a-z]+|.", re.S)


def tokens_of(name):
    return _TOK.findall(name)


def name_of(tokens):
    return "".join(tokens)


KIND_ARG = {"xml": "--output-xml-path", "render": "--output-render-path", "logits": "--output-logit-path",
            "alto": "--output-alto-path", "lines": "--output-line-path"}
KIND_ORDER = ["xml", "render", "logits", "alto", "lines"]
IMG_EXT = ".png"


def order_of(page_ids):
    """the order in which parse_folder processes the pages: sorted image file names"""
    return [os.path.splitext(f)[0] for f in sorted(p + IMG_EXT for p in page_ids)]


# ------------------------------------------------------------------ stub page parser
STUB = {"nlines": 2, "mode": "plain", "parser_class": None}


class StubPageParser:
    """Stands for PageParser(config, config_path=..., device=...): NLines text lines with logits, characters, crops and a
    transcription, all derived from the page id only.  (C08's schedule clause installs another class through
    STUB["parser_class"]: pd_common.DecodingPageParser, a subclass of the real PageParser.)"""
    provides_ctc_logits = True

    def __init__(self, config=None, config_path="", device=None):
        self.decoder = None

    def process_page(self, image, page_layout):
        pid = page_layout.id
        seed = sum(ord(c) * (i + 1) for i, c in enumerate(pid)) % 251
        # the content also depends on the IMAGE the tool handed in (make_batch gives every page its own grey value), so that a
        # page id paired with another page's image yields outputs that differ from the uninterrupted run
        if image is not None:
            seed = (seed + 3 * int(image[0, 0, 0])) % 251
        region = RegionLayout("r1", np.array([[0, 0], [50, 0], [50, 10 + 10 * STUB["nlines"]], [0, 10 + 10 * STUB["nlines"]]]))
        for i in range(STUB["nlines"]):
            lg = np.full((12, 3), -20.0)
            lg[:, 2] = 5
            first = (seed + i) % 2
            lg[3, first] = 10
            lg[6, 1 - first] = 10
            y = 10 + 10 * i
            line = TextLine(id=str(i + 1), baseline=np.array([[2, y], [48, y]]),
                            polygon=np.array([[2, y - 8], [48, y - 8], [48, y + 2], [2, y + 2]]), heights=[8, 2],
                            transcription="ab" if first == 0 else "ba", logits=sp.csc_matrix(lg),
                            characters=["a", "b", "~"], logit_coords=[0, 12],
                            crop=np.full((8, 20, 3), (seed * 7 + 40 * i) % 256, dtype=np.uint8))
            region.lines.append(line)
        page_layout.regions = [region]
        return page_layout


def warm():
    """compile the numba kernels / import the lazy modules used by the writers once in the parent, so that every forked
    child starts warm (a cold ALTO export costs ~0.5 s, a warm one a few ms)"""
    pl = StubPageParser().process_page(None, PageLayout(id="warm", page_size=(50, 50)))
    pl.to_pagexml_string()
    pl.to_altoxml_string()
    pl.save_logits_bytes()
    pl.render_to_image(np.zeros((50, 50, 3), np.uint8))
    cv2.imencode(".jpg", np.zeros((8, 20, 3), np.uint8))


# ------------------------------------------------------------------ the forked child
_CH = {"logfd": None, "kill_at": -1, "writes": 0, "dirs": {}}


def _log(ev):
    os.write(_CH["logfd"], (json.dumps(ev) + "\n").encode())


def _after_write(kind, path):
    _CH["writes"] += 1
    _log({"e": "write", "k": kind, "n": os.path.basename(path)})
    if _CH["writes"] == _CH["kill_at"]:
        os._exit(KILL_CODE)


class TracingComputator(pf.Computator):
    def __init__(self, *a, **k):
        super().__init__(*a, **k)
        _log({"e": "ready"})
        if _CH["kill_at"] == 0:
            os._exit(KILL_CODE)

    def __call__(self, image_file_name, file_id, index, ids_count):
        _log({"e": "page", "id": file_id, "count": ids_count, "pid": os.getpid()})
        return super().__call__(image_file_name, file_id, index, ids_count)


def _install_wrappers(dirs):
    _CH["dirs"] = {os.path.abspath(v): k for k, v in dirs.items()}
    real_pagexml, real_logits, real_alto = PageLayout.to_pagexml, PageLayout.save_logits, PageLayout.to_altoxml
    real_imwrite = cv2.imwrite

    def to_pagexml(self, file_name, *a, **k):
        res = real_pagexml(self, file_name, *a, **k)
        _after_write("xml", file_name)
        return res

    def save_logits(self, file_name, *a, **k):
        res = real_logits(self, file_name, *a, **k)
        _after_write("logits", file_name)
        return res

    def to_altoxml(self, file_name, *a, **k):
        res = real_alto(self, file_name, *a, **k)
        _after_write("alto", file_name)
        return res

    def imwrite(file_name, *a, **k):
        res = real_imwrite(file_name, *a, **k)
        kind = _CH["dirs"].get(os.path.abspath(os.path.dirname(file_name)), "other")
        _after_write(kind, file_name)
        return res

    PageLayout.to_pagexml = to_pagexml
    PageLayout.save_logits = save_logits
    PageLayout.to_altoxml = to_altoxml
    cv2.imwrite = imwrite
    pf.PageParser = STUB.get("parser_class") or StubPageParser
    pf.Computator = TracingComputator


def _child(argv, logpath, kill_at, dirs):
    try:
        os.setsid()
    except OSError:
        pass
    devnull = os.open(os.devnull, os.O_WRONLY)
    sys.stdout.flush()
    sys.stderr.flush()
    os.dup2(devnull, 1)
    os.dup2(devnull, 2)
    _CH["logfd"] = os.open(logpath, os.O_WRONLY | os.O_CREAT | os.O_APPEND, 0o644)
    _CH["kill_at"] = kill_at
    _CH["writes"] = 0
    code = 0
    try:
        _install_wrappers(dirs)
        sys.argv = argv
        pf.main()
    except SystemExit as ex:
        code = ex.code if isinstance(ex.code, int) else (0 if ex.code is None else 1)
        if code != 0:
            _log({"e": "exit", "code": code})
            code = EXC_CODE
    except BaseException as ex:  # the real tool dying with an exception is an observation
        _log({"e": "exc", "type": type(ex).__name__, "msg": str(ex)[:200]})
        code = EXC_CODE
    try:
        sys.stdout.flush()
    except Exception:
        pass
    os._exit(code)


def run_once(base, kinds, kill_at=-1, process_count=1, timeout=120):
    """one parse_folder.main() process on the batch folder `base` (-s always given).  Returns the run record."""
    dirs = {k: os.path.join(base, "out_" + k) for k in kinds}
    argv = ["parse_folder", "-c", os.path.join(base, "config.ini"), "-s", "--device", "cpu", "-i", os.path.join(base, "in")]
    for k in KIND_ORDER:
        if k in kinds:
            argv += [KIND_ARG[k], dirs[k]]
    if process_count > 1:
        argv += ["--process-count", str(process_count)]
    logpath = os.path.join(base, "events.%d.jsonl" % int(time.time() * 1e6))
    pid = os.fork()
    if pid == 0:
        _child(argv, logpath, kill_at, dirs)
    t0 = time.time()
    while True:
        wpid, st = os.waitpid(pid, os.WNOHANG)
        if wpid == pid:
            break
        if time.time() - t0 > timeout:
            try:
                os.killpg(pid, signal.SIGKILL)
            except OSError:
                os.kill(pid, signal.SIGKILL)
            os.waitpid(pid, 0)
            raise MachineryFailure("parse_folder child did not end within %d s" % timeout)
        time.sleep(0.002)
    events = []
    if os.path.exists(logpath):
        with open(logpath) as fh:
            events = [json.loads(x) for x in fh if x.strip()]
        os.remove(logpath)
    code = os.WEXITSTATUS(st) if os.WIFEXITED(st) else -os.WTERMSIG(st)
    if code == KILL_CODE:
        exit_ = "killed"
    elif code == 0:
        exit_ = "ok"
    else:
        exc = [e for e in events if e["e"] == "exc"]
        ext = [e for e in events if e["e"] == "exit"]
        exit_ = ("exception:" + exc[-1]["type"]) if exc else (("exit:%d" % ext[-1]["code"]) if ext else "died:%d" % code)
    pages = [e for e in events if e["e"] == "page"]
    rec = {"kill": kill_at if kill_at >= 0 else NO_KILL,
           "started": [tokens_of(e["id"]) for e in pages],
           "n0known": bool(pages), "n0": pages[0]["count"] if pages else 0,
           "writes": [[e["k"], tokens_of(e["n"])] for e in events if e["e"] == "write"],
           "exit": exit_, "workers": len({e["pid"] for e in pages})}
    pids = sorted({e["pid"] for e in pages})
    rec["page_workers"] = [pids.index(e["pid"]) + 1 for e in pages]
    return rec


# ------------------------------------------------------------------ folders
_STAMP = re.compile(rb"<(Created|LastChange|processingDateTime)>[^<]*</\1>")


def content_hash(path):
    with open(path, "rb") as fh:
        data = fh.read()
    if path.endswith(".xml"):
        data = _STAMP.sub(b"", data)
    return hashlib.sha1(data).hexdigest()


def listing(base, kinds):
    """{(kind, file name): content hash} of the output folders"""
    out = {}
    for k in kinds:
        d = os.path.join(base, "out_" + k)
        if os.path.isdir(d):
            for f in sorted(os.listdir(d)):
                out[(k, f)] = content_hash(os.path.join(d, f))
    return out


def grey_of(page_id):
    """every input page image has its own grey value, so that stub stages can tell which image they were handed"""
    return (sum(ord(c) * (i + 3) for i, c in enumerate(page_id)) * 7 + 11) % 256


def make_batch(base, page_ids):
    os.makedirs(os.path.join(base, "in"))
    for p in page_ids:
        grey = grey_of(p)
        if not cv2.imwrite(os.path.join(base, "in", p + IMG_EXT), np.full((30 + 10 * STUB["nlines"], 50, 3), grey, np.uint8)):
            raise MachineryFailure("cannot write input image for page %r" % p)
    with open(os.path.join(base, "config.ini"), "w") as fh:
        fh.write("[PAGE_PARSER]\n")


def run_history(workroot, name, page_ids, kinds, schedule, reference=None, process_count=1, inspect=None):
    """Execute one history: schedule = kill points of the successive processes (-1: left to end by itself).
    reference = {(kind, file): hash} of an uninterrupted run, None while that run itself is produced."""
    base = os.path.join(workroot, name)
    if os.path.exists(base):
        shutil.rmtree(base)
    make_batch(base, page_ids)
    runs = []
    for k in schedule:
        rec = run_once(base, kinds, kill_at=k, process_count=process_count)
        ls = listing(base, kinds)
        rec["files"] = [[kd, tokens_of(fn), bool(reference is None or reference.get((kd, fn)) == h)]
                        for (kd, fn), h in sorted(ls.items())]
        runs.append(rec)
    final = listing(base, kinds)
    if inspect is not None:
        inspect(base)
    shutil.rmtree(base, ignore_errors=True)
    trace = {"order": [tokens_of(p) for p in order_of(page_ids)], "kinds": [k for k in KIND_ORDER if k in kinds],
             "nlines": STUB["nlines"], "schedule": [k if k >= 0 else NO_KILL for k in schedule], "runs": runs}
    return trace, final
