-------------------------- MODULE Confidence_Trace --------------------------
(* Trace layer for Confidence (C16, level "exploration": TLC evaluates recorded fixed-point values of the real float code).

   kind = "line": one weight matrix w (a TLC initial state of Confidence), label string, fixed alignment al, rendered twice as
   logits - log(w / D) plus a seeded constant per frame, and the same with a second constant added to every frame (zero
   weights are absent entries of the sparse matrix = the -80 floor).  Recorded, in millionths:
      lc / lc_s     get_line_confidence(line, labels, aligned_letters = al) for the original / shifted logits
      let / let_s   exp(get_letter_confidence(dense logits, frame labelling of al, blank))
      cmp / cmp_s   PageParser.compute_line_confidence(line)
      lce / lce_s   line_confident_enough(dense logits, k / (2 D)) for k = 0..2D
   and in units of 1e-12 (clipped at 2e9): over = largest excursion of any value outside [0, 1], dshift / dshift_cmp = largest
   |original - shifted| among lc+let / of cmp, one / one_cmp = largest 1 - value among lc+let / of cmp.
   kind = "bag": BagOfHypotheses with scores log(v_i) + constant, LM scores log(lm_i / 10), lm_weight = scale:
      post (exp of posteriors()), conf (confidence()), tconf (transcript_confidence of each hypothesis), tabsent (of a transcript
      not in the bag), sumdev = |sum of exp(posteriors) - 1| and over in 1e-12 units; the bag is built a second time with another
      constant: dshift = largest change of any value, confdev = |confidence() - largest posterior| (1e-12 units).
      sumdev / over / confdev are maxima over a HISTORY of queries of the same bag object: after lm_weight was changed and
      changed back, and (mutated) after the caller modified in place the lists posteriors() / total_scores() had handed to it
      (exponentiated, reversed, sorted, appended to, truncated, cleared): the posteriors of the design module are a function
      of the bag's hypotheses only, so clauses 1, 2, 3, 8 apply unchanged to every later answer.

   Property-level clauses (statement of C16; a failure is a VIOLATION): 1 no exception, 2 range [0,1] within 1e-9, 3 posteriors
   sum to 1 within 1e-9 * n, 4 shift invariance with the alignment held fixed within 1e-9 (compute_line_confidence only when the
   best symbol of every frame is unique - a tie may be broken differently after round-off), 5 the confident-line test gives the
   same answer for the shifted logits at thresholds strictly between attainable values, 6 it is monotone in the threshold,
   7 one-hot posteriors give 1 within 1e-9, 8 the bag confidence equals the largest normalised posterior within 1e-9.
   One-hot clause 7: OneHotForOf(w, labels, al) (Confidence.tla) = every row one-hot and the hot symbols spell the transcription
   along a CTC path WITH RUNS (a,a,a,a,b for "ab"; al[i] = any frame of the run of character i) - TLC decides it from the
   recorded matrix.  For matrices with one-hot rows the trace also carries auto / lc_auto / al_auto / over_auto / one_auto: the
   same question with the alignment the code finds itself (no alignment passed; align_text + own log-posteriors as the ALTO export
   does), both renderings; one_auto = largest 1 - value, over_auto = excursion outside [0, 1] (1e-12).
   kind = "hist" (HISTORY): the confidences of the design module are functions of the current matrix only (no variable of
   Confidence remembers an earlier matrix), so a line that is handed new logits must answer for the new logits.  ONE long-lived
   page / line / PageDecoder set of the real code goes through  w + constants -> steps[1].w -> (a call that may fail) ->
   w + other constants -> steps[2].w (one-hot, spelling the transcription)  by assignment to line.logits; the "line" fields hold
   the answers after the first and the third assignment (so clauses 4 / 5 compare two uses of the SAME object), steps[k] the
   answers after the second and the fourth together with the weight matrix assigned there: TLC decides from that matrix whether
   the step is one-hot (JudgeStep).  kind = "alto" carries "hsteps": other exports of the same long-lived page with other
   logits assigned to its line (labw = label weights over dd; all = dd means one-hot), each judged by range / one-hot => 1.
   With Strict = TRUE the values are also compared with the exact rationals of the design module (clauses 11..15, tolerance 2e-6):
   a mismatch there alone is MODEL-DRIFT, not a violation.                                                                 *)
EXTENDS Confidence, TraceKit
CONSTANT Strict
VARIABLES tid, verdict

Tr == Traces[tid]
TOL == 1000            \* 1e-9 in units of 1e-12
TOL6 == 2              \* 2e-6 in millionths
Near(a, b, tol) == a <= b + tol /\ b <= a + tol
ApproxQ(val, q) == Near(val * q[2], q[1] * 1000000, q[2] * TOL6)
KS == 0..(2 * D)
Odd(k) == k % 2 = 1

LineExact(i) == IF T = L THEN TrConfOf(w, den, labels, i) ELSE LineConf(i)

JudgeLine ==
    IF Tr.outcome # "ok" THEN 1
    ELSE IF Tr.over > TOL THEN 2
    ELSE IF Tr.dshift > TOL THEN 4
    ELSE IF UniqueBest(w) /\ Tr.dshift_cmp > TOL THEN 4
    ELSE IF \E k \in KS : Odd(k) /\ Tr.lce[k + 1] # Tr.lce_s[k + 1] THEN 5
    ELSE IF \E k \in 1..(2 * D) : (Tr.lce[k + 1] /\ ~Tr.lce[k]) \/ (Tr.lce_s[k + 1] /\ ~Tr.lce_s[k]) THEN 6
    \* ... also below 0 ("all thresholds"): lce_neg = the answers for the thresholds -1 and -0.001, which lie below threshold 0
    ELSE IF \E j \in 1..Len(Tr.lce_neg) : (Tr.lce[1] /\ ~Tr.lce_neg[j]) \/ (Tr.lce_s[1] /\ ~Tr.lce_neg_s[j]) THEN 6
    \* ... and as the system applies it (PageDecoder.decode_line keeps / decodes the line): sys = answers for -1, -0.001, 0, 1/(2D), .., 1
    ELSE IF \E j \in 1..(Len(Tr.sys) - 1) : (Tr.sys[j + 1] /\ ~Tr.sys[j]) \/ (Tr.sys_s[j + 1] /\ ~Tr.sys_s[j]) THEN 6
    ELSE IF OneHot(w) /\ (Tr.one_cmp > TOL \/ \E k \in 0..(2 * D - 1) : ~Tr.lce[k + 1]) THEN 7
    ELSE IF OneHotForOf(w, labels, al) /\ Tr.one > TOL THEN 7
    \* ... and with the alignment the code finds itself (auto: get_line_confidence without an alignment, and with the alignment /
    \* log-posteriors the exports compute with align_text; "none" = not asked): whether the one-hot matrix spells the
    \* transcription does not depend on which frame of its run a character is aligned to, so OneHotForOf(w, labels, al) decides it
    ELSE IF OneHotForOf(w, labels, al) /\ Tr.auto \notin {"ok", "none"} THEN 1
    ELSE IF Tr.auto = "ok" /\ Tr.over_auto > TOL THEN 2
    ELSE IF OneHotForOf(w, labels, al) /\ Tr.auto = "ok" /\ Tr.one_auto > TOL THEN 7
    ELSE IF ~Strict THEN 0
    ELSE IF \E i \in 1..L : ~ApproxQ(Tr.lc[i], LineExact(i)) \/ ~ApproxQ(Tr.lc_s[i], LineExact(i)) THEN 11
    ELSE IF \E i \in 1..L : ~ApproxQ(Tr.let[i], LetterConfOf(w, den, labels, al, i)) THEN 12
    ELSE IF UniqueBest(w) /\ ~ApproxQ(Tr.cmp, RunWorstOf(w, den)) THEN 13
    ELSE IF \E k \in KS : Odd(k) /\ Tr.lce[k + 1] # Confident(Thr(k)) THEN 14
    ELSE 0

\* kind = "hist": a step of the history = the answers of the long-lived objects after the matrix s.w was assigned to the line
\* (same fields and units as a "line" trace; upd = transcription_confidence set by PageParser.update_confidences is part of
\* over / one_cmp; lce is asked on line.get_full_logprobs(), sys through the long-lived PageDecoders, thresholds as above)
StepW(s) == [f \in 1..T |-> [c \in Syms |-> s.w[f][c + 1]]]
JudgeStep(s) ==
    IF s.outcome # "ok" THEN 1
    ELSE IF s.over > TOL THEN 2
    ELSE IF \E k \in 1..(2 * D) : s.lce[k + 1] /\ ~s.lce[k] THEN 6
    ELSE IF \E j \in 1..Len(s.lce_neg) : s.lce[1] /\ ~s.lce_neg[j] THEN 6
    ELSE IF \E j \in 1..(Len(s.sys) - 1) : s.sys[j + 1] /\ ~s.sys[j] THEN 6
    \* one-hot posteriors: every frame-wise confidence is 1 and the line passes the test for every threshold below 1
    \* (lce: thresholds 0 .. (2D-1)/(2D); sys: -1, -0.001, 0 .. (2D-1)/(2D) = all entries but the last)
    ELSE IF OneHot(StepW(s)) /\ (s.one_cmp > TOL \/ (\E k \in 0..(2 * D - 1) : ~s.lce[k + 1])
                                               \/ (\E j \in 1..(Len(s.sys) - 1) : ~s.sys[j])) THEN 7
    ELSE IF OneHotForOf(StepW(s), labels, al) /\ s.one > TOL THEN 7
    ELSE 0
\* steps 1 and 3 (the same object, logits differing by a constant per frame) are a "line" observation: all clauses of JudgeLine;
\* a property-level clause of a step takes precedence over the exact-value (drift) clauses 11..14 of JudgeLine
JudgeHist ==
    LET j == JudgeLine
        bad == {k \in 1..Len(Tr.steps) : JudgeStep(Tr.steps[k]) # 0}
    IN  IF j \in 1..9 THEN j
        ELSE IF bad # {} THEN JudgeStep(Tr.steps[CHOOSE k \in bad : \A o \in bad : k <= o])
        ELSE j

NH == Len(Tr.v)
BagPost(i) == Posterior(Tr.v, Tr.lm, Tr.scale, i)
JudgeBag ==
    IF Tr.outcome # "ok" THEN 1
    ELSE IF Tr.over > TOL THEN 2
    ELSE IF Tr.sumdev > TOL * NH THEN 3
    ELSE IF Tr.dshift > TOL THEN 4                                      \* the same bag with a constant added to every score
    ELSE IF Tr.confdev > TOL THEN 8                                     \* the bag confidence is the largest (normalised) posterior
    ELSE IF NH = 1 /\ (Tr.post[1] < 999999 \/ Tr.conf < 999999) THEN 7
    \* wide = a bag with a large dynamic range (scores hundreds of nats apart): judged by the clauses above only
    ELSE IF ~Strict \/ Tr.wide THEN 0
    ELSE IF \E i \in 1..NH : ~ApproxQ(Tr.post[i], BagPost(i)) \/ ~ApproxQ(Tr.tconf[i], BagPost(i)) THEN 15
    ELSE IF ~ApproxQ(Tr.conf, MaxQ({BagPost(i) : i \in 1..NH})) \/ Tr.tabsent # 0 THEN 15
    ELSE 0

\* kind = "alto": a line whose character frames carry label weight a_i and distractor weight b_i over Tr.dd, exported with
\* PageLayout.to_altoxml_string(); nums[i] = max(0, a_i - b_i); words = <<first, last>> character index of each word;
\* wc = the WC attributes, lconf = line.transcription_confidence (millionths); over / one as above; onehot = all a_i = dd
SubSeqOf(s, lo, hi) == [i \in 1..(hi - lo + 1) |-> s[lo + i - 1]]
AllDD(lw) == \A i \in 1..Len(lw) : lw[i] = Tr.dd
JudgeAlto ==
    IF Tr.outcome # "ok" THEN 1
    ELSE IF Tr.over > TOL THEN 2
    ELSE IF Tr.onehot /\ Tr.one > TOL THEN 7
    \* the other exports of the same long-lived page (history): each is judged on the logits its line carried at that export
    ELSE IF \E j \in 1..Len(Tr.hsteps) : Tr.hsteps[j].outcome # "ok" THEN 1
    ELSE IF \E j \in 1..Len(Tr.hsteps) : Tr.hsteps[j].over > TOL THEN 2
    ELSE IF \E j \in 1..Len(Tr.hsteps) : AllDD(Tr.hsteps[j].labw) /\ Tr.hsteps[j].one > TOL THEN 7
    ELSE IF ~Strict THEN 0
    ELSE IF ~Near(Tr.lconf * 2 * Tr.dd, Med2(Tr.nums) * 1000000, 2 * Tr.dd * TOL6) THEN 16
    ELSE IF Len(Tr.wc) # Len(Tr.words) THEN 16
    ELSE IF \E j \in 1..Len(Tr.words) :
              \* the export reports 1 for every word of a line whose own (median) confidence is exactly 1
              LET exact == IF Med2(Tr.nums) = 2 * Tr.dd THEN 2 * Tr.dd ELSE Med2(SubSeqOf(Tr.nums, Tr.words[j][1], Tr.words[j][2]))
              IN  ~Near(Tr.wc[j] * 2 * Tr.dd, exact * 1000000, 2 * Tr.dd * 5002) THEN 16
    ELSE 0

\* kind = "empty": a line whose logit matrix has no frame (an empty crop); cmp = what PageParser.compute_line_confidence /
\* update_confidences report for it (millionths), over = excursion outside [0, 1] in 1e-12
JudgeEmpty == IF Tr.outcome # "ok" THEN 1 ELSE IF Tr.over > TOL THEN 2 ELSE 0

IsLine == Traces[tid].kind \in {"line", "hist"}
TInit == /\ tid \in 1..NTraces
         /\ w = IF IsLine THEN [f \in 1..T |-> [s \in Syms |-> Traces[tid].w[f][s + 1]]] ELSE [f \in 1..T |-> [s \in Syms |-> 1]]
         /\ den = [f \in 1..T |-> RowSum(w[f])]
         /\ w0 = w
         /\ labels = IF IsLine THEN Traces[tid].labels ELSE <<0>>
         /\ al = IF IsLine THEN Traces[tid].al ELSE <<1>>
         /\ shifted = 0
         /\ verdict = IF Traces[tid].kind = "line" THEN JudgeLine ELSE IF Traces[tid].kind = "hist" THEN JudgeHist ELSE IF Traces[tid].kind = "alto" THEN JudgeAlto
                     ELSE IF Traces[tid].kind = "empty" THEN JudgeEmpty ELSE JudgeBag

TNext == UNCHANGED <<vars, tid, verdict>>

TAccept == TKMark(tid, verdict, verdict = 0)
TPost == TKPost
ASSUME TKReset
=============================================================================
