"""Shared by the C01 driver: build real pero_ocr PageLayout objects from abstract pages (the states of
spec/PageXml.tla), drive Build; Export v; Load; Export v'; Load; Export v' through the real code and project every
live object / written document back onto the abstract state (integers and tokens only).

Units (as in PageXml.tla): page coordinates in quarters, page heights in 1/80, page confidences in 1/128000;
document coordinates integers, heights tenths, confidences thousandths.  Optional = [] or [v]."""
import hashlib
import itertools
import logging
import os
import re
from decimal import Decimal
from fractions import Fraction

import lxml.etree as ET
import numpy as np

from pero_ocr.core.layout import PageLayout, RegionLayout, TextLine, PAGEVersion

logging.getLogger("pero_ocr.core.layout").setLevel(logging.ERROR)

OFFGRID = -1
BAD = 1000003            # projection of a value that is not on the expected grid / of the expected type
BADTOK = 999             # projection of a string that is not in the token table

# token 0 is always the empty string.  One representative per class of the property's quantifier.
TEXTS = ["", "plain text", " lead & trail  ", "<tag a=\"1\">&amp;'</tag>", "é ạ̈ ñ",
         "שלום مرحبا abc", "\U0001F600\U00010348 \U0002000B",
         "tab\there\nnew line", "a\rb\r\nc", "  ", "]]> <!-- x --> &#65; %s {0}", "  \u0085﻿x�"]
PIDS = ["page 1.jpg", "stránka <&>'\" \U0001F600.png"]
TYPES = ["paragraph", "heading & <note>"]
VERSIONS = {1: PAGEVersion.PAGE_2019_07_15, 2: PAGEVersion.PAGE_2013_07_15}
NS = {1: "http://schema.primaresearch.org/PAGE/gts/pagecontent/2019-07-15",
      2: "http://schema.primaresearch.org/PAGE/gts/pagecontent/2013-07-15"}


def default_tables():
    return {"texts": list(TEXTS), "pids": list(PIDS), "types": list(TYPES)}


# ------------------------------------------------------------------------------------------ abstract -> real
def _pts(ps, jitter=None):
    if jitter:
        # 'fine' inputs: every coordinate is moved off the quarter grid by +-2**-jitter (still an exact float64)
        out = np.array([[x / 4.0 + _jsign(x) * 2.0 ** -jitter, y / 4.0 + _jsign(y) * 2.0 ** -jitter] for x, y in ps],
                       dtype=np.float64)
        for (x, y), (fx, fy) in zip(ps, out):
            if Fraction(float(fx)) != _jexact(x, jitter) or Fraction(float(fy)) != _jexact(y, jitter):
                raise RuntimeError("jittered coordinate is not exactly representable")
        return out
    return np.array([[x / 4.0, y / 4.0] for x, y in ps], dtype=np.float64)


def _jsign(q):
    """towards the odd neighbour of a tie, away from it otherwise: n.5 - eps for odd n, n.5 + eps for even n"""
    return -1 if (q // 4) % 2 else 1


def _jexact(q, jitter):
    return Fraction(q, 4) + _jsign(q) * Fraction(1, 2 ** jitter)


def oracle_page(ap, jitter):
    """The page a 'fine' input (coordinates q/4 +- 2**-jitter, finer than TLC's quarter grid and than float32) must come back
    as: every coordinate replaced by the nearest integer of the EXACT rational value (fractions.Fraction, ties cannot occur),
    expressed in quarters.  Independent of pero_ocr and of numpy rounding; PageXml_Trace judges the execution against it."""
    def rp(ps):
        return [[4 * int(round(_jexact(x, jitter))), 4 * int(round(_jexact(y, jitter)))] for x, y in ps]
    out = dict(ap, regions=[])
    for r in ap["regions"]:
        out["regions"].append(dict(r, poly=rp(r["poly"]), lines=[dict(l, bl=rp(l["bl"]), poly=rp(l["poly"])) for l in r["lines"]]))
    return out


def _opt_tok(o, table):
    return None if not o else table[o[0]]


def build_real(ap, tables, jitter=None):
    """abstract page (dict) -> real PageLayout.  Only exactly representable binary fractions are produced."""
    page = PageLayout(id=tables["pids"][ap["pid"]], page_size=(ap["size"][0], ap["size"][1]))
    if ap["hasRO"]:
        page.reading_order = {rid: idx for rid, idx in ap["ro"]}
    for r in ap["regions"]:
        reg = RegionLayout(r["id"], _pts(r["poly"], jitter), region_type=_opt_tok(r["typ"], tables["types"]))
        reg.transcription = _opt_tok(r["text"], tables["texts"])
        for l in r["lines"]:
            hts = None if not l["hts"] else [l["hts"][0] / 80.0, l["hts"][1] / 80.0]
            conf = None if not l["conf"] else l["conf"][0] / 128000.0
            reg.lines.append(TextLine(id=l["id"], baseline=_pts(l["bl"], jitter), polygon=_pts(l["poly"], jitter), heights=hts,
                                      transcription=_opt_tok(l["text"], tables["texts"]),
                                      transcription_confidence=conf, index=(l["idx"][0] if l["idx"] else None)))
        page.regions.append(reg)
    return page


# ------------------------------------------------------------------------------------------ real -> abstract
def _tok(s, table):
    if s is None:
        return []
    try:
        return [table.index(s)]
    except ValueError:
        return [BADTOK]


def _int(v):
    try:
        f = float(v)
        if f.is_integer() and abs(f) < 2 ** 30:
            return int(f)
    except Exception:
        pass
    return BAD


def _quarters(v):
    try:
        f = float(v) * 4
        if f.is_integer() and abs(f) < 2 ** 30:
            return int(f)
    except Exception:
        pass
    return BAD


def _pts_q(arr):
    if arr is None:
        return [[BAD, BAD]]
    try:
        out = [[_quarters(p[0]), _quarters(p[1])] for p in arr]
    except Exception:
        return [[BAD, BAD]]
    return out if out else [[BAD, BAD], [BAD, BAD], [BAD, BAD]]


def _h80(v):
    """height -> 1/80 units when the float is exactly a sixteenth or the double nearest to a tenth, else OFFGRID"""
    try:
        f = float(v)
        if not np.isfinite(f) or f < 0 or f > 1e6:
            return BAD
        if (f * 16).is_integer():
            return int(f * 16) * 5
        k = round(f * 10)
        if k / 10 == f:
            return k * 8
        return OFFGRID
    except Exception:
        return BAD


def _c128k(v):
    try:
        f = float(v)
        if not np.isfinite(f) or abs(f) > 1000:
            return BAD
        if (f * 1024).is_integer():
            return int(f * 1024) * 125
        k = round(f * 1000)
        if k / 1000 == f:
            return k * 128
    except Exception:
        pass
    return BAD


def _sid(v):
    return v if isinstance(v, str) else "<%s>" % type(v).__name__


def proj_page(page, tables):
    ro = page.reading_order
    out = {"pid": _tok(page.id, tables["pids"])[0] if page.id is not None else BADTOK,
           "size": [_int(page.page_size[0]), _int(page.page_size[1])] if len(page.page_size) == 2 else [BAD, BAD],
           "hasRO": ro is not None,
           "ro": [[_sid(k), _int(v)] for k, v in ro.items()] if ro is not None else [],
           "regions": []}
    for r in page.regions:
        lines = []
        for l in r.lines:
            hts = []
            if l.heights is not None:
                try:
                    hts = [_h80(l.heights[0]), _h80(l.heights[1])]
                except Exception:
                    hts = [BAD, BAD]
            lines.append({"id": _sid(l.id), "idx": [] if l.index is None else [_int(l.index)],
                          "bl": _pts_q(l.baseline), "poly": _pts_q(l.polygon), "hts": hts,
                          "text": _tok(l.transcription, tables["texts"]),
                          "conf": [] if l.transcription_confidence is None else [_c128k(l.transcription_confidence)]})
        out["regions"].append({"id": _sid(r.id), "typ": _tok(r.region_type, tables["types"]), "poly": _pts_q(r.polygon),
                               "text": _tok(r.transcription, tables["texts"]), "lines": lines})
    return out


_TS = re.compile(r"<(Created|LastChange)>[^<]*</\1>")


def strip_timestamps(s):
    return _TS.sub("", s)


def _dec(s, scale):
    try:
        d = Decimal(s.strip()) * scale
        if d == d.to_integral_value() and abs(d) < 2 ** 30:
            return int(d)
    except Exception:
        pass
    return BAD


def _doc_pts(el):
    if el is None or "points" not in el.attrib:
        return [[BAD, BAD]]
    out = []
    for t in el.attrib["points"].split(" "):
        xy = t.split(",")
        if len(xy) != 2:
            return [[BAD, BAD]]
        out.append([_dec(xy[0], 1), _dec(xy[1], 1)])
    return out or [[BAD, BAD]]


def _unicode_of(el, q, tables):
    te = el.find(q + "TextEquiv")
    if te is None:
        return [], None
    u = te.find(q + "Unicode")
    txt = "" if (u is None or u.text is None) else u.text
    return _tok(txt, tables["texts"]), te


def proj_doc(xml, tables):
    """independent reading of the written document (lxml only, none of pero_ocr's import code)"""
    root = ET.fromstring(xml.encode("utf-8"))
    ns = root.tag[1:].partition("}")[0] if root.tag.startswith("{") else ""
    ver = {v: k for k, v in NS.items()}.get(ns, 0)
    q = "{%s}" % ns
    pg = root.find(q + "Page")
    ro_el = pg.find(q + "ReadingOrder")
    ro = []
    if ro_el is not None:
        for e in ro_el.iter(q + "RegionRefIndexed"):
            ro.append([e.get("regionRef", "<none>"), _dec(e.get("index", "x"), 1)])
    doc = {"ver": ver, "pid": _tok(pg.get("imageFilename"), tables["pids"])[0] if pg.get("imageFilename") is not None else BADTOK,
           "size": [_dec(pg.get("imageHeight", "x"), 1), _dec(pg.get("imageWidth", "x"), 1)],
           "hasRO": ro_el is not None, "ro": ro, "regions": []}
    for r in pg.findall(q + "TextRegion"):
        rtext, _ = _unicode_of(r, q, tables)
        lines = []
        for l in r.findall(q + "TextLine"):
            hts = []
            m = re.search(r"heights_v2:\[([^,\]]*),([^,\]]*)\]", l.get("custom", ""))
            if m:
                hts = [_dec(m.group(1), 10), _dec(m.group(2), 10)]
            elif "custom" in l.attrib:
                hts = [BAD, BAD]
            ltext, te = _unicode_of(l, q, tables)
            conf = []
            if te is not None and te.get("conf") is not None:
                conf = [_dec(te.get("conf"), 1000)]
            lines.append({"id": l.get("id", "<none>"), "idx": [] if l.get("index") is None else [_dec(l.get("index"), 1)],
                          "hts": hts, "poly": _doc_pts(l.find(q + "Coords")), "bl": _doc_pts(l.find(q + "Baseline")),
                          "text": ltext, "conf": conf})
        doc["regions"].append({"id": r.get("id", "<none>"), "typ": _tok(r.get("type"), tables["types"]),
                               "poly": _doc_pts(r.find(q + "Coords")), "text": rtext, "lines": lines})
    return doc


def doc_hash(xml):
    return int(hashlib.sha1(strip_timestamps(xml).encode("utf-8")).hexdigest()[:7], 16)


# ------------------------------------------------------------------------------------------ behaviours
_WORKDIR = {"path": None}


def set_workdir(path):
    _WORKDIR["path"] = path


def _export(page, ver, via, tag):
    if via == "string":
        return page.to_pagexml_string(version=VERSIONS[ver])
    fn = os.path.join(_WORKDIR["path"], "px_%d_%s.xml" % (os.getpid(), tag))
    page.to_pagexml(fn, version=VERSIONS[ver])
    with open(fn, encoding="utf-8", newline="") as fh:
        return fh.read()


def _load(xml, via, tag):
    np.random.seed(12345)          # guess_line_heights_from_polygon samples baseline points
    if via == "string":
        p = PageLayout()
        p.from_pagexml_string(xml)
        return p
    fn = os.path.join(_WORKDIR["path"], "px_%d_%s_in.xml" % (os.getpid(), tag))
    with open(fn, "w", encoding="utf-8", newline="") as fh:
        fh.write(xml)
    try:
        if via == "file":
            p = PageLayout()
            p.from_pagexml(fn)
            return p
        return PageLayout(file=fn)         # via == "ctor"
    finally:
        os.remove(fn)


HOW_OF = {"string": "into", "file": "into", "ctor": "ctor"}


def perm_of(kind, n):
    """1-based order in which the n TextRegion elements are handed to the import"""
    ident = list(range(1, n + 1))
    if kind == "rev":
        return ident[::-1]
    if kind == "rot":
        return ident[1:] + ident[:1]
    return ident


def permute_xml(xml, pm):
    """what another tool may do between the two calls: the same document with its TextRegion elements re-ordered"""
    if pm == sorted(pm):
        return xml
    root = ET.fromstring(xml.encode("utf-8"))
    ns = root.tag[1:].partition("}")[0]
    pg = root.find("{%s}Page" % ns)
    regs = pg.findall("{%s}TextRegion" % ns)
    for r in regs:
        pg.remove(r)
    for i in pm:
        pg.append(regs[i - 1])
    return ET.tostring(root, encoding="utf-8", xml_declaration=True).decode("utf-8")


def run_case(case):
    """case = {"page": abstract page, "v1": 1|2, "v2": 1|2, "via1": .., "via2": .., "perm1": "id"|"rev"|"rot", "tables": {...}}
    via in {"string", "file", "ctor"}: the API variant used for the export/load pair; perm1: re-ordering of the TextRegion
    elements of the first document before it is loaded."""
    tables = tables_of(case)
    jitter = case.get("jitter")
    tr = {"kind": "std", "page0": case["page"], "events": [], "outcome": "ok", "where": 0}
    try:
        page = build_real(case["page"], tables)
        built = proj_page(page, tables)
        if built != case["page"]:
            tr["outcome"] = "harness:build-mismatch"
            tr["built"] = built
            return tr
        if jitter:
            # the object handed to the real code carries the off-grid coordinates; the execution is judged (property level only)
            # against the page the exact rational arithmetic of oracle_page says it must come back as
            page = build_real(case["page"], tables, jitter)
            tr["page0"] = oracle_page(case["page"], jitter)
        plan = [("Export", case["v1"], case["via1"]), ("Load", 0, case["via1"]), ("Export", case["v2"], case["via2"]),
                ("Load", 0, case["via2"]), ("Export", case["v2"], case["via2"])]
        xml = None
        for k, (act, ver, via) in enumerate(plan):
            tr["where"] = k + 1
            if act == "Export":
                xml = _export(page, ver, "string" if via == "string" else "file", "e%d" % k)
                tr["events"].append({"a": "Export", "v": ver, "via": via, "how": "none", "pm": [], "doc": proj_doc(xml, tables),
                                     "hash": doc_hash(xml), "page": proj_page(page, tables)})
            else:
                written = tr["events"][-1]["doc"]
                pm = perm_of(case.get("perm1", "id") if k == 1 else "id", len(written["regions"]))
                given = permute_xml(xml, pm)
                if pm != sorted(pm):
                    want = dict(written, regions=[written["regions"][i - 1] for i in pm])
                    if proj_doc(given, tables) != want:
                        tr["outcome"] = "harness:permute-mismatch"
                        return tr
                page = _load(given, via, "l%d" % k)
                tr["events"].append({"a": "Load", "v": 0, "via": via, "how": HOW_OF[via], "pm": pm, "doc": EMPTY_DOC, "hash": 0,
                                     "page": proj_page(page, tables)})
    except Exception as ex:     # any failure of the real code is part of the observation
        tr["outcome"] = "exception:" + type(ex).__name__
        tr["error"] = str(ex)[:200]
    finally:
        for f in os.listdir(_WORKDIR["path"]):
            if f.startswith("px_%d_" % os.getpid()):
                try:
                    os.remove(os.path.join(_WORKDIR["path"], f))
                except OSError:
                    pass
    return tr


EMPTY_DOC = {"ver": 0, "pid": 0, "size": [0, 0], "hasRO": False, "ro": [], "regions": []}


def run_any(case):
    """case["after"] (optional) = a case executed first in the same process, its record dropped (it is recorded as a case of its
    own): the history the execution of `case` happens after, kept in the case so that a replay reproduces it"""
    if case.get("after"):
        run_any(case["after"])
    return run_hist(case) if case.get("hist") else run_case(case)


def tables_of(case):
    t = case.get("tables")
    if t == "scale":
        return scale_tables()
    return t or default_tables()


# ------------------------------------------------------------------------------------------ history (kind = "hist")
def _cleanup():
    for f in os.listdir(_WORKDIR["path"]):
        if f.startswith("px_%d_" % os.getpid()):
            try:
                os.remove(os.path.join(_WORKDIR["path"], f))
            except OSError:
                pass


def edit_in_place(page, dx, dy, dh):
    """What the owner of a loaded page does with it (e.g. after the scan was padded): every outline and baseline moved by
    (dx, dy) pixels and every height grown by dh, IN PLACE where the object allows it (numpy `+=`, list item assignment) and
    by re-assignment where it does not (read-only array, tuple, ...)."""
    off = np.array([dx, dy])

    def moved(a):
        if isinstance(a, np.ndarray) and a.ndim == 2:
            try:
                a += off
                return a
            except Exception:
                pass
        return np.asarray(a) + off

    for r in page.regions:
        r.polygon = moved(r.polygon)
        for l in r.lines:
            l.baseline = moved(l.baseline)
            l.polygon = moved(l.polygon)
            if l.heights is not None and dh:
                try:
                    l.heights[0] += dh
                    l.heights[1] += dh
                except Exception:
                    l.heights = [l.heights[0] + dh, l.heights[1] + dh]


_LAST_POINTS = re.compile(r'points="[^"]*"(?![\s\S]*points=")')


def failing_load(xml, via):
    """A load that may fail half way, between two calls of a case (the process, and whatever module-level state the library
    keeps, goes on living): the document with its last points attribute damaged.  Whatever happens is ignored."""
    try:
        _load(_LAST_POINTS.sub('points="7,7 9;oops"', xml, count=1), via, "bad")
    except Exception:
        pass


def _ev(a, page, tables, v=0, via="none", how="none", pm=(), xml=None):
    return {"a": a, "v": v, "via": via, "how": how, "pm": list(pm),
            "doc": proj_doc(xml, tables) if xml is not None else EMPTY_DOC, "hash": doc_hash(xml) if xml is not None else 0,
            "page": proj_page(page, tables)}


def run_hist(case):
    """History across long-lived objects in ONE process (the statement is about any page and any document, whatever was loaded,
    edited or failed before):
        Export v1 P -> X1; Load X1 -> L1; Export v2 L1 -> X2;
        Edit L1 in place (the caller moves its own page); Export v2 L1 -> X3; Load X3 -> L2;
        [a load that fails half way]; Load X1 AGAIN -> L3; Export v2 L3 -> X4
    case = {"hist": True, "page", "v1", "v2", "via1", "via2", "shift": [dx, dy, dh16], "fail": bool, "tables"}; L1 stays alive
    to the end.  Judged by PageXml_Trace (HClause), property level only."""
    tables = tables_of(case)
    tr = {"kind": "hist", "page0": case["page"], "events": [], "outcome": "ok", "where": 0}
    v1, v2, a, b = case["v1"], case["v2"], case["via1"], case["via2"]
    dx, dy, dh16 = case["shift"]
    ea, eb = ("string" if a == "string" else "file"), ("string" if b == "string" else "file")
    try:
        page = build_real(case["page"], tables)
        if proj_page(page, tables) != case["page"]:
            tr["outcome"] = "harness:build-mismatch"
            return tr
        ev = tr["events"]
        ident = lambda doc: perm_of("id", len(doc["regions"]))
        tr["where"] = 1
        x1 = _export(page, v1, ea, "h1")
        ev.append(_ev("Export", page, tables, v=v1, via=a, xml=x1))
        tr["where"] = 2
        l1 = _load(x1, a, "h2")
        ev.append(_ev("Load", l1, tables, via=a, how=HOW_OF[a], pm=ident(ev[0]["doc"])))
        tr["where"] = 3
        x2 = _export(l1, v2, eb, "h3")
        ev.append(_ev("Export", l1, tables, v=v2, via=b, xml=x2))
        tr["where"] = 4
        edit_in_place(l1, dx, dy, dh16 / 16.0)
        ev.append(_ev("Edit", l1, tables))
        tr["where"] = 5
        x3 = _export(l1, v2, eb, "h5")
        ev.append(_ev("Export", l1, tables, v=v2, via=b, xml=x3))
        tr["where"] = 6
        l2 = _load(x3, b, "h6")
        ev.append(_ev("Load", l2, tables, via=b, how=HOW_OF[b], pm=ident(ev[4]["doc"])))
        if case.get("fail"):
            failing_load(x1, a)
        tr["where"] = 7
        l3 = _load(x1, a, "h7")
        ev.append(_ev("Load", l3, tables, via=a, how=HOW_OF[a], pm=ident(ev[0]["doc"])))
        tr["where"] = 8
        x4 = _export(l3, v2, eb, "h8")
        ev.append(_ev("Export", l3, tables, v=v2, via=b, xml=x4))
        if x1 is x4 or l1 is None or l2 is None:     # keep every object alive to the end
            pass
    except Exception as ex:     # any failure of the real code is part of the observation
        tr["outcome"] = "exception:" + type(ex).__name__
        tr["error"] = str(ex)[:200]
    finally:
        _cleanup()
    return tr


# ------------------------------------------------------------------------------------------ page spaces
def mk_line(lid, idx=None, bl=((0, 0), (40, 0)), poly=((0, -20), (40, -20), (40, 12), (0, 12)), hts=None, text=None, conf=None):
    return {"id": lid, "idx": [] if idx is None else [idx], "bl": [list(p) for p in bl], "poly": [list(p) for p in poly],
            "hts": [] if hts is None else list(hts), "text": [] if text is None else [text], "conf": [] if conf is None else [conf]}


def mk_region(rid, lines=(), typ=None, text=None, poly=((2, 2), (202, 2), (202, 161), (2, 161))):
    return {"id": rid, "typ": [] if typ is None else [typ], "poly": [list(p) for p in poly],
            "text": [] if text is None else [text], "lines": list(lines)}


def mk_page(regions, ro=None, pid=0, size=(100, 200)):
    return {"pid": pid, "size": list(size), "hasRO": ro is not None, "ro": [list(p) for p in (ro or [])], "regions": list(regions)}


# coordinate sets in quarters: integers, exact halves (ties to even), negative values, quarters, many points
COORDS = [
    {"bl": ((0, 0), (40, 0)), "poly": ((0, -20), (40, -20), (40, 36), (0, 36))},
    # explicitly closed rings (last vertex = first), and a ring whose end points merely round to the same integer point
    {"bl": ((16, 16), (176, 16), (176, 32), (16, 16)), "poly": ((0, -20), (40, -20), (40, 36), (0, 36), (0, -20))},
    {"bl": ((0, 0), (40, 0)), "poly": ((0, -20), (40, -20), (40, 36), (0, 36), (1, -19))},
    {"bl": ((2, 6), (10, -14), (42, 30)), "poly": ((2, -6), (6, -10), (170, 10), (174, 14), (-2, 50))},
    {"bl": ((-12, 8), (20, 8)), "poly": ((-13, 1), (21, 3), (23, 41), (-15, 43))},
    {"bl": ((1, 3), (5, 7), (9, 11), (13, 15), (400, 18)), "poly": ((0, 0), (402, 0), (402, 82), (0, 82))},
]
HEIGHTS = [None, (820, 400), (20, 60), (5, 0), (100, 35)]     # 1/80: 10.25/5.0, 0.25/0.75 (ties), 0.0625/0, 1.25/0.4375
CONFS = [None, 0, 128000, 8000, 24000, 15375, 127875]          # 1/128000: 0, 1, 0.0625 (tie), 0.1875 (tie), 123/1024, 1023/1024
IDXS = [None, 0, 5]


def attribute_pages(ntexts, nconfs, nheights, ncoords, region_attrs):
    """1 region x 1 line; every combination of line text x confidence x heights x index x coordinate set
    (confidence only with a transcription), plus the region's own text / type and the page id varied one at a time."""
    pages = []
    texts = [None] + list(range(ntexts))
    for t, c, h, ix, cs in itertools.product(texts, CONFS[:nconfs], HEIGHTS[:nheights], IDXS, COORDS[:ncoords]):
        if t is None and c is not None:
            continue
        ln = mk_line("l-1", idx=ix, bl=cs["bl"], poly=cs["poly"], hts=h, text=t, conf=c)
        pages.append(mk_page([mk_region("r1", [ln], typ=0, text=t)]))
    if region_attrs:
        ln = mk_line("l 1", idx=None, hts=(820, 400), text=1, conf=8000)
        for rt, ty, pid in itertools.product([None] + list(range(ntexts)), [None, 0, 1], [0, 1]):
            pages.append(mk_page([mk_region("région:1", [ln], typ=ty, text=rt, poly=((1, 1), (3, 3), (-2, 6)))], pid=pid,
                                 size=(1, 30000)))
        # a region outline given as a closed ring
        pages.append(mk_page([mk_region("r1", [ln], typ=0, text=1, poly=((8, 8), (808, 8), (808, 648), (8, 648), (8, 8)))]))
    return pages


def structure_pages(region_ids, ro_values, lines_of):
    """every sequence of distinct regions from region_ids x (no reading order | every partial map region id -> ro_values (sparse indices included)
    in every dictionary order of at most ... ) ; region r carries lines_of[r] lines"""
    pages = []
    ids = list(region_ids)
    seqs = [p for n in range(len(ids) + 1) for p in itertools.permutations(ids, n)]
    ros = [None]
    for n in range(len(ids) + 1):
        for keys in itertools.combinations(ids, n):
            for vals in itertools.product(list(ro_values), repeat=n):
                ros.append(list(zip(keys, vals)))
                if n >= 2:
                    ros.append(list(zip(keys, vals))[::-1])     # dictionary order differs from region order
    for seq, ro in itertools.product(seqs, ros):
        regs = []
        for rid in seq:
            lines = [mk_line("%s-l%d" % (rid, j), idx=(None if j == 0 else 2 * (j - 1)), hts=(None if j == 1 else (160, 40)),
                             text=(None if j == 1 else 1), conf=None) for j in range(lines_of.get(rid, 0))]
            regs.append(mk_region(rid, lines))
        pages.append(mk_page(regs, ro=ro))
    return pages


# ------------------------------------------------------------------------------------------ scale
_SCALE_TABLES = {}


def scale_tables():
    """default tables + transcriptions longer than any 16-bit length (deterministic; referred to by case["tables"] = "scale")"""
    if not _SCALE_TABLES:
        t = default_tables()
        unit = "long line <&> שלום é \U0001F600 "
        t["texts"] = t["texts"] + [(unit * (70000 // len(unit) + 1))[:70000] + "|end", " " + "x" * 66000 + "\n" + "y" * 300 + " "]
        _SCALE_TABLES.update(t)
    return _SCALE_TABLES


LONG_TEXTS = [len(TEXTS), len(TEXTS) + 1]
B15, B16, B24, B25, B27 = 2 ** 15, 2 ** 16, 2 ** 24, 2 ** 25, 2 ** 27


def _q(*pts):
    """points given in pixels (multiples of 1/4) -> quarters"""
    out = []
    for x, y in pts:
        assert (x * 4) == int(x * 4) and (y * 4) == int(y * 4) and abs(x * 4) < 2 ** 30 and abs(y * 4) < 2 ** 30
        out.append((int(x * 4), int(y * 4)))
    return tuple(out)


def scale_pages():
    """Sampled pages beyond the small bounds of the exhaustive spaces, all still inside what TLC evaluates exactly (32-bit
    integers: |coordinate| < 2**28 px): coordinates beyond 2**15 / 2**16 / 2**24 (odd integers, halves and quarters that a
    float32 cannot hold) / 2**27, positive and negative; page sizes and line indices beyond 2**16 and 2**24; heights beyond
    6553.5 and 65535; a region of 300 lines; outlines of 1100 and baselines of 300 points; transcriptions of 70 000 characters."""
    pages = []
    # 1. far from the origin, one line, every magnitude class
    for k, (ox, oy) in enumerate([(B15 + 1, B16 + 3), (B24 + 13, B25 + 7), (-B24 - 3, -B25 - 5), (B27 + 5, -B27 - 9),
                                  (B24 + 1, 3), (-7, B24 + B16 + 1)]):
        bl = _q((ox + 1, oy + 61), (ox + 401.5, oy + 62.25), (ox + 781, oy + 65.75))
        poly = _q((ox + 21, oy + 31), (ox + 781.25, oy + 33), (ox + 780.5, oy + 75), (ox + 22.5, oy + 73.75))
        rpoly = _q((ox + 11, oy + 11), (ox + 801, oy + 13.5), (ox + 803.75, oy + 401), (ox + 9, oy + 399))
        ln = mk_line("l%d" % k, idx=[None, 70000, B24 + 1, 0, 65536, 255][k], bl=bl, poly=poly,
                     hts=[(820, 400), (70000 * 80 + 5, 6554 * 80), (20, 60), (900000 * 80 + 20, 5), (100, 35), (65536 * 80, 0)][k],
                     text=1, conf=[8000, None, 127875, 24000, None, 0][k])
        l2 = mk_line("m%d" % k, idx=None, bl=_q((ox + 3, oy + 161), (ox + 783, oy + 163)),
                     poly=_q((ox + 3, oy + 131), (ox + 783, oy + 133), (ox + 783, oy + 175), (ox + 3, oy + 173)), hts=(160, 40))
        pages.append(mk_page([mk_region("r1", [ln, l2], typ=0, text=None, poly=rpoly),
                              mk_region("r2", [], poly=_q((ox + 11, oy + 501), (ox + 801, oy + 501), (ox + 801, oy + 901)))],
                             ro=[None, [("r2", 0), ("r1", 70000)]][k % 2], pid=k % 2,
                             size=[(100, 200), (40000000, 60000000), (70001, 65537), (B24 + 1, B27 + 1), (65535, 65536), (1, 1)][k]))
    # 2. many lines in one region, long outlines, long transcriptions
    lines = [mk_line("l%03d" % j, idx=(None if j % 3 else 2 * j), bl=_q((10, 20 * j + 12.5), (500.25, 20 * j + 13)),
                     poly=_q((10, 20 * j), (500, 20 * j + 0.5), (500, 20 * j + 18), (10, 20 * j + 17.75)),
                     hts=(16 * 80 + 5 * (j % 16), 400), text=(None if j % 7 == 3 else j % 8), conf=(None if j % 7 == 3 or j % 2 else (125 * j) % 128001))
             for j in range(300)]
    pages.append(mk_page([mk_region("many", lines, typ=0, text=2)], size=(7000, 600)))
    ring = _q(*([(j + 0.25 * (j % 4), -(j % 5) - 0.5) for j in range(550)] + [(549 - j, 40 + 0.75 * (j % 3)) for j in range(550)]))
    longbl = _q(*[(2 * j, 20 + (j % 2) * 0.5) for j in range(300)])
    pages.append(mk_page([mk_region("long", [mk_line("l1", idx=0, bl=longbl, poly=ring, hts=(820, 400), text=LONG_TEXTS[0], conf=8000),
                                             mk_line("l2", idx=1, hts=(20, 60), text=LONG_TEXTS[1], conf=None)],
                                    typ=1, text=LONG_TEXTS[0], poly=ring)], pid=1))
    return pages


def many_regions_page(n=260):
    """more regions than an 8-bit index addresses; every sixth under a reversed reading order with indices beyond 255, the others
    unlisted.  (Judged at the property level only: the recursive sort of the design cannot order that many regions inside TLC.)"""
    regs = [mk_region("r%03d" % i, [mk_line("r%03d-l" % i, hts=(160, 40), text=(i % 3 if i % 5 else None))] if i % 50 == 0 else [],
                      poly=_q((i, 2 * i), (i + 10.5, 2 * i), (i + 10, 2 * i + 7.25))) for i in range(n)]
    return mk_page(regs, ro=[("r%03d" % i, 1000 - 3 * i) for i in range(n) if i % 6 == 0])


def fine_pages():
    """Pages for the 'fine' inputs (case["jitter"]): coordinates on and around x.5 and x.25 with odd and even, positive and negative
    integer parts; the real object gets them moved by +-2**-jitter (see _pts / oracle_page)."""
    pages = []
    for k, (ox, oy) in enumerate([(0, 0), (1000, -2000), (-3001, 4001), (B16 + 1, B15)]):
        bl = _q((ox + 11.5, oy + 60.5), (ox + 400.5, oy + 61.5), (ox + 780.25, oy + 63.75))
        poly = _q((ox + 20.5, oy + 30), (ox + 780, oy + 33.5), (ox + 779.5, oy + 75.5), (ox + 21.5, oy + 72.5))
        rpoly = _q((ox + 10.5, oy + 10.5), (ox + 801.5, oy + 12.5), (ox + 800.5, oy + 400.25), (ox + 9.75, oy + 399.5))
        pages.append(mk_page([mk_region("r1", [mk_line("l1", idx=0, bl=bl, poly=poly, hts=(820, 400), text=1, conf=8000)],
                                        typ=0, text=1, poly=rpoly)]))
    return pages
