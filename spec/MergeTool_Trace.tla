--------------------------- MODULE MergeTool_Trace ---------------------------
(* A recorded run of the real user_scripts/merge_ocr_results.py main() on real directories (PAGE XML + .logits files written
   with the library, some removed or overwritten with garbage) is accepted iff it is a behaviour of MergeTool from the recorded
   input (cells, extensions, filter list, --min-confidence, --fix-arabic-order): the same exit status, the same files in the
   output directory, and for every written page - read back with PageLayout(file=..) + load_logits, which must succeed - the
   same lines in the same order with the same provenance:

     Tr.out[p].geo            <<engine, page>> whose page id, page size and regions the output page has (<<0, 0>>: nobody's)
     line.k, line.idv         position and id variant, from the line id
     line.ge                  <<engine, page, line>> whose baseline / polygon / heights the line has
     line.tx, lg, ch, co      the cells <<engine, page, line>> of the INPUT whose transcription / logits (content) / character
                              table / logit_coords equal the line's (a list: empty transcriptions are nobody's in particular)
     line.src, lvl, xe        the confidence in the XML: "c" a computed mean of that level, "x" the XML confidence engine xe had,
                              "n" none, "o" anything else

   The order in which the pages were processed is not recorded (os.listdir): TLC looks for ANY order of NextPage that ends in the
   recorded result.  Batch validation idiom of TraceKit (DESIGN.md 3.2); validated with Legacy = TRUE (= the code as it is).   *)
EXTENDS MergeTool, TraceKit
VARIABLE tid
Tr == Traces[tid]

ToCell(c) == [st |-> c.st, cf |-> [k \in 1..Len(c.cf) |-> c.cf[k]], idv |-> c.idv, xc |-> c.xc, tn |-> c.tn]

TInit == /\ tid \in 1..NTraces
         /\ cell = [en \in Eng |-> [p \in Pages |-> ToCell(Tr.cell[en][p])]]
         /\ ext = [p \in Pages |-> Tr.ext[p]]
         /\ flt = [on |-> Tr.flt.on, ids |-> {Tr.flt.ids[i] : i \in 1..Len(Tr.flt.ids)}]
         /\ minc = Tr.minc
         /\ fixar = Tr.fixar
         /\ InitState

Has(toks, t) == \E i \in 1..Len(toks) : toks[i] = t

LineOK(p, o, m, g) == /\ o.k = m.k /\ o.idv = m.idv
                      /\ o.ge = <<g, p, m.k>>
                      /\ Has(o.tx, <<m.tx, p, m.k>>)
                      /\ Has(o.lg, <<m.lg, p, m.k>>)
                      /\ Has(o.ch, <<m.ch, p, m.k>>)
                      /\ Has(o.co, <<m.co, p, m.k>>)
                      /\ o.src = m.rec.src /\ o.lvl = m.rec.lvl /\ o.xe = m.rec.eng

PageOK(p, o, m) == /\ o.xml = m.xml /\ o.lgt = m.lgt
                   /\ m.xml => /\ o.geo = <<m.geo, p>>
                               /\ Len(o.lines) = Len(m.lines)
                               /\ \A i \in 1..Len(m.lines) : LineOK(p, o.lines[i], m.lines[i], m.geo)
                   \* the written .logits file loads against the written XML
                   /\ m.lgt => o.loads

Final == /\ outcome' = Tr.outcome
         /\ Tr.stray = 0                       \* no file in the output directory that is not a page's XML or .logits
         /\ \A p \in Pages : PageOK(p, Tr.out[p], out'[p])

TNext == /\ UNCHANGED tid
         /\ Next
         /\ (pc' = "done") => Final

Progress == Cardinality({p \in Pages : out[p].xml}) + Cardinality({p \in Pages : out[p].lgt}) + Cardinality(skipped)
TAccept == TKMark(tid, Progress, pc = "done")
TPost == TKPost
ASSUME TKReset
=============================================================================
