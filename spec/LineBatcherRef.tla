--------------------------- MODULE LineBatcherRef ---------------------------
(* Refinement: seen from any single input position i, the batching loop of LineBatcher.tla (Variant = "ok") implements
   LineBatcherInd - the unbounded abstraction (a list of any length, any batch composition) whose inductive invariant is proved
   with Apalache.  TLC checks RefinesInd on every bounded configuration of the C07 check, so the unbounded statement is tied to
   the module that trace validation ties to the real process_lines.
   Positions beyond the length of the list (i > Len(w)) do not exist in that behaviour: nothing is demanded for them.      *)
EXTENDS LineBatcher

InPending(i) == \E j \in 1..Len(pending) : pending[j] = i
IdxOf(i) == CHOOSE j \in 1..Len(pending) : pending[j] = i
WritesOf(i) == Cardinality({b \in 1..Len(batches) : \E j \in 1..Len(batches[b].ids) : batches[b].ids[j] = i})
TagOf(i) == IF out[i].rows = <<>> THEN "none"
            ELSE IF \A k \in 1..Len(out[i].rows) : out[i].rows[k].tag = i THEN "own" ELSE "other"
Exists(i) == i <= Len(w)

AbsLine(i) == INSTANCE LineBatcherInd WITH
                 P <- i, Variant <- "ok",
                 len <- Len(pending),
                 inP <- (Exists(i) /\ InPending(i)),
                 r <- (IF Exists(i) /\ InPending(i) THEN IdxOf(i) - 1 ELSE 0),
                 cnt <- (IF Exists(i) THEN WritesOf(i) ELSE 0),
                 tag <- (IF Exists(i) THEN TagOf(i) ELSE "none"),
                 stalled <- (\E b \in 1..Len(batches) : Len(batches[b].ids) = 0)

RefinesInd == \A i \in 1..MaxLines :
                 /\ (~Exists(i) \/ AbsLine(i)!Init)
                 /\ [][~Exists(i) \/ AbsLine(i)!Next]_(AbsLine(i)!vars)
=============================================================================
