"""C10 - line crops (PARTIAL: discrete skeleton only, DESIGN.md section 4 C10 / section 5).

1. TLC checks spec/Cropper.tla on every line of the bounded configuration spaces: the repaired control skeleton of
   crop() returns (deadlock check = "never an error"), blank => Degenerate, height = configured, width clause; on the
   exact-grid family also RowMappingExact / FastEqualsGeneral / ShiftInvariant.  Self-tests: Legacy=TRUE must violate
   BlankOnlyDegenerate, Mut="offsign" must violate FastEqualsGeneral.
2. The SAME configurations are run through the real EngineLineCropper.crop() (get_crop_inputs / fast_remap / cv2.remap
   observed from outside) and every recorded call is validated by TLC against Cropper_Trace: property level = verdict,
   exact level = MODEL-DRIFT only, Legacy=TRUE level = does the modelled defect explain the tree (information only).
3. SESSIONS (history and scale; sampled, not enumerated by TLC): baselines of 2 .. some thousand points (dense polylines across
   64 / 128 / 256 / 512 / 1024 points) are cropped by LONG-LIVED EngineLineCropper / LineCropper objects of several configurations
   one after the other (three interpolation orders, two scales, a configuration used before again, some calls right after a call
   that fails on an out-of-scope line); every call is validated by the same Cropper_Trace - TLC evaluates Degenerate / WidthOK /
   EndsClause on the recorded points themselves (no oracle in Python).  Every recorded call (all families) also carries the corners
   of the coordinate grid: clause 11 = the band starts at the first and ends at the last baseline point (3 px along the chord).
4. ROUND 9.  (a) REPEAT sessions: the same line - the same heights OBJECT (float64 / float32 array, list, list of numpy scalars, tuple),
   on the LineCropper route the same TextLine / PageLayout - is cropped three times by a long-lived cropper at a scale != 1; every call
   is judged against the line's heights as the caller set them, the later calls also against the first crop (same-pixels clause), and
   every recorded call of every family by the new clause 12 `band-height` (first and last row of the coordinate grid (asc+desc)*scale
   apart).  (b) STRICT host environment: two spaces of degenerate lines only (Env = "strict", invariant StrictScope) are run with
   np.errstate(all="raise") and with warnings as errors, every heights container, through crop() and LineCropper.process_page: the
   fallback clause ("a blank image of the configured height, and never an error") is unconditional.
NOT covered: geometric sampling of slanted / curved baselines between the end points, pixel values at fractional positions
(see notes/C10.md).
"""
import re

from .. import cropper_common as K
from ..core import pmap

LEVEL = "model_checking"
TOL = 3          # grey levels allowed between "same pixels" crops (cv2.remap quantises positions to 1/32 px)

INV_SKEL = ["BlankOnlyDegenerate", "HeightConfigured", "WidthClause"]
INV_GRID = INV_SKEL + ["RowMappingExact", "FastEqualsGeneral", "ShiftInvariant"]

CLAUSES = {1: "height", 2: "width-of-returned-array", 3: "pixel-array-shape", 4: "grid-rows", 5: "grid-columns",
           6: "same-pixels", 11: "baseline-ends", 12: "band-height", 7: "exact-width", 8: "exact-path", 9: "exact-outside-zero", 10: "exact-columns"}


def spaces(tier):
    th = tier == "thorough"
    sp = []
    # slanted multi-point baselines: every step vector of the range (chord lengths with all fractional parts)
    sp.append(("slant-main", K.bounds("slant", DXs=[1] + list(range(8, 46 if th else 27)), DYs=list(range(-14 if th else -8, 15 if th else 9)),
                                      Curvs=[-1, 0, 1] if th else [0, 1], Hs=[16, 40] if th else [16])))
    # degenerate shapes: vertical, single pixel, short, zero heights, steep
    sp.append(("slant-degenerate", K.bounds("slant", Ns=[1, 2, 4], DXs=[0, 1, 3, 5, 12], DYs=[-30, -3, 0, 2, 30], Ascs=[0, 12],
                                            Descs=[0, 5], Hs=[16, 32])))
    # the same engine behind the pipeline's LineCropper.process_page (degenerate and ordinary lines)
    sp.append(("linecropper", K.bounds("slant", Ns=[1, 2, 4], DXs=[0, 1, 5, 12, 20], DYs=[-30, 0, 3], Ascs=[0, 12], Descs=[0, 5],
                                       Hs=[16, 48], via="linecropper")))
    # partly outside the page, other heights / scales
    sp.append(("slant-outside", K.bounds("slant", Ns=[2, 4, 5] if th else [2, 4], X0s=[-15, 20], Y0s=[3, 60], DXs=[1, 9, 14, 22, 37] if th else [1, 9, 14, 22],
                                         DYs=[-4, 0, 5] if th else [-4, 5], Curvs=[0, 1] if th else [1], Ascs=[12, 20], Descs=[5, 8], Hs=[16, 32, 48, 64] if th else [16, 48],
                                         Scales=[8, 10, 15])))
    # same pixels: base / shifted together / cut inside the zero margin so that the band leaves the page
    sp.append(("slant-pairs", K.bounds("slant", Ns=[3, 4, 5], X0s=[12], Y0s=[40, 60] if th else [50], DXs=[1, 12, 16, 23], DYs=[-5, 0, 4],
                                       Curvs=[0, 1], Shifts=[0, 7, -16], record_px=True)))
    # exact-grid family
    sp.append(("grid", K.bounds("grid", Ns=[2, 3, 4, 5] if th else [2, 4], X0s=[-3, 6], Y0s=[4, 20], DXs=[2, 20, 21, 22, 23, 24, 30, 36],
                                Ascs=[10, 11, 20], Descs=[4, 5, 10], Hs=[16], Kinds=["rows", "cols"], Shifts=[0, 5, -6],
                                PageH=36, PageW=40, record_px=True)))
    # round 9 - degenerate lines only, cropped in a strict numeric environment of the host process (floating-point errors raised /
    # warnings as errors), every heights container, both entry points: zero heights on ordinary baselines; degenerate shapes
    strict = dict(Env="strict", EnvKinds=["fperr", "warnerr"], HKs=[0, 1, 2, 3], Vias=["engine", "linecropper"])
    sp.append(("strict-zero-heights", K.bounds("slant", Ns=[2, 4, 5] if th else [2, 4], DXs=[5, 12, 31] if th else [5, 12], DYs=[-3, 0, 3],
                                               Ascs=[0], Descs=[0], Hs=[16, 40], Scales=[8, 10, 15] if th else [10], **strict)))
    sp.append(("strict-shapes", K.bounds("slant", Ns=[1, 2, 4], DXs=[0, 1], DYs=[-30, 0, 2], Ascs=[12, 20] if th else [12], Descs=[5],
                                         Hs=[16, 48] if th else [16], Scales=[8, 10, 15] if th else [10], **strict)))
    if th:
        sp.append(("grid-32", K.bounds("grid", Ns=[2, 5], X0s=[-2, 8], Y0s=[10, 30], DXs=[2, 25, 31, 40, 47], Ascs=[24, 20, 42], Descs=[7, 11, 20],
                                       Hs=[32], Kinds=["rows", "cols"], Shifts=[0, 3], PageH=60, PageW=52, record_px=True)))
    return sp


def design(ctx, name, b):
    grid = b["Family"] == "grid"
    inv = (INV_GRID if grid else INV_SKEL) + (["StrictScope"] if b.get("Env") == "strict" else [])
    res = ctx.tlc("Cropper", constants=K.tla_constants(b), invariants=inv, deadlock=True,
                  workers=4, timeout=1500, label="Cropper %s" % name)
    m = re.search(r"Finished computing initial states: (\d+) (?:distinct states? generated|states generated, with (\d+) of them distinct)",
                  res["out"])
    return int(m.group(2) or m.group(1)) if m else -1


def selftests(ctx, spaces_):
    b = dict(spaces_["slant-main"])
    b.update(DXs=list(range(8, 20)), Curvs=[0], Polys=[0])
    ctx.tlc("Cropper", constants=K.tla_constants(b, legacy=True), invariants=INV_SKEL, deadlock=True, workers=4,
            timeout=900, expect_violation="BlankOnlyDegenerate", label="Cropper Legacy=TRUE", coverage=False)
    g = dict(spaces_["grid"])
    g.update(Ns=[2], Polys=[1], Kinds=["rows"])
    ctx.tlc("Cropper", constants=K.tla_constants(g, mut="offsign"), invariants=INV_GRID, deadlock=True, workers=4,
            timeout=900, expect_violation="FastEqualsGeneral", label="Cropper Mut=offsign", coverage=False)


def execute(b):
    cases = K.enumerate_cases(b)
    if b.get("Env") == "strict" and len(cases) <= 3000:      # small spaces of fast fallbacks: forking workers costs more than the calls
        traces = [K.run_case(c) for c in cases]
    else:
        traces = pmap(K.run_case, cases, procs=6)
    if len(b["Shifts"]) > 1:          # "same pixels" families: the crop of the unshifted configuration is the reference
        base = {}
        for c, t in zip(cases, traces):
            if c["shift"] == 0:
                base[(tuple(c["gen"]), c["asc"], c["desc"], c["H"], c["poly"], c["sc"], c["page"]["kind"])] = t
        for c, t in zip(cases, traces):
            if c["shift"] != 0 and c["page"]["kind"] == "smooth":
                t["ref"] = base[(tuple(c["gen"]), c["asc"], c["desc"], c["H"], c["poly"], c["sc"], c["page"]["kind"])]["px"]
                c["ref"] = t["ref"]
    return cases, traces


def _shards(n):
    return max(1, min(5, n // 1200))


def signature(tr, prog):
    n, poly = len(tr["pts"]), tr["poly"]
    if tr["outcome"] != "ok":
        if tr.get("env", "default") != "default":
            return ("exception:strict-environment", "%s raised %s on a degenerate line while the host process runs numpy with %s" % (
                "crop()", tr["outcome"], "np.seterr(all='raise')" if tr["env"] == "fperr" else "warnings as errors"))
        return "exception", "crop() raised %s" % tr["outcome"]
    if prog == 0 and tr["ev"]["inp"] == "raise":
        cls = "other"
        if poly == 0 and n >= 4:
            cls = "cubic-frac>=0.9" if K.frac_high(tr["pts"]) else "cubic-integer-length" if K.integer_length(tr["pts"]) else "other"
        return ("blank-nondegenerate:poly%d:%s" % (poly, cls),
                "get_crop_inputs raised on a non-degenerate line, crop() returned the blank fallback")
    rep = ""
    if tr.get("call", 1) > 1:
        rep = "; crop %d of the same line (heights kept by the caller as %s, now %s/16 instead of [%d, %d])" % (
            tr["call"], tr.get("hk"), tr.get("hafter"), tr["asc"], tr["desc"])
    if prog == 0:
        return "width" + (":repeat" if rep else ""), "width %d of the crop is outside |w - L*H/height| <= 2 + H/height%s" % (tr["ev"]["cwin"], rep)
    if prog == 1:
        return "blank-nondegenerate:poly%d:remap" % poly, "fast_remap raised on a non-degenerate line (path=%s)" % tr["ev"]["path"]
    if prog == 2:
        return "result-kind", "returned array is %s but the calls made imply the opposite" % tr["ev"]["kind"]
    k = prog - 10
    if k == 11:
        return "baseline-ends", ("the band does not run from the first to the last baseline point: corners of the coordinate grid "
                                 "(1/16 px) %s, first point %s, last point %s (%d points)" % (tr["corners"], tr["pts"][0], tr["pts"][-1], n))
    if k == 12:
        return "band-height" + (":repeat" if rep else ""), (
            "first and last row of the coordinate grid are not (asc+desc)*scale = %.1f px apart: corners (1/16 px) %s%s" % (
                (tr["asc"] + tr["desc"]) * tr["sc"] / 10.0, tr["corners"], rep))
    return CLAUSES.get(k, "clause%d" % k) + (":repeat" if rep and k == 6 else ""), "clause '%s' of the returned crop fails (shape %dx%d)%s" % (
        CLAUSES.get(k, k), tr["ev"]["h"], tr["ev"]["w"], rep)


def judge(ctx, name, b, cases, traces, mechanism=False):
    consts = K.tla_constants(b)
    tc = dict(consts, Level="property", Tol=TOL)
    sh = _shards(len(traces))
    acc, rej = ctx.validate("Cropper_Trace", traces, constants=tc, shards=sh, label="Cropper_Trace %s property" % name)
    rejected = {i for i, _ in rej}
    for i, prog in rej:
        sig, what = signature(traces[i], prog)
        ctx.violation({"space": name, "bounds": b, "case": cases[i]}, sig, "%s; %s" % (what, K.label(cases[i])))
        d = ctx.notes.setdefault("violation_signatures", {})
        d["%s:%s" % (name, sig)] = d.get("%s:%s" % (name, sig), 0) + 1
    # detailed model: drift only
    if b["Family"] == "grid":
        before = ctx.traces_validated
        _, rej2 = ctx.validate("Cropper_Trace", traces, constants=dict(consts, Level="exact", Tol=TOL), shards=sh,
                               label="Cropper_Trace %s exact" % name)
        ctx.traces_validated = before
        for i, prog in rej2:
            if i not in rejected:
                ctx.model_drift("%s:%s" % (name, CLAUSES.get(prog - 10, "step%d" % prog)), 1, K.label(cases[i]))
    if mechanism:
        # does the modelled defect (Legacy=TRUE) explain every recorded call?  Information only.
        before = ctx.traces_validated
        cubic = [t for t in traces if t["poly"] == 0]
        nrej = sum(1 for i, _ in rej if traces[i]["poly"] == 0)
        _, rej3 = ctx.validate("Cropper_Trace", cubic, constants=dict(K.tla_constants(b, legacy=True), Level="property", Tol=TOL),
                               shards=_shards(len(cubic)), label="Cropper_Trace %s Legacy=TRUE (poly=0 calls)" % name)
        ctx.traces_validated = before
        ctx.notes.setdefault("legacy_model", {})[name] = {
            "traces": len(cubic), "rejected_by_repaired_model": nrej, "rejected_by_legacy_model": len(rej3),
            "reading": ("the tree behaves like the Legacy=TRUE variant (defect present)" if nrej and not rej3 else
                        "the tree behaves like the repaired model" if not nrej else "neither variant explains all calls")}
    return rej


def run(ctx):
    ctx.rule = ("every baseline of the bounded configuration spaces of Cropper.tla (n points, step vector, parabolic bump, position, "
                "heights, crop height, interpolation order, scale, page shift) run through the real EngineLineCropper.crop(); "
                "non-trivial = non-degenerate line (a real crop is required)")
    ctx.exhaustive = True
    ctx.assume("integer baseline points, 1..5 points, |slope| < 60 degrees for the lines that must be cropped",
               "PARTIAL: only the discrete skeleton is decided (never an error, configured height, blank => degenerate, width within the "
               "Appendix D tolerance, exact-grid row/column mapping, same pixels under a joint shift / partly outside the page on pages with a "
               "zero margin); where the samples of slanted or curved baselines fall and the interpolated pixel values are NOT covered",
               "degenerate = chord < 4 px, zero height, |slope| >= 60 degrees or right-to-left, consecutive points closer than 4 px, "
               "or expected crop width < 2 px",
               "'same pixels' compared within %d grey levels on a smooth page (cv2.remap rounds positions to 1/32 px)" % TOL,
               "sessions (long-lived croppers, dense baselines of up to some thousand points) are sampled, not exhaustive; the first / "
               "last column of the coordinate grid lies within 3 px (along the chord) of the first / last baseline point",
               "a line cropped again (same heights object kept by the caller) is judged against the heights the caller set; first and last "
               "row of the coordinate grid (asc+desc)*scale apart within 1 px",
               "strict host environment (np.errstate(all='raise'), warnings as errors): only the fallback clause, only degenerate lines")
    sp = dict(spaces(ctx.tier))
    selftests(ctx, sp)
    done_selftest = False
    strict_b, strict_cases, strict_traces = None, [], []
    for name, b in sp.items():
        ninit = design(ctx, name, b)
        cases, traces = execute(b)
        if ninit * K.multiplicity(b) != len(cases):
            from ..core import MachineryFailure
            raise MachineryFailure("C10 %s: TLC explored %d configurations (x %d executions each) but the driver enumerated %d" % (
                name, ninit, K.multiplicity(b), len(cases)))
        if b.get("Env") == "strict":          # the strict spaces are validated together (one TLC launch), below
            strict_b = strict_b or b
            strict_cases += [dict(c, space=name) for c in cases]
            strict_traces += traces
            continue
        rej = judge(ctx, name, b, cases, traces, mechanism=(name == "slant-main"))
        rejected = {i for i, _ in rej}
        for i, (c, t) in enumerate(zip(cases, traces)):
            ctx.count(1, (name, i) if t["ev"]["kind"] == "real" and t["ev"]["w"] > 1 else None)
        ctx.sample({"space": name, "trace": {k: v for k, v in traces[len(traces) // 2].items() if k not in ("px", "ref")}}, limit=6)
        if name == "grid" and not done_selftest:
            good = next((t for i, t in enumerate(traces) if i not in rejected and t["px"] and t["ev"]["kind"] == "real"
                         and t["page"]["kind"] == "rows" and t["page"]["ox"] == 0 and min(p[0] for p in t["pts"]) >= 0
                         and t["pts"][0][1] - t["asc"] >= 0 and t["pts"][-1][0] - t["pts"][0][0] >= 16), None)
            if good is not None:
                def corrupt(tr):
                    r = len(tr["px"]) // 2
                    tr["px"][r] = [v + 5 for v in tr["px"][r]]      # one crop row shows another page row
                    return tr
                ctx.selftest_corrupt("Cropper_Trace", good, corrupt, constants=dict(K.tla_constants(b), Level="property", Tol=TOL))
                done_selftest = True
    # strict host environment: degenerate lines only, fallback clause only
    if strict_cases:
        rej = judge(ctx, "strict-degenerate", strict_b, strict_cases, strict_traces)
        for t in strict_traces:
            ctx.count(1, None)
        ctx.notes["strict_environment"] = {"calls": len(strict_cases), "rejected": len(rej),
                                           "environments": sorted({t["env"] for t in strict_traces}),
                                           "fell_back": sum(1 for t in strict_traces if t["ev"]["kind"] == "blank"),
                                           "really_cropped": sum(1 for t in strict_traces if t["ev"]["kind"] == "real")}
        good = next((t for i, t in enumerate(strict_traces) if i not in {j for j, _ in rej} and t["env"] == "fperr"), None)
        if good is not None and ctx.tier == "thorough":
            def escaped(tr):          # the floating-point error escapes crop()
                tr["outcome"] = "exception:FloatingPointError"
                return tr
            ctx.selftest_corrupt("Cropper_Trace", good, escaped, constants=dict(K.tla_constants(strict_b), Level="property", Tol=TOL))
    # sessions: history (long-lived objects, a failing call in between) and scale (dense baselines); sampled, trace-validated only;
    # repeat sessions: the same line (same heights object / TextLine) cropped three times
    sess = K.sessions(ctx.tier, ctx.seed) + K.repeat_sessions(ctx.tier, ctx.seed)
    cases, traces = K.run_sessions(sess)
    sb = K.bounds("slant")
    rej = judge(ctx, "sessions", sb, cases, traces)
    for i, (c, t) in enumerate(zip(cases, traces)):
        ctx.count(1, ("sessions", i) if t["ev"]["kind"] == "real" and t["ev"]["w"] > 1 else None)
    ctx.notes["sessions"] = {"sessions": len(sess), "calls": len(cases), "points_per_baseline": sorted({len(c["pts"]) for c in cases}),
                             "rejected": len(rej), "repeat_sessions": sum(1 for s_ in sess if s_[0].get("keep")),
                             "repeat_calls": sum(1 for c in cases if c.get("keep"))}
    rejs = {j for j, _ in rej}
    good = next((t for i, t in enumerate(traces) if i not in rejs and t.get("call", 1) == 2 and t["ev"]["kind"] == "real"
                 and len(t["corners"]) == 4 and t["sc"] != 10), None)
    if good is not None:
        def rescaled(tr):          # the second crop of the line samples a band scaled once more (top row moved along the normal)
            f = tr["sc"] / 10.0
            for top, bot in ((0, 2), (1, 3)):
                for ax in (0, 1):
                    tr["corners"][top][ax] = int(round(tr["corners"][bot][ax] + (tr["corners"][top][ax] - tr["corners"][bot][ax]) * f))
            return tr
        ctx.selftest_corrupt("Cropper_Trace", good, rescaled, constants=dict(K.tla_constants(sb), Level="property", Tol=TOL))
    good = next((t for i, t in enumerate(traces) if i not in {j for j, _ in rej} and t["ev"]["kind"] == "real"
                 and len(t["pts"]) >= 128 and len(t["corners"]) == 4), None)
    if good is not None:
        def shorten(tr):          # the band stops 8 px before the last baseline point
            tr["corners"][1][0] -= 8 * K.FP
            tr["corners"][3][0] -= 8 * K.FP
            return tr
        ctx.selftest_corrupt("Cropper_Trace", good, shorten, constants=dict(K.tla_constants(sb), Level="property", Tol=TOL))
    ctx.notes["explanation"] = ("TLC exhaustive on Cropper.tla per configuration space (invariants %s, deadlock check); the same "
                                "configurations executed by pero_ocr.core.crop_engine.EngineLineCropper.crop and validated by Cropper_Trace "
                                "(property level; exact level only reported as drift)" % INV_GRID)


def replay(ctx, case):
    b = case["bounds"]
    c = case["case"]
    tr = K.replay_case(c)
    if c.get("ref"):
        tr["ref"] = c["ref"]
    rej = judge(ctx, case["space"], b, [c], [tr])
    ctx.count(1, None)
