------------------------- MODULE LogitsFolder_Trace -------------------------
(* Recorded runs of the real parse_folder.Computator: Tr.events = sequence of
     [op |-> "store", page |-> id tokens]                          first run wrote <xml out>/<id>.xml and <logits out>/<id>.logits
     [op |-> "rebuild", page |-> id tokens, xml |-> tag tokens, logits |-> tag tokens, same |-> BOOLEAN]
                                                                   second run: whose PAGE XML / whose logits the decoder stage saw,
                                                                   same = matrices, character tables, windows, transcriptions and
                                                                   ALTO words equal the first run's of that page
   Accepted iff it is a behaviour of LogitsFolder with Naming = "append" and every rebuild reports same = TRUE.           *)
EXTENDS LogitsFolder, TraceKit
VARIABLES tid, l
Tr == Traces[tid]
TInit == Init /\ tid \in 1..NTraces /\ l = 1
Ev == Tr.events[l]
TNext == /\ UNCHANGED tid /\ l <= Len(Tr.events) /\ l' = l + 1
         /\ \/ Ev.op = "store" /\ Store(Ev.page)
            \/ /\ Ev.op = "rebuild" /\ Rebuild(Ev.page)
               /\ got' = <<Ev.page, Ev.xml, Ev.logits>> /\ Ev.same
TAccept == TKMark(tid, l - 1, l = Len(Tr.events) + 1)
TPost == TKPost
ASSUME TKReset
=============================================================================
