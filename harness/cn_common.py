"""C14 helper: replay addition histories on the real pero_ocr.decoding.confusion_networks functions and record
them in the ConfusionNet_Trace format (integers only: weights in thousandths, normalised weights in 1/10000,
column sums in ppm, path probabilities scaled by the product of the column sums * 1000)."""
import copy
import itertools
import math

from pero_ocr.decoding import confusion_networks as CN
from pero_ocr.decoding.bag_of_hypotheses import BagOfHypotheses

from .core import pmap

LETTERS = "abcdefgh"
MAX_PATHS = 400
MAX_DEN = 2000000


def sym_id(c):
    if c is None:
        return 0
    if isinstance(c, str) and len(c) == 1 and c in LETTERS:
        return LETTERS.index(c) + 1
    return 99          # a symbol that was never put in: outside Arcs, the trace is rejected as malformed


def text_of(h):
    return "".join(LETTERS[s - 1] for s in h)


def ids_of(seq):
    return [sym_id(c) for c in seq]


def strings(alphabet, maxlen):
    out = []
    for n in range(maxlen + 1):
        out += [list(p) for p in itertools.product(range(1, alphabet + 1), repeat=n)]
    return out


def _milli(x):
    if not isinstance(x, (int, float)) or not math.isfinite(x) or abs(x) > 2e6:
        return -1
    return int(round(x * 1000))


def project_net(cn, scale=1000):
    """list of dicts -> list of columns, column = sorted list of [symbol id, weight in 1/scale]"""
    out = []
    for col in cn:
        out.append(sorted([sym_id(k), (_milli(v) if scale == 1000 else _fixed(v, scale))] for k, v in col.items()))
    return out


def _fixed(x, scale):
    if not isinstance(x, (int, float)) or not math.isfinite(x) or abs(x) * scale > 2e9:
        return -1
    return int(round(x * scale))


def score_of(hyp, vw, lw):
    return hyp["vis"] ** vw * (hyp["lm"] ** lw if hyp["lm"] else 1)


def _final_part(net, normed=None):
    """normalize_cn / sorted_cn_paths / best_cn_path on (a copy of) the last network; normed: the normalised network as the
    API itself returned it (produce_cn_from_boh with normalize=True), used instead of a direct normalize_cn call"""
    fin = {"outcome": "ok", "norm": [], "nsum": [], "has_paths": False, "pscale": 0, "paths": [], "best": []}
    try:
        sums = [sum(col.values()) for col in net]
        norm = CN.normalize_cn(copy.deepcopy(net)) if normed is None else normed
        fin["norm"] = project_net(norm, 10000)
        fin["nsum"] = [_fixed(sum(col.values()), 1000000) for col in norm]
        fin["best"] = ids_of(CN.best_cn_path(copy.deepcopy(norm)))
        den = 1
        combos = 1
        for s, col in zip(sums, net):
            den *= max(1, int(round(s)))
            combos *= len(col)
        if net and combos <= MAX_PATHS and den <= MAX_DEN:
            fin["has_paths"] = True
            fin["pscale"] = den
            fin["paths"] = [{"s": ids_of(s), "p": _fixed(p, den * 1000)} for s, p in CN.sorted_cn_paths(copy.deepcopy(norm))]
    except Exception as ex:     # part of the observation
        fin["outcome"] = "exception:" + type(ex).__name__
    return fin


def _single_part(first, mode, vw, lw):
    single = {"outcome": "ok", "best": [], "paths": []}
    try:
        if mode == "boh":
            boh = BagOfHypotheses()
            boh.add(text_of(first["h"]), math.log(first["vis"]), math.log(first["lm"]) if first["lm"] else None)
            net = CN.produce_cn_from_boh(boh, visual_weight=float(vw), lm_weight=float(lw), normalize=True)
        else:
            net = CN.normalize_cn(CN.add_hypothese([], text_of(first["h"]), float(first["vis"])))
        single["best"] = ids_of(CN.best_cn_path(copy.deepcopy(net)))
        single["paths"] = [{"s": ids_of(s), "p": _fixed(p, 1000000)} for s, p in CN.sorted_cn_paths(copy.deepcopy(net))]
    except Exception as ex:
        single["outcome"] = "exception:" + type(ex).__name__
    return single


def replay_history(case):
    """case = {"mode": "add"|"boh", "hyps": [{"h": [..], "vis": int, "lm": int}], "vw": int, "lw": int}"""
    mode, hyps, vw, lw = case["mode"], case["hyps"], case["vw"], case["lw"]
    rec = {"mode": mode, "hyps": hyps, "vw": vw, "lw": lw, "outcome": [], "nets": []}
    net = []
    last_ok = []
    for j, hyp in enumerate(hyps):
        try:
            if mode == "add":
                # the network is handed on exactly as a caller would: the returned object goes into the next call
                net = CN.add_hypothese(net, text_of(hyp["h"]), float(score_of(hyp, vw, lw)))
            else:
                boh = BagOfHypotheses()
                for g in hyps[:j + 1]:
                    boh.add(text_of(g["h"]), math.log(g["vis"]), math.log(g["lm"]) if g["lm"] else None)
                net = CN.produce_cn_from_boh(boh, visual_weight=float(vw), lm_weight=float(lw), normalize=False)
            rec["nets"].append(project_net(net))
            rec["outcome"].append("ok")
            last_ok = copy.deepcopy(net)
        except Exception as ex:
            rec["nets"].append([])
            rec["outcome"].append("exception:" + type(ex).__name__)
            break
    while len(rec["outcome"]) < len(hyps):
        rec["nets"].append([])
        rec["outcome"].append("not-run")
    normed = None
    if mode == "boh" and rec["outcome"] and all(o == "ok" for o in rec["outcome"]):
        # the bag API normalises by itself: take ITS normalised network (not a separate normalize_cn call)
        try:
            boh = BagOfHypotheses()
            for g in hyps:
                boh.add(text_of(g["h"]), math.log(g["vis"]), math.log(g["lm"]) if g["lm"] else None)
            normed = CN.produce_cn_from_boh(boh, visual_weight=float(vw), lm_weight=float(lw), normalize=True)
        except Exception:
            normed = None
    rec["fin"] = _final_part(last_ok, normed)
    rec["single"] = _single_part(hyps[0], mode, vw, lw)
    return rec


def run_histories(cases, procs=6):
    return pmap(replay_history, cases, procs=procs)


def add_histories(alphabet, maxlen, adds, scores):
    """every history of exactly `adds` additions (shorter histories are their prefixes)"""
    opts = [{"h": h, "vis": s, "lm": 0} for h in strings(alphabet, maxlen) for s in scores]
    for combo in itertools.product(opts, repeat=adds):
        yield {"mode": "add", "hyps": [dict(c) for c in combo], "vw": 1, "lw": 1}


def boh_histories(alphabet, maxlen, adds, vis, lms, vw, lw):
    opts = [{"h": h, "vis": v, "lm": l} for h in strings(alphabet, maxlen) for v in vis for l in lms]
    for combo in itertools.product(opts, repeat=adds):
        yield {"mode": "boh", "hyps": [dict(c) for c in combo], "vw": vw, "lw": lw}
