------------------------- MODULE ErrorSummary_Trace -------------------------
(* A recorded run of the real pero_ocr.error_summary (ErrorsSummary.from_lists per line, ErrorsSummary.aggregate per group of
   lines, ErrorsSummary.aggregate over the aggregates) is accepted iff it is a behaviour of ErrorSummary with the recorded lines
   and grouping, and every summary the code produced shows the values the model holds.  Events (Tr.events):

     e = "add"     from_lists(ref, hyp): `item` = the projection of the returned summary, `al` = what levenshtein_alignment(hyp, ref)
                   returns (pairs [hyp symbol, ref symbol], 0 = None; only a WITNESS: if it is a minimum-cost alignment and the item
                   is its summary the step is taken with it, otherwise every minimum-cost alignment is tried - the code's
                   tie-breaks are not pinned);  `exc` = class name of an exception that left the call ("" = none)
     e = "close"   aggregate(group) returned `agg`
     e = "finish"  aggregate(parts) returned `total`; `eq[i][j]` = what `==` answers on the ending_errors of the i-th and j-th of
                   items ++ parts ++ <<total>>; `items` / `parts` = the arguments projected AGAIN after all the calls
   (the loop iterations of the last call are not observable one by one: StartMerge / MergeStep are taken silently before "finish")

   Projection of a summary o:  o.n = <<lines, ref_len, errors, subs, inss, dels>>, o.b = the six ending counters in the order
   correct, pure del, mixed del, pure ins, mixed ins, pure sub, o.conf = the non-zero cells <<ref, hyp, count>>,
   o.ppm = round(error_rate * 10^6) (-1 = inf), o.str = the numbers of str(summary): <<hundredths of a per cent (-1 = inf),
   errors, ref_len, sub, ins, del>>.                                                                                        *)
EXTENDS ErrorSummary, TraceKit
VARIABLES tid, ei
Tr == Traces[tid]
NEv == Len(Tr.events)
Ev == Tr.events[ei + 1]

Abs(x) == IF x < 0 THEN -x ELSE x
ConfSet(c) == {<<p[1], p[2], c[p]>> : p \in {q \in Cells : c[q] > 0}}
RecConf(v) == {<<v[n][1], v[n][2], v[n][3]>> : n \in 1..Len(v)}
\* error_rate is a float: 1 ppm of tolerance (round-off is 1e-10 ppm); the percentage of __str__ has two decimals, either
\* neighbour is accepted at an exact tie
RateOK(ppm, r) == IF r[2] = 0 THEN ppm = -1 ELSE ppm >= 0 /\ Abs(ppm * r[2] - 1000000 * r[1]) <= r[2]
PctOK(h, r) == IF r[2] = 0 THEN h = -1 ELSE h >= 0 /\ 2 * Abs(h * r[2] - 10000 * r[1]) <= r[2]
SummOK(o, s) ==
  /\ o.n = <<s.lines, s.ref_len, s.errors, s.subs, s.inss, s.dels>>
  /\ o.b = <<s.bnd.c, s.bnd.pd, s.bnd.md, s.bnd.pi, s.bnd.mi, s.bnd.ps>>
  /\ \A n \in 1..Len(o.conf) : Len(o.conf[n]) = 3
  /\ RecConf(o.conf) = ConfSet(s.conf) /\ Len(o.conf) = Cardinality(ConfSet(s.conf))
  /\ RateOK(o.ppm, s.rate)
  /\ Len(o.str) = 6 /\ PctOK(o.str[1], s.rate)
  /\ <<o.str[2], o.str[3], o.str[4], o.str[5], o.str[6]>> = <<s.errors, s.ref_len, s.subs, s.inss, s.dels>>

TInit == /\ tid \in 1..NTraces /\ ei = 0 /\ Init

PairsOf(v) == [n \in 1..Len(v) |-> <<v[n][1], v[n][2]>>]
Witness(ev) == /\ \A n \in 1..Len(ev.al) : Len(ev.al[n]) = 2
               /\ ED!GoodAlignment(PairsOf(ev.al), ev.hyp, ev.ref, Unit)
               /\ ~Raises(PairsOf(ev.al))
               /\ SummOK(ev.item, FromLists(ev.ref, ev.hyp, PairsOf(ev.al)))
TAdd == /\ Ev.e = "add"
        /\ IF Ev.exc = "" /\ Witness(Ev) THEN AddWith(Ev.ref, Ev.hyp, PairsOf(Ev.al)) ELSE Add(Ev.ref, Ev.hyp)
        /\ IF Ev.exc = "" THEN outcome' = "running" /\ SummOK(Ev.item, items'[Len(items')])
                          ELSE outcome' = Ev.exc
TClose == /\ Ev.e = "close" /\ Close
          /\ SummOK(Ev.agg, parts'[Len(parts')])
TSilent == /\ Ev.e = "finish" /\ (StartMerge \/ MergeStep)
Bnds == [n \in 1..(Len(items) + Len(parts) + 1) |->
           IF n <= Len(items) THEN items[n].bnd ELSE IF n <= Len(items) + Len(parts) THEN parts[n - Len(items)].bnd ELSE Total.bnd]
TFinish == /\ Ev.e = "finish" /\ Finish
           /\ SummOK(Ev.total, Total)
           /\ Len(Ev.items) = Len(items) /\ \A n \in 1..Len(items) : SummOK(Ev.items[n], items[n])
           /\ Len(Ev.parts) = Len(parts) /\ \A n \in 1..Len(parts) : SummOK(Ev.parts[n], parts[n])
           /\ Len(Ev.eq) = Len(Bnds)
           /\ \A a \in 1..Len(Bnds) : /\ Len(Ev.eq[a]) = Len(Bnds)
                                      /\ \A b \in 1..Len(Bnds) : Ev.eq[a][b] = BEq(Bnds[a], Bnds[b])

TNext == /\ UNCHANGED tid
         /\ ei < NEv
         /\ \/ (TAdd \/ TClose \/ TFinish) /\ ei' = ei + 1
            \/ TSilent /\ ei' = ei

TAccept == TKMark(tid, ei, ei = NEv /\ pc = "done")
TPost == TKPost
ASSUME TKReset
=============================================================================
