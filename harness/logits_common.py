"""Shared by the C09 driver: abstract layouts of spec/LogitsStore.tla <-> real pero_ocr PageLayout objects with real
scipy sparse logit matrices, character tables and frame windows; an interpreter that replays operation sequences
(Save / SaveLegacy / Load / Dense) on the real code and records the projection after every call."""
import itertools
import os
import pickle
import random

import numpy as np
import scipy.sparse as sp
from scipy.special import logsumexp

from pero_ocr.core.layout import PageLayout, RegionLayout, TextLine

NONE = 0
NONENONE = 1000
BADTAG = 99
BADVAL = 1000003
IDS = ["x", "y", "z"]
BASE = {"x": 1, "y": 2, "z": 3}
RESERVED = ("line_characters", "logit_coords")


# ------------------------------------------------------------------------------------------ concrete values of the tags
def make_universe(seed, tags=(1, 2, 3, 11, 12, 13)):
    """tag -> small integer matrix (1/8 units, 0 = pruned), character table, frame window; shapes, sparsity and dtype seeded.
    No stored entry is 0.0; matrices are pairwise different; one has an all-pruned row, one a single row."""
    rng = random.Random(seed)
    mats, chars, coords = {}, {}, {}
    alphabet = ["a", "b", "c", "é", " ", "\U0001F600", "ש", "'", "\\", "ẞ"]
    seen = set()
    for n, t in enumerate(tags):
        while True:
            rows = 1 if n == 1 else rng.randint(1, 4)
            cols = 3 if n in (0, 1, 3, 4) else rng.randint(2, 4)
            dens = rng.choice([0.3, 0.6, 0.9])
            m = [[(rng.choice([-1, 1]) * rng.randint(1, 40)) if rng.random() < dens else 0 for _ in range(cols)] for _ in range(rows)]
            if n == 0 and rows > 1:
                m[rng.randrange(rows)] = [0] * cols            # an all-pruned row
            if n == 2:
                m[rng.randrange(rows)][rng.randrange(cols)] = rng.choice([-1, 1]) * TINY      # a stored logit of magnitude 3e-9
            if n == 3:
                # float32 matrix with a very confident frame (logit +30) next to a fully pruned frame (all entries at the
                # -80 floor): 110 apart, beyond what float32 exp() can represent unless each frame is normalised on its own
                if rows < 2:
                    m.append([0] * cols)
                    rows += 1
                m[0] = [0] * cols
                m[rows - 1][rng.randrange(cols)] = 240
            key = repr(m)
            if key not in seen and any(v for r in m for v in r):
                seen.add(key)
                break
        mats[t] = m
        chars[t] = rng.sample(alphabet, cols - 1) + ["~%d" % t]      # distinct tables (the blank carries the tag)
        coords[t] = [t, t + rng.randint(1, 9)]
    # "any charset": the tables of the first two lines of a layout (and of the first two "older" values) hold multi-character
    # symbols and differ only in where the symbol boundaries are - their concatenations are equal ("abc~q"), the tables are not
    for a, b, blank in ((0, 1, "~q"), (3, 4, "~r")):
        if len(tags) > b:
            chars[tags[a]] = ["a", "bc", blank]
            chars[tags[b]] = ["ab", "c", blank]
    dtypes = {t: (np.float32 if i % 2 else np.float64) for i, t in enumerate(tags)}
    return {"mats": mats, "chars": chars, "coords": coords, "dtypes": {t: np.dtype(d).name for t, d in dtypes.items()}}


TINY = 77            # abstract entry rendered as the stored logit +-3e-9: stored, not exactly 0.0, hence neither pruned nor floored
TINY_REAL = 3e-9


SCALE_OFF = 20       # spec/LogitsStore.tla ScaleOff: tag t + 20 = the matrix of tag t after `line.logits *= 2` (exact: a power of two)
PATH_VARIANTS = ("abs", "bare", "rel", "dot")      # how a driver spells the path of the logits file (round 9)
PV_DOC = {"abs": "absolute path", "bare": "bare file name, working directory = the directory of the file",
          "rel": "relative path with a directory part", "dot": "./name in the working directory"}


def real_matrix(u, t):
    if t > SCALE_OFF and t not in u["mats"]:
        m = real_matrix(u, t - SCALE_OFF)
        m *= 2
        return m
    m = np.array(u["mats"][t], dtype=np.float64)
    arr = m / 8
    arr[m == TINY] = TINY_REAL
    arr[m == -TINY] = -TINY_REAL
    return sp.csc_matrix(arr.astype(np.dtype(u["dtypes"][t])))


# ------------------------------------------------------------------------------------------ abstract <-> real
def build_layout(lines, u, name, ctor_defaults=False):
    """lines = [{"id", "lg", "ch", "co"}]; spread over regions (first half / empty region / second half).
    Default: the three components are assigned as attributes after construction, so the abstract state is realised whatever
    the constructor does with its arguments.  ctor_defaults=True: a component that is missing in the abstract state is simply
    not passed to the constructor (what user code does) and nothing is assigned afterwards."""
    page = PageLayout(id=name, page_size=(10, 10))
    cut = (len(lines) + 1) // 2
    groups = [lines[:cut], [], lines[cut:]]
    for g, part in enumerate(groups):
        reg = RegionLayout("%s-r%d" % (name, g), np.zeros((4, 2)))
        for l in part:
            co = None if l["co"] == NONE else ([None, None] if l["co"] == NONENONE else list(u["coords"][l["co"]]))
            lg = None if l["lg"] == NONE else real_matrix(u, l["lg"])
            ch = None if l["ch"] == NONE else list(u["chars"][l["ch"]])
            if ctor_defaults:
                kw = {k: v for k, v in (("logits", lg), ("characters", ch), ("logit_coords", co)) if v is not None}
                reg.lines.append(TextLine(id=l["id"], **kw))
            else:
                line = TextLine(id=l["id"])
                line.logits, line.characters, line.logit_coords = lg, ch, co
                reg.lines.append(line)
        page.regions.append(reg)
    return page


def _tag_matrix(m, u):
    if m is None:
        return NONE
    try:
        if not sp.issparse(m):
            return BADTAG
        for t in list(u["mats"]) + [t + SCALE_OFF for t in u["mats"] if t < SCALE_OFF]:
            r = real_matrix(u, t)
            if m.shape == r.shape and m.dtype == r.dtype and m.format == r.format and m.nnz == r.nnz \
                    and np.array_equal(m.toarray(), r.toarray()):
                return t
    except Exception:
        pass
    return BADTAG


def _tag_chars(c, u):
    if c is None:
        return NONE
    for t, ref in u["chars"].items():
        if isinstance(c, list) and c == ref:
            return t
    return BADTAG


def _tag_coords(c, u):
    if c is None:
        return NONE
    try:
        if list(c) == [None, None]:
            return NONENONE
        for t, ref in u["coords"].items():
            if list(c) == ref:
                return t
    except Exception:
        pass
    return BADTAG


def proj_layout(page, u):
    return [{"id": l.id if isinstance(l.id, str) else "<bad>", "lg": _tag_matrix(l.logits, u), "ch": _tag_chars(l.characters, u),
             "co": _tag_coords(l.logit_coords, u)} for l in page.lines_iterator()]


def proj_store(obj, u):
    """content of a slot, read with pickle alone: (present, legacy, entries)"""
    if obj is None:
        return False, False, []
    d = pickle.loads(obj) if isinstance(obj, bytes) else obj
    if not isinstance(d, dict):
        return True, False, [{"id": "<not a dict>", "lg": BADTAG, "ch": BADTAG, "co": BADTAG}]
    legacy = not any(k in d for k in RESERVED)
    ents = []
    for k, v in d.items():
        if k in RESERVED:
            continue
        if legacy:
            ents.append({"id": k, "lg": _tag_matrix(v, u), "ch": NONE, "co": NONE})
        else:
            ch = d.get("line_characters", {})
            co = d.get("logit_coords", {})
            ents.append({"id": k if isinstance(k, str) else "<bad>", "lg": _tag_matrix(v, u),
                         "ch": _tag_chars(ch[k], u) if k in ch else BADTAG, "co": _tag_coords(co[k], u) if k in co else BADTAG})
    return True, legacy, ents


def _fix8(a):
    out = []
    for row in np.asarray(a):
        r = []
        for v in row:
            f = float(v) * 8
            if 0 < abs(float(v)) < 1e-6:
                r.append(TINY if v > 0 else -TINY)
            else:
                r.append(int(f) if np.isfinite(f) and f.is_integer() and abs(f) < 2 ** 30 else BADVAL)
        out.append(r)
    return out


def _e9(x):
    x = float(x)
    if not np.isfinite(x):
        return 2 ** 30
    return int(min(round(abs(x) * 1e9), 2 ** 30))


_WORKDIR = {"path": None}


def set_workdir(path):
    _WORKDIR["path"] = path


def run_case(case):
    """case = {"A": lines, "B": lines, "ops": [[op, L, k, ok, i, fl], ...], "universe": u}.
    An op whose precondition does not hold in the real world (slot never written, line without logits) is skipped."""
    u = case["universe"]
    u = {"mats": {int(k): v for k, v in u["mats"].items()}, "chars": {int(k): v for k, v in u["chars"].items()},
         "coords": {int(k): v for k, v in u["coords"].items()}, "dtypes": {int(k): v for k, v in u["dtypes"].items()}}
    tr = {"A": case["A"], "B": case["B"], "events": [], "outcome": "ok"}
    # the logits file lives in a directory of this process; case["pv"] = [spelling used by Save, spelling used by Load]:
    # absolute, bare file name (working directory = that directory), relative with a directory part (working directory = its
    # parent), "./name".  Default: absolute for both (what the check did up to round 8).
    pdir = os.path.join(_WORKDIR["path"], "p%d.out 1" % os.getpid())
    os.makedirs(pdir, exist_ok=True)
    path = os.path.join(pdir, "lg.pkl")
    if os.path.exists(path):
        os.remove(path)
    pv = list(case.get("pv") or ["abs", "abs"])
    start_dir = os.getcwd()

    def spelled(v):
        """-> (working directory, file name as passed to the real code)"""
        if v == "bare":
            return pdir, "lg.pkl"
        if v == "rel":
            return os.path.dirname(pdir), os.path.join(os.path.basename(pdir), "lg.pkl")
        if v == "dot":
            return pdir, os.path.join(".", "lg.pkl")
        return start_dir, path

    handed = {}          # (layout name, line object id) -> arrays earlier Dense calls returned
    slot = {"bytes": None}
    try:
        cd = bool(case.get("ctor_defaults"))
        lay = {"A": build_layout(case["A"], u, "A", ctor_defaults=cd), "B": build_layout(case["B"], u, "B", ctor_defaults=cd)}
        # (constructor-default cases: what the constructor made of an omitted component is part of the observation and is
        #  judged by the trace specification through the layouts recorded after the first call)
        if not cd and (proj_layout(lay["A"], u) != case["A"] or proj_layout(lay["B"], u) != case["B"]):
            tr["outcome"] = "harness:build-mismatch"
            return tr

        def content(k):
            if k == "bytes":
                return slot["bytes"]
            if not os.path.exists(path):
                return None
            with open(path, "rb") as fh:
                return fh.read()

        for op, L, k, ok, i, fl in case["ops"]:
            ev = {"op": op, "L": L, "k": k, "ok": bool(ok), "i": i, "fl": fl, "status": "ok", "present": False, "legacy": False,
                  "ents": [], "obs": [], "lse": 0, "shift": 0, "tok": 0}
            if op == "Load" and content(k) is None:
                continue
            if op in ("Dense", "Rescale", "Scribble"):
                flat = list(lay[L].lines_iterator())
                if i > len(flat) or flat[i - 1].logits is None:
                    continue
                if op == "Scribble" and not handed.get((L, i)):
                    continue
                if op == "Rescale" and _tag_matrix(flat[i - 1].logits, u) == BADTAG:
                    continue
            if k == "file" and op in ("Save", "Load"):
                ev["pv"] = pv[0 if op == "Save" else 1]
            try:
                if op == "Save":
                    if k == "file":
                        wd, name = spelled(ev["pv"])
                        os.chdir(wd)
                        try:
                            lay[L].save_logits(name, missing_line_logits_ok=bool(ok))
                        finally:
                            os.chdir(start_dir)
                    else:
                        slot["bytes"] = lay[L].save_logits_bytes(missing_line_logits_ok=bool(ok))
                elif op == "SaveLegacy":
                    with open(path, "wb") as fh:      # what an old version wrote: a dictionary of matrices only
                        pickle.dump({l.id: l.logits for l in lay[L].lines_iterator() if l.logits is not None}, fh, protocol=4)
                elif op == "Load":
                    if k == "file":
                        wd, name = spelled(ev["pv"])
                        os.chdir(wd)
                        try:
                            lay[L].load_logits(name)
                        finally:
                            os.chdir(start_dir)
                    else:
                        lay[L].load_logits(slot["bytes"])
                elif op == "Rescale":
                    # the caller edits the stored logits in place (temperature scaling): the matrix object stays the same
                    line = list(lay[L].lines_iterator())[i - 1]
                    f = 0.5 if _tag_matrix(line.logits, u) > SCALE_OFF else 2.0
                    if fl == 0:
                        line.logits *= f
                    else:
                        line.logits.data *= f
                elif op == "Scribble":
                    # the caller post-processes, in place, the arrays it was handed by earlier calls (v -> 1/8 - v: no fixed point
                    # on the 1/8 grid)
                    for a in handed[(L, i)]:
                        if isinstance(a, np.ndarray) and a.flags.writeable:
                            a *= -1
                            a += 0.125
                elif op == "Dense":
                    line = list(lay[L].lines_iterator())[i - 1]
                    if fl == 80:
                        dense = line.get_dense_logits()
                        full = line.get_full_logprobs()
                    else:
                        dense = line.get_dense_logits(zero_logit_value=-fl)
                        full = line.get_full_logprobs(zero_logit_value=-fl)
                    ev["obs"] = _fix8(dense)
                    handed.setdefault((L, i), []).extend([dense, full])
                    if dense.size:
                        d64 = np.asarray(dense, dtype=np.float64)
                        f64 = np.asarray(full, dtype=np.float64)
                        if f64.shape != d64.shape:
                            ev["lse"] = ev["shift"] = 2 ** 30
                        else:
                            # tolerance scaled to the precision of the matrix' own dtype (float32 logits: measured 3.8e-6, accepted 1e-2)
                            scale = 1.0 if np.asarray(full).dtype == np.float64 else 1e-4
                            ev["lse"] = _e9(np.max(np.abs(logsumexp(f64, axis=1))) * scale)
                            diff = f64 - d64
                            ev["shift"] = _e9(np.max(diff.max(axis=1) - diff.min(axis=1)) * scale)
            except Exception as ex:
                ev["status"] = "error"
                ev["error"] = "%s: %s" % (type(ex).__name__, str(ex)[:120])
            present, legacy, ents = proj_store(content(k), u)
            ev["present"], ev["legacy"], ev["ents"] = present, legacy, ents
            ev["A"] = proj_layout(lay["A"], u)
            ev["B"] = proj_layout(lay["B"], u)
            tr["events"].append(ev)
    except Exception as ex:
        tr["outcome"] = "exception:" + type(ex).__name__
        tr["error"] = str(ex)[:200]
    finally:
        os.chdir(start_dir)
        if os.path.isdir(pdir):
            for f in os.listdir(pdir):
                os.remove(os.path.join(pdir, f))
    return tr


# ------------------------------------------------------------------------------------------ layout spaces
def line_variants(lid, full_only=False, old=False):
    t = BASE[lid] + (10 if old else 0)
    if full_only:
        return [{"id": lid, "lg": t, "ch": t, "co": t}]
    if old:
        return [{"id": lid, "lg": t, "ch": t, "co": t}, {"id": lid, "lg": NONE, "ch": t, "co": t}]
    return [{"id": lid, "lg": lg, "ch": ch, "co": co} for lg in (t, NONE) for ch in (t, NONE) for co in (t, NONENONE, NONE)]


def layouts(max_lines, old=False, full_only=False, ids=IDS):
    out = []
    for n in range(max_lines + 1):
        for seq in itertools.permutations(ids, n):
            for combo in itertools.product(*[line_variants(i, full_only=full_only, old=old) for i in seq]):
                out.append([dict(l) for l in combo])
    return out


# ------------------------------------------------------------------------------------------ composite: PAGE XML + logits -> outputs
COMPOSITE_LETTERS = ["a", "b", "c", " "]


def composite_universe(seed, tags=(1, 2, 3)):
    """CTC-like matrices (frames x (letters + blank), 1/8 units, pruned = 0): each spells a seeded text over a, b, c, blank-separated"""
    rng = random.Random(seed * 31 + 5)
    mats, chars, coords, texts = {}, {}, {}, {}
    nb = len(COMPOSITE_LETTERS)
    for t in tags:
        while True:
            n = rng.randint(1, 5)
            txt = "".join(rng.choice("abc") if (k % 3 != 2 or k == n - 1) else rng.choice("abc ") for k in range(n))
            # distinct lengths: the frame window [0, 2n+1] is how a line's window tag is recognised in the projection
            if txt not in texts.values() and "  " not in txt and txt == txt.strip() and \
                    all(len(txt) != len(o) for o in texts.values()):
                break
        rows = [[0] * nb + [-1]]
        for ch in txt:
            r = [0] * (nb + 1)
            r[COMPOSITE_LETTERS.index(ch)] = -rng.randint(1, 4)
            if rng.random() < 0.5:
                r[rng.randrange(nb + 1)] = r[rng.randrange(nb + 1)] or -rng.randint(24, 40)
            rows.append(r)
            rows.append([0] * nb + [-rng.randint(1, 3)])
        mats[t], texts[t] = rows, txt
        chars[t] = COMPOSITE_LETTERS + ["~%d" % t]
        coords[t] = [0, len(rows)]
    return {"mats": mats, "chars": chars, "coords": coords, "dtypes": {t: "float64" if t % 2 else "float32" for t in tags},
            "texts": texts}


def _digest(obj):
    import hashlib
    import json
    return int(hashlib.sha1(json.dumps(obj, sort_keys=True).encode("utf-8")).hexdigest()[:7], 16)


def run_composite(case):
    """case = {"ids": [line ids], "k": "file"|"bytes", "ver": 1|2, "via": "string"|"ctor", "universe": composite universe}.
    Original layout O (geometry, transcriptions, logits) -> PAGE XML + saved logits -> rebuilt layout R; both are re-decoded by
    the real PageDecoder(GreedyDecoder) and exported to ALTO; the outputs are recorded as Observe events."""
    import lxml.etree as ET
    from pero_ocr.core.layout import PAGEVersion
    from pero_ocr.decoding.decoders import GreedyDecoder, BLANK_SYMBOL
    from pero_ocr.document_ocr.page_parser import PageDecoder
    u = case["universe"]
    u = {k: ({int(t): v for t, v in d.items()} if isinstance(d, dict) else d) for k, d in u.items()}
    ids = case["ids"]
    A = [{"id": i, "lg": BASE[i], "ch": BASE[i], "co": BASE[i]} for i in ids]
    tr = {"A": A, "B": [{"id": i, "lg": NONE, "ch": NONE, "co": NONE} for i in ids], "events": [], "outcome": "ok"}
    path = os.path.join(_WORKDIR["path"], "cmp_%d" % os.getpid())
    # round 9: case["pv"] = how the paths of the PAGE XML and logits files are spelled for the real code (default absolute)
    pv = case.get("pv") or "abs"
    start_dir = os.getcwd()
    wd, stem = {"bare": (os.path.dirname(path), os.path.basename(path)),
                "dot": (os.path.dirname(path), os.path.join(".", os.path.basename(path))),
                "rel": (os.path.dirname(os.path.dirname(path)),
                        os.path.join(os.path.basename(os.path.dirname(path)), os.path.basename(path)))}.get(pv, (start_dir, path))
    try:
        orig = build_layout(A, u, "O")
        y = 20
        for l in orig.lines_iterator():
            t = BASE[l.id]
            l.baseline = np.array([[10.0, y], [60.0 + 10 * t, y + 1.0]])
            l.polygon = np.array([[10.0, y - 12], [60.0 + 10 * t, y - 11], [60.0 + 10 * t, y + 5], [10.0, y + 4]])
            l.heights = [12.0, 4.0]
            l.transcription = u["texts"][t]
            y += 25
        orig.page_size = (200, 150)
        for r in orig.regions:
            r.polygon = np.array([[5, 5], [140, 5], [140, 190], [5, 190]])
        if proj_layout(orig, u) != A:
            tr["outcome"] = "harness:build-mismatch"
            return tr
        ver = PAGEVersion.PAGE_2019_07_15 if case["ver"] == 1 else PAGEVersion.PAGE_2013_07_15
        xml = orig.to_pagexml_string(version=ver)
        np.random.seed(7)
        os.chdir(wd)
        if case["via"] == "ctor" and "pv" in case:
            orig.to_pagexml(stem + ".xml", version=ver)               # the saved PAGE XML, written by the real code
            reb = PageLayout(file=stem + ".xml")
        elif case["via"] == "ctor":
            with open(path + ".xml", "w", encoding="utf-8") as fh:
                fh.write(xml)
            reb = PageLayout(file=path + ".xml")
        else:
            reb = PageLayout()
            reb.from_pagexml_string(xml)
        lay = {"A": orig, "B": reb}
        if proj_layout(reb, u) != tr["B"]:
            tr["outcome"] = "harness:page-xml-rebuild-mismatch"
            return tr

        def event(op, L, k, i=0, tok=0, status="ok", store=None):
            present, legacy, ents = proj_store(store, u)
            tr["events"].append({"op": op, "L": L, "k": k, "ok": False, "i": i, "fl": 0, "status": status, "present": present,
                                 "legacy": legacy, "ents": ents, "obs": [], "lse": 0, "shift": 0, "tok": tok,
                                 "A": proj_layout(lay["A"], u), "B": proj_layout(lay["B"], u)})

        if case["k"] == "file":
            orig.save_logits(stem + ".pkl")
            with open(path + ".pkl", "rb") as fh:
                blob = fh.read()
            event("Save", "A", "file", store=blob)
            reb.load_logits(stem + ".pkl")
        else:
            blob = orig.save_logits_bytes()
            event("Save", "A", "bytes", store=blob)
            reb.load_logits(blob)
        event("Load", "B", case["k"], store=blob)
        decoder = PageDecoder(GreedyDecoder(COMPOSITE_LETTERS + [BLANK_SYMBOL]))
        for name in ("A", "B"):
            decoder.process_page(lay[name])
            for i, l in enumerate(lay[name].lines_iterator()):
                event("Observe", name, "decode", i=i + 1, tok=_digest(["decode", l.transcription]))
        for name in ("A", "B"):
            root = ET.fromstring(lay[name].to_altoxml_string().encode("utf-8"))
            words = [[s.get("CONTENT") for s in tl.iter("{*}String")] for tl in root.iter("{*}TextLine")]
            event("Observe", name, "alto", tok=_digest(["alto", words]))
            tr.setdefault("alto", {})[name] = words
    except Exception as ex:
        tr["outcome"] = "exception:" + type(ex).__name__
        tr["error"] = str(ex)[:300]
    finally:
        os.chdir(start_dir)
        for f in os.listdir(os.path.dirname(path)):
            if f.startswith(os.path.basename(path) + "."):
                os.remove(os.path.join(os.path.dirname(path), f))
    return tr
