------------------------- MODULE LogitsStore_Trace -------------------------
(* Trace layer for LogitsStore (C09).  A recorded execution of real PageLayout objects:
     A, B        projections of the two built layouts (flat line sequences [id, lg, ch, co])
     events[n]   op / L / k / ok / i / fl  = the call,
                 status                    = "ok" | "error" (the call raised),
                 A, B                      = both layouts after the call,
                 present, legacy, ents     = content of the slot k after the call, read back by the driver
                                             with pickle alone (ents = list of [id, lg, ch, co]),
                 obs                       = dense matrix (1/8 units),
                 op "Rescale" / "Scribble" = (round 9) the driver edited line i's stored logits in place (fl = 0: line.logits *= f,
                                             fl = 1: line.logits.data *= f) / modified in place every array earlier Dense
                                             calls of that line had returned,
                 pv                        = (round 9, informative) how the file path was spelled: absolute, bare name in the
                                             working directory, relative with a directory part, "./name",
                 tok                       = op "Observe" (k = "decode" | "alto"): digest of the transcription the page decoder
                                             produced for line i / of the text of the ALTO export of layout L,
                 lse, shift                = get_full_logprobs: max |logsumexp(row)| and max spread of
                                             (full - dense) within a row, both in 1e-9 units.
   The statement pins save / load / dense completely except where LogitsStore leaves a choice (S, lc), so the
   implementation-shaped actions are the acceptance condition (as for C02).  Tol: 1e-6 (>= 1e6 x measured). *)
EXTENDS LogitsStore, TraceKit
VARIABLES tid
Tr == Traces[tid]
Tol == 1000

LayOf(ev) == [n \in Names |-> IF n = "A" THEN ev.A ELSE ev.B]
EntSet(ev) == {ev.ents[j] : j \in 1..Len(ev.ents)}
\* what the record shows for the character table / window of line i after a legacy load
LcOf(ev, L) == [i \in 1..Len(lay[L]) |-> IF i <= Len(LayOf(ev)[L]) THEN <<LayOf(ev)[L][i].ch, LayOf(ev)[L][i].co>> ELSE <<0, 0>>]

TInit == /\ tid \in 1..NTraces
         /\ lay = [n \in Names |-> IF n = "A" THEN Tr.A ELSE Tr.B]
         /\ store = [k \in Slots |-> NoStore] /\ origin = [k \in Slots |-> <<>>]
         /\ before = lay /\ sbefore = store /\ last = Call("none", "A", "file", FALSE, "ok", 0, 0) /\ obs = <<>> /\ obsmap = {} /\ nops = 0

TNext == /\ UNCHANGED tid
         /\ Tr.outcome = "ok" /\ nops < Len(Tr.events)
         /\ LET ev == Tr.events[nops + 1]
            IN /\ \/ /\ ev.op = "Save" /\ Save(ev.L, ev.k, ev.ok)
                     /\ last'.status = ev.status
                     /\ store'[ev.k].present = ev.present
                     /\ ev.present => (store'[ev.k].legacy = ev.legacy /\ store'[ev.k].ents = EntSet(ev))
                  \/ /\ ev.op = "SaveLegacy" /\ SaveLegacy(ev.L)
                     /\ ev.status = "ok" /\ ev.present /\ ev.legacy /\ store'["file"].ents = EntSet(ev)
                  \/ /\ ev.op = "Load" /\ ev.status = "ok" /\ Load(ev.L, ev.k, LcOf(ev, ev.L))
                  \/ /\ ev.op = "Dense" /\ ev.status = "ok" /\ Dense(ev.L, ev.i, ev.fl)
                     /\ obs' = ev.obs
                     /\ ev.lse <= Tol /\ ev.shift <= Tol               \* row-normalised log-probabilities of the same logits
                  \/ /\ ev.op = "Rescale" /\ ev.status = "ok" /\ Rescale(ev.L, ev.i)
                  \/ /\ ev.op = "Scribble" /\ ev.status = "ok" /\ Scribble(ev.L, ev.i)
                  \/ /\ ev.op = "Observe" /\ ev.status = "ok" /\ Observe(ev.k, ev.L, ev.i, ev.tok)
               /\ lay' = LayOf(ev)                                      \* both layouts as observed after the call

TAccept == TKMark(tid, nops, nops = Len(Tr.events) /\ Tr.outcome = "ok")
TPost == TKPost
ASSUME TKReset
=============================================================================
