------------------------- MODULE ParseFolder_Trace -------------------------
(* Trace layer for ParseFolder (C17).  One trace = one history of a batch folder: a sequence of real
   parse_folder.main() processes on the same folders, each either killed right after its k-th file write
   (k = 0: after the to-do list was computed, before the first write) or left to end by itself.  Per process the
   harness recorded: the pages handed to Computator.__call__ (started), the length of the to-do list it was given,
   the file writes in order, how the process ended, and the listing of the output folders afterwards with a flag
   per file "content equals the file of an uninterrupted run" (time stamps stripped).

   Detailed = FALSE: PROPERTY-LEVEL acceptance (the verdict).  One step per process, evaluated on the observed
     folders with the property vocabulary of ParseFolder (PropRunStart / PropRunEnd):
       - no page that was complete when the process started is processed again,
       - a process that ends by itself ends cleanly, with every requested output of every page present and equal
         to that of an uninterrupted run,
       - the history ends with such a process.
   Detailed = TRUE: design conformance (drift detection / showing that the Legacy variants reproduce the unrepaired
     tree): the recorded events must be a behaviour of ParseFolder step by step (to-do list, every write in order,
     folder contents, exit status).

   Trace kind "fresh" (a trace that carries the field `reference`; harness/pf_fresh.py): the uninterrupted run and every
   killed / resumed run of the history descend from a NEW interpreter in which no page was ever handled (what is kept in
   memory - module-level caches, memo tables - dies with a killed process; the other traces fork every process from the
   harness process, where such state is already filled identically for the reference and for every resumed run), on a
   batch of realistic pages: the same region / line ids on every page (LineIds), page-specific geometry and text.
   The property clauses are the SAME (PRun); one step precedes them:
       - PRef: the baseline "an uninterrupted run" is usable: the recorded reference process was handed every page in
         order, ended by itself cleanly with every requested output of every page present, and a second uninterrupted
         run in another process produced the same bytes for every file (flag per file).  The per-file equality flags of
         the history are computed by the harness from byte strings TLC cannot hold (SHA-1 after stripping time stamps);
         TLC judges the recorded flags, the listing and the process records.
     A trace rejected at r = 0 (progress < 100) says nothing about C17: the driver reports it as MODEL-DRIFT.          *)
EXTENDS ParseFolder, TraceKit
CONSTANT Detailed
VARIABLES tid, r, j
tvars == <<tid, r, j>>

Tr == Traces[tid]
NRuns == Len(Tr.runs)
Run == Tr.runs[r]
FileOf(x) == <<x[1], x[2]>>
Obs(i) == {FileOf(Tr.runs[i].files[n]) : n \in 1..Len(Tr.runs[i].files)}
AllEqualReference(i) == \A n \in 1..Len(Tr.runs[i].files) : Tr.runs[i].files[n][3]
IsPrefix(s, t) == Len(s) <= Len(t) /\ SubSeq(t, 1, Len(s)) = s
ExitStatus(e) == IF e = "exception:ZeroDivisionError" THEN "ZeroDivisionError" ELSE e

\* trace kind "fresh": the recorded uninterrupted run
IsFresh == "reference" \in DOMAIN Tr
Ref == Tr.reference
ObsRef == {FileOf(Ref.files[n]) : n \in 1..Len(Ref.files)}
RefUsable == /\ Ref.started = Order /\ Ref.exit = "ok"
             /\ PropRunEnd("ok", ObsRef)
             /\ ObsRef \subseteq UNION {FilesOf(p) : p \in Pages}
             /\ \A n \in 1..Len(Ref.files) : Ref.files[n][3]          \* reproduced by a second uninterrupted run
PRef == /\ r = 0 /\ IsFresh /\ RefUsable
        /\ r' = 1 /\ UNCHANGED <<vars, tid, j>>

TInit == /\ tid \in 1..NTraces
         /\ Init /\ r = (IF IsFresh THEN 0 ELSE 1) /\ j = 0
         \* the recorded input is the one the constants describe
         /\ Traces[tid].order = Order
         /\ {Traces[tid].kinds[i] : i \in 1..Len(Traces[tid].kinds)} = Kinds
         /\ Traces[tid].nlines = NLines

\* ---------------------------------------------------------------- property level
PRun == /\ r >= 1 /\ r <= NRuns
        /\ PropRunStart(disk, Run.started)
        /\ (Run.exit # "killed") => (PropRunEnd(ExitStatus(Run.exit), Obs(r)) /\ AllEqualReference(r))
        /\ disk' = Obs(r) /\ r' = r + 1
        /\ phase' = IF Run.exit = "killed" THEN "idle" ELSE "done"
        /\ UNCHANGED <<todo, w, n0, crashes, status, skippedIncomplete, redoneComplete, tid, j>>
PNext == PRef \/ PRun

\* ---------------------------------------------------------------- design level
DStart == /\ r >= 1 /\ r <= NRuns /\ StartRun
          /\ IsPrefix(Run.started, todo')
          /\ Run.n0known => n0' = Run.n0
          /\ (Run.exit # "killed") => Run.started = todo'
          /\ j' = 0 /\ UNCHANGED <<tid, r>>
DWrite == /\ phase = "running" /\ j < Len(Run.writes) /\ Write
          /\ disk' = disk \cup {FileOf(Run.writes[j + 1])}
          /\ j' = j + 1 /\ UNCHANGED <<tid, r>>
DCrash == /\ phase = "running" /\ j = Len(Run.writes) /\ Run.exit = "killed" /\ Crash
          /\ Obs(r) = disk /\ AllEqualReference(r)
          /\ r' = r + 1 /\ UNCHANGED <<tid, j>>
DFinish == /\ phase = "running" /\ j = Len(Run.writes) /\ Run.exit # "killed" /\ Finish
           /\ status' = ExitStatus(Run.exit)
           /\ Obs(r) = disk /\ AllEqualReference(r)
           /\ r' = r + 1 /\ UNCHANGED <<tid, j>>
\* a further process after one that ended by itself (only met when a scheduled kill did not fire)
DAgain == /\ phase = "done" /\ r >= 1 /\ r <= NRuns
          /\ phase' = "idle" /\ UNCHANGED <<disk, todo, w, n0, crashes, status, skippedIncomplete, redoneComplete, tid, r, j>>
DNext == PRef \/ DStart \/ DWrite \/ DCrash \/ DFinish \/ DAgain

TNext == IF Detailed THEN DNext ELSE PNext

TAccept == TKMark(tid, 100 * r + j, r = NRuns + 1 /\ phase = "done")
TPost == TKPost
ASSUME TKReset
=============================================================================
