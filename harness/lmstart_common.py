"""C03 helper: WHERE the start state of a line comes from and WHAT the language model hands out (round 9).

The statement is about every call: the LM score reported for a hypothesis is the LM's own score "from the given start state",
plus the insertion bonus per character, for every LM of the interface.  harness/ctc_common.py hands the decoder either no
start state or a fresh state object per case (whose contents never change within a configuration) and an LM that returns a
fresh array from every log_probs() call.  Real callers are less tame:

  * PageDecoder keeps ONE decoder for all lines and a carry-over state; a caller may hold one state object and update it in
    place between lines (HiddenState.__setitem__, in-place tensor operations), or build a start state per call and drop it
    (CPython then hands the freed address to the next one): consecutive calls see the same OBJECT / the same id() with
    different CONTENTS;
  * an LM may hand out arrays it keeps - a row view of a fixed table, the memoised output for a batch of states - possibly
    read-only (numpy flags.writeable = False).

A HISTORY here is a sequence of blocks of lines decoded on one long-lived decoder + LM.  Within a block the prefix decodes of the
lines (t = 1..T, as in ctc_common._decode_one) are INTERLEAVED, so that consecutive decoder calls have different start
contents (each line of a block has its own start history: none / <<1>> / ... / <<NC>>).  Start-state modes:
  carry   one state object for the whole history, its contents overwritten in place before every call
  temp    a state object built in the call expression and dropped with the call
  shared  one long-lived, never modified state object per start history (None for the default start)
LM flavours: "toy" (ctc_common.ToyLM), "wrapped" (the same LM behind the real LMWrapper / HiddenState), "kept" and "frozen"
(KeptLM below: the same toy LM handing out row views of a fixed table / memoised batch arrays; frozen = read-only).

Every line is one ordinary CtcDecoder_Trace trace (field h0 = its start history, used by the driver to pick the constant H0);
for the kept flavours the trace also carries what the LM's OWN tables say after the line (lmown / eosown, clause LmIntact of
CtcDecoder_Trace).  This module only drives the real code and projects results to integers; TLC judges."""
import itertools
import math
import random

import numpy as np

from pero_ocr.decoding.decoders import CTCPrefixLogRawNumpyDecoder, BLANK_SYMBOL

from . import ctc_common as C
from .core import pmap

MODES = ("carry", "temp", "shared")


class KeptLM(C.ToyLM):
    """the toy LM of ctc_common as an LM that KEEPS the arrays it hands out: one fixed table with a row of log-probabilities per
    history; for a single state log_probs / eos_scores return a VIEW of the table, for a batch of states the memoised array of
    that batch.  frozen: every array handed out is read-only."""

    def __init__(self, nc, m, maxlen, frozen=False):
        super().__init__(nc, m)
        self.hists = [h for ln in range(maxlen + 1) for h in itertools.product(range(1, nc + 1), repeat=ln)]
        self.index = {h: i for i, h in enumerate(self.hists)}
        self.tab = np.array([[math.log(C.lm_w(h, c) / m) for c in range(1, nc + 1)] for h in self.hists])
        self.eos = np.array([math.log(C.eos_w(h) / m) for h in self.hists])
        self.frozen = frozen
        self.memo, self.eos_memo = {}, {}
        if frozen:
            self.tab.flags.writeable = False
            self.eos.flags.writeable = False

    def _rows(self, h):
        return [self.index[tuple(p)] for p in h.ps]

    def _kept(self, memo, table, idx):
        if len(idx) == 1:
            return table[idx[0]:idx[0] + 1]          # a view of the LM's own table
        key = tuple(idx)
        if key not in memo:
            a = table[idx]
            if self.frozen:
                a.flags.writeable = False
            memo[key] = a
        return memo[key]

    def log_probs(self, h):
        return self._kept(self.memo, self.tab, self._rows(h))

    def eos_scores(self, h):
        return self._kept(self.eos_memo, self.eos, self._rows(h))

    def own(self):
        """what the LM's own arrays (table and every memoised batch) say now, in thousandths of 1/M: distinct (history, weights)"""
        def milli(a):
            with np.errstate(all="ignore"):
                v = np.exp(np.asarray(a, dtype=float)) * self.m * 1000
            return [int(round(x)) if np.isfinite(x) and abs(x) < 2e9 else -1 for x in np.atleast_1d(v)]
        lm, eos = set(), set()
        for idx, arr in [(range(len(self.hists)), self.tab)] + list(self.memo.items()):
            for i, row in zip(idx, arr):
                lm.add((self.hists[i], tuple(milli(row))))
        for idx, arr in [(range(len(self.hists)), self.eos)] + list(self.eos_memo.items()):
            for i, x in zip(idx, milli(arr)):
                eos.add((self.hists[i], x))
        return ([{"h": list(h), "w": list(w)} for h, w in sorted(lm)], [{"h": list(h), "e": e} for h, e in sorted(eos)])


def make_lm(cfg):
    impl = cfg.get("lm_impl") or "toy"
    if impl == "wrapped":
        return C.make_wrapped_lm(cfg["NC"], cfg["M"])
    if impl in ("kept", "frozen"):
        return KeptLM(cfg["NC"], cfg["M"], cfg["T"] + 1, frozen=(impl == "frozen"))
    return C.ToyLM(cfg["NC"], cfg["M"])


def make_decoder(cfg):
    letters = [chr(97 + i) for i in range(cfg["NC"])] + [BLANK_SYMBOL]
    lm = make_lm(cfg)
    kw = dict(lm=lm, lm_scale=cfg["SP"] / cfg["SQ"], insertion_bonus=math.log(cfg["Bonus"]))
    sel = C.selector(cfg["selector"], cfg["D"])
    if sel is not None:
        kw["relevant_logits_selector"] = sel
    return CTCPrefixLogRawNumpyDecoder(letters, cfg["K"], **kw), lm


def _hist(h0):
    return (h0,) if h0 else ()


def _state(wrapped, h0):
    """a new state object whose contents are the start history of h0 (h0 = 0: the contents of the LM's default start state)"""
    return C.wrapped_state(_hist(h0)) if wrapped else C.ToyH([_hist(h0)])


def _temp_at(wrapped, h0, want_id, tries=48):
    """a start state built for one call.  CPython hands the address of a dropped object to a later one of the same size; which
    one is allocator luck, so the luck is helped: candidates are built (and held, so that each gets another address) until one
    has the id() of the temporary of the previous call; all but that one are dropped on return"""
    held = []
    for _ in range(tries):
        s = _state(wrapped, h0)
        if want_id is None or id(s) == want_id:
            break
        held.append(s)
    return s


def _overwrite(wrapped, carry, h0, how):
    """the caller's long-lived state object gets new contents IN PLACE"""
    new = _state(wrapped, h0)
    if wrapped and how % 3 == 1:
        carry.prepare_for_torch().copy_(new.prepare_for_torch())       # in-place tensor operation
    elif wrapped and how % 3 == 2:
        carry.prepare_for_torch().zero_().add_(new.prepare_for_torch())
    elif not wrapped and how % 2 == 1:
        carry.ps[0] = _hist(h0)
    else:
        carry[[0]] = new                                               # HiddenState.__setitem__ / ToyH.__setitem__


_CFG = {}


def _new_rec(mat, h0):
    return {"mat": [list(r) for r in mat], "frames": [], "outcome": "ok", "best": [], "confset": [], "has_h": False, "hret": [],
            "support": False, "h0": h0}


def _fail(rec, ex):
    if isinstance(ex, ValueError) and "normalized" in str(ex):
        rec["outcome"] = "rejected"
        rec["frames"] = []
    else:                      # any failure of the real code is part of the observation, never of the harness
        rec["outcome"] = "exception:" + type(ex).__name__


def _observe(rec, boh, t, last, c):
    d, m, eos = c["D"], c["M"], c["Eos"]
    beam = []
    for h in boh:
        ln = len(h.transcript)
        vis = math.exp(h.vis_sc) * d ** t
        lm = math.exp(h.lm_sc) * m ** (ln + (1 if (eos and last) else 0))
        beam.append({"p": [ord(ch) - 96 for ch in h.transcript], "s": C._milli(vis), "l": C._milli(lm)})
    rec["frames"].append(beam)
    if last:
        rec["best"] = [ord(ch) - 96 for ch in boh.best_hyp()]
        conf = boh.confidence()
        post = boh.posteriors()
        rec["confset"] = [[ord(ch) - 96 for ch in h.transcript] for h, p in zip(boh, post) if abs(math.exp(p) - conf) <= 1e-9]


def run_history(c, hist):
    """hist = {"blocks": [[{"mat": ..., "h0": ...}, ...], ...]}: one long-lived decoder + LM (+ carry / shared state objects)
    for the whole history; returns the traces of the lines in order"""
    t_, nc, d = c["T"], c["NC"], c["D"]
    mode, eos = c["mode"], bool(c["Eos"])
    wrapped = c.get("lm_impl") == "wrapped"
    dec, lm = make_decoder(c)
    carry = _state(wrapped, 0) if mode == "carry" else None
    shared = {h0: _state(wrapped, h0) for h0 in range(1, nc + 1)}
    shared[0] = None
    out, n_call, prev_id = [], 0, None
    for block in hist["blocks"]:
        lines = []
        for ln in block:
            mat = ln["mat"]
            probs = np.array([[r[ch] for ch in range(1, nc + 1)] + [r[0]] for r in mat], dtype=float) / d
            with np.errstate(divide="ignore", invalid="ignore"):
                lines.append((_new_rec(mat, ln["h0"]), np.log(probs), ln["h0"]))
        for t in range(1, t_ + 1):
            last = t == t_
            for rec, lp, h0 in lines:
                if rec["outcome"] != "ok":
                    continue
                n_call += 1
                kw = {"model_eos": bool(eos and last)}
                if last:
                    kw["return_h"] = True
                # the default start: no state at all for every other such call, else a state object holding the default contents
                dflt = h0 == 0 and n_call % 2 == 0
                try:
                    with np.errstate(divide="ignore", invalid="ignore", over="ignore"):
                        if mode == "carry":
                            _overwrite(wrapped, carry, h0, n_call)
                            res = dec(lp[:t], init_h=None if dflt else carry, **kw)
                        elif mode == "temp":
                            if dflt:
                                res = dec(lp[:t], init_h=None, **kw)
                            else:
                                tmp = _temp_at(wrapped, h0, prev_id)
                                prev_id = id(tmp)
                                kw["init_h"] = tmp
                                del tmp
                                res = dec(lp[:t], **kw)
                                del kw                          # the state is dropped with the call
                        else:
                            res = dec(lp[:t], init_h=shared[h0], **kw)
                        if last:
                            boh, hret = res
                            rec["has_h"] = True
                            hh = C.history_of_scalar(hret.prepare_for_torch().reshape(-1)[0]) if wrapped else tuple(hret.ps[0])
                            rec["hret"] = [int(x) for x in hh]
                            if mode == "carry" and n_call % 3 == 0:
                                try:
                                    carry[[0]] = hret          # what a caller does with it (overwritten again before the next call)
                                except Exception:
                                    pass
                        else:
                            boh = res
                        _observe(rec, boh, t, last, c)
                except Exception as ex:
                    _fail(rec, ex)
                if last and isinstance(lm, KeptLM):
                    rec["lmown"], rec["eosown"] = lm.own()
        out.extend(rec for rec, _, _ in lines)
    return out


def _run_one(hist):
    return run_history(_CFG, hist)


def make_histories(cfg, mats, n_hist, blocks, seed):
    """seeded histories: blocks of NC + 1 lines; the start histories of a block are mostly pairwise different (a permutation of
    none, <<1>>, .., <<NC>>), for a fifth of the blocks drawn independently (repeats: same id, same contents)"""
    rng = random.Random(seed)
    nc = cfg["NC"]
    out = []
    for _ in range(n_hist):
        bl = []
        for _ in range(blocks):
            if cfg["mode"] == "shared" and rng.random() < 0.5:
                h0s = [rng.randrange(nc + 1)] * (nc + 1)         # all lines of a "paragraph" from the same start state
            elif rng.random() < 0.2:
                h0s = [rng.randrange(nc + 1) for _ in range(nc + 1)]
            else:
                h0s = list(range(nc + 1))
                rng.shuffle(h0s)
            bl.append([{"mat": [list(r) for r in rng.choice(mats)], "h0": h0} for h0 in h0s])
        out.append({"blocks": bl})
    return out


def run_histories(cfg, hists, procs=6):
    """returns [(history number, line number, trace)]"""
    global _CFG
    _CFG = dict(cfg)
    if cfg.get("lm_impl") == "wrapped":
        make_decoder(cfg)                                   # import torch before the fork
    res = pmap(_run_one, hists, procs=procs)
    return [(n, j, tr) for n, trs in enumerate(res) for j, tr in enumerate(trs)]
