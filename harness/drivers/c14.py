"""C14 - confusion networks keep every hypothesis as an ordered path (DESIGN.md section 4, C14; Appendix A.9).

1. Design: TLC explores every addition history of the bounded shape on spec/ConfusionNet.tla (repaired pointer machine,
   every admissible pivot and optimal alignment) and proves the action property GrowOnly ("readable strings only grow", the
   new hypothesis is readable, existing positions gain exactly the score on one arc, no weight lost) and the invariants on
   normalisation / path enumeration / single hypothesis.  Self-tests: Legacy=TRUE (pointer not advanced after an append at the
   end) and SkipEmptyFirst=FALSE ('' added to the empty network) must both make TLC report a violation.
2. Cases: every history of the same bounds is replayed on the real add_hypothese / produce_cn_from_boh / normalize_cn /
   best_cn_path / sorted_cn_paths; the network after every addition is recorded.
3. Conformance: ConfusionNet_Trace!TNext accepts a recorded history iff every step satisfies the statement (StepOK) and the
   final clauses hold -> a rejection is a VIOLATION.  The same pass tracks whether every recorded network is also a result of the
   detailed pointer machine (AddResults); a property-satisfying history that leaves it is MODEL-DRIFT only.
"""
from .. import cn_common as C

LEVEL = "model_checking"
INVS = ["LastReadable", "Balanced", "NormSumsToOne", "PathsComplete", "PathsSorted", "SingleReadsBack"]
PROPS = ["GrowOnly"]


def tla_constants(b, legacy=False, skip_empty_first=True):
    return {"Alphabet": set(range(1, b["alphabet"] + 1)), "MaxLen": b["maxlen"], "MaxAdds": b["adds"],
            "Scores": set(b["scores"]), "Legacy": legacy, "SkipEmptyFirst": skip_empty_first, "PathCols": b.get("pathcols", 6)}


def bounds(ctx):
    """one dict of bounds per configuration: the TLC constants and the replayed histories are both derived from it"""
    quick = [
        {"name": "len3-adds2", "alphabet": 2, "maxlen": 3, "adds": 2, "scores": [1, 2], "frac": 1.0},
        {"name": "len2-adds3", "alphabet": 2, "maxlen": 2, "adds": 3, "scores": [1, 2], "frac": 1.0},
        {"name": "len3-adds3", "alphabet": 2, "maxlen": 3, "adds": 3, "scores": [1], "frac": 1.0},
    ]
    if ctx.tier == "quick":
        return quick
    quick[2]["frac"] = 1.0
    return quick + [
        {"name": "len3-adds3-w", "alphabet": 2, "maxlen": 3, "adds": 3, "scores": [1, 2], "frac": 0.5},
        {"name": "abc-len2-adds3", "alphabet": 3, "maxlen": 2, "adds": 3, "scores": [1, 3], "frac": 0.5},
        {"name": "len2-adds4", "alphabet": 2, "maxlen": 2, "adds": 4, "scores": [1], "frac": 1.0},
        {"name": "len3-adds4", "alphabet": 2, "maxlen": 3, "adds": 4, "scores": [1], "frac": 0.25},
    ]


def boh_configs(ctx):
    """bags with and without LM scores, through produce_cn_from_boh (score = vis^vw * lm^lw)"""
    q = [{"name": "boh-nolm", "alphabet": 2, "maxlen": 2, "adds": 3, "vis": [1, 2], "lms": [0], "vw": 1, "lw": 1, "frac": 0.25},
         {"name": "boh-lm", "alphabet": 2, "maxlen": 2, "adds": 3, "vis": [1, 2], "lms": [1, 3], "vw": 1, "lw": 1, "frac": 0.06},
         {"name": "boh-mixed-w2", "alphabet": 2, "maxlen": 3, "adds": 2, "vis": [1, 2], "lms": [0, 2], "vw": 2, "lw": 1, "frac": 0.15}]
    if ctx.tier == "thorough":
        for c in q:
            c["frac"] = min(1.0, c["frac"] * 4)
        q.append({"name": "boh-lw0", "alphabet": 2, "maxlen": 2, "adds": 3, "vis": [1, 3], "lms": [2], "vw": 1, "lw": 0, "frac": 0.3})
    return q


def nbest_histories(ctx, n):
    """seeded histories beyond the TLC bounds: 3-5 variants of one base string of length 3-5 over {a,b,c} (0-2 edits each: insertions
    at the start / middle / end, deletions, substitutions), scores 1-3 - the shape of an n-best list"""
    out = []
    for _ in range(n):
        k = ctx.rng.choice([2, 3])
        base = [ctx.rng.randint(1, k) for _ in range(ctx.rng.randint(3, 5))]
        hyps = []
        for _ in range(ctx.rng.randint(3, 5)):
            h = list(base)
            for _ in range(ctx.rng.choice([0, 1, 1, 2])):
                op = ctx.rng.choice(["ins", "ins", "del", "sub"])
                if op == "ins":
                    pos = ctx.rng.choice([0, len(h), ctx.rng.randint(0, len(h))])
                    h.insert(pos, ctx.rng.randint(1, k))
                elif h:
                    pos = ctx.rng.randrange(len(h))
                    if op == "del":
                        del h[pos]
                    else:
                        h[pos] = 1 + h[pos] % k
            hyps.append({"h": h, "vis": ctx.rng.randint(1, 3), "lm": 0})
        ctx.rng.shuffle(hyps)
        out.append({"mode": "add", "hyps": hyps, "vw": 1, "lw": 1})
    return out


def _sample(ctx, cases, frac):
    if frac >= 1.0:
        return cases, True
    k = max(1, int(len(cases) * frac))
    return ctx.rng.sample(cases, k), False


def signature(tr, prog):
    """canonical class of a rejected history"""
    step, stage = prog // 10, prog % 10
    n = len(tr["hyps"])
    if step < n:
        if tr["outcome"][step] != "ok":
            return "add:%s" % tr["outcome"][step]
        if step >= 1 and all(len(h["h"]) == 0 for h in tr["hyps"][:step]):
            return "add:first-hypothesis-empty"
        return "add:step-rejected"
    return ["normalize", "paths", "single-hypothesis", "done"][stage]


def signature_later(tr, prog):
    step, stage = prog // 10, prog % 10
    if step < len(tr["hyps"]):
        return "add:%s" % tr["outcome"][step] if tr["outcome"][step] != "ok" else "add:step-rejected"
    return ["normalize", "paths", "single-hypothesis", "done"][stage]


def describe(tr, prog):
    step, stage = prog // 10, prog % 10
    n = len(tr["hyps"])
    hs = [(C.text_of(h["h"]), C.score_of(h, tr["vw"], tr["lw"])) for h in tr["hyps"]]
    if step < n:
        prev = tr["nets"][step - 1] if step else []
        return ("addition %d of history %s (%s): network %s -> %s does not keep the readable strings / make the new hypothesis "
                "readable in order / add the score to exactly one arc of every old position / keep the columns balanced"
                % (step + 1, hs, tr["mode"], _show(prev), _show(tr["nets"][step]) if tr["outcome"][step] == "ok" else tr["outcome"][step]))
    what = ["normalize_cn: column sums / proportions", "sorted_cn_paths: not all arc combinations once, non-increasing, summing to 1",
            "network built from the single hypothesis does not read back", "?"][stage]
    return "history %s (%s), final network %s: %s" % (hs, tr["mode"], _show(tr["nets"][-1]), what)


def _show(net):
    return "[" + ", ".join("{" + ", ".join("%s: %g" % ("eps" if a == 0 else C.LETTERS[a - 1] if a <= len(C.LETTERS) else "?", w / 1000.0)
                                           for a, w in col) + "}" for col in net) + "]"


DRIFT = 1000     # progress value of a history that satisfies the property but left the detailed model


def judge(ctx, consts, traces, label):
    consts = dict(consts, KnownEmptyFirst=False)
    acc, rej = ctx.validate("ConfusionNet_Trace", traces, constants=consts, label="ConfusionNet_Trace " + label,
                            shards=max(1, min(4, len(traces) // 1500)))
    # histories rejected at the open known finding are validated again with the deviation modelled as an action, so that the
    # rest of the history (later additions, normalisation, path enumeration) is still judged; what is rejected there is a
    # different violation and gets its own signature
    kf = [(i, p) for i, p in rej if p != DRIFT and signature(traces[i], p) == "add:first-hypothesis-empty"]
    later = {}
    if kf:
        sub = [traces[i] for i, _ in kf]
        before = ctx.traces_validated
        _, rej2 = ctx.validate("ConfusionNet_Trace", sub, constants=dict(consts, KnownEmptyFirst=True),
                               label="ConfusionNet_Trace %s (known deviation modelled)" % label, shards=max(1, min(4, len(sub) // 1500)))
        ctx.traces_validated = before
        later = {kf[k][0]: p for k, p in rej2 if p != DRIFT}
    drifted = {i for i, p in rej if p == DRIFT}
    rejected = {i for i, p in rej if p != DRIFT}
    ctx.traces_validated += len(drifted)        # property-level acceptance is what counts
    for i, tr in enumerate(traces):
        nontrivial = len(tr["nets"][-1]) > 1 and any(len(col) > 1 for col in tr["nets"][-1])
        ctx.count(1, (tr["mode"], tr["vw"], tr["lw"], tuple((tuple(h["h"]), h["vis"], h["lm"]) for h in tr["hyps"])) if nontrivial else None)
    for i in sorted(drifted):
        ctx.model_drift("network differs from the modelled pointer machine (property holds)", 1, {"hyps": traces[i]["hyps"]})
    # one representative of every signature first (only the first violations are printed / stored)
    viol = [(idx, prog, signature(traces[idx], prog)) for idx, prog in rej if prog != DRIFT]
    viol += [(idx, prog, "after-empty-first:" + signature_later(traces[idx], prog)) for idx, prog in sorted(later.items())]
    seen, first, rest = set(), [], []
    for v in viol:
        (first if v[2] not in seen else rest).append(v)
        seen.add(v[2])
    for idx, prog, sig in first + rest:
        tr = traces[idx]
        ctx.violation({"history": {"mode": tr["mode"], "hyps": tr["hyps"], "vw": tr["vw"], "lw": tr["lw"]}, "constants": _plain(consts),
                       "progress": prog, "trace": tr}, sig, describe(tr, prog))
        ctx.notes.setdefault("rejections_by_signature", {}).setdefault(sig, 0)
        ctx.notes["rejections_by_signature"][sig] += 1
    return [tr for i, tr in enumerate(traces) if i not in rejected and i not in drifted]


def _plain(consts):
    return {k: (sorted(v) if isinstance(v, (set, frozenset)) else v) for k, v in consts.items()}


def run(ctx):
    ctx.rule = ("every addition history of the bounded shape (strings over {a,b[,c]} up to length 2-3 including '', 2-4 additions, "
                "scores 1-3; bags with/without LM scores through produce_cn_from_boh) replayed on the real confusion-network functions; "
                "network after every addition validated by TLC; non-trivial = final network has > 1 column and a column with > 1 arc")
    ctx.exhaustive = True
    ctx.assume("scores are small positive integers (weights exact in floating point); symbols are single characters",
               "reading: 'no weight is lost' = every position's weights sum to the total score added so far",
               "path enumeration checked for networks with <= %d arc combinations and denominator <= %d" % (C.MAX_PATHS, C.MAX_DEN),
               "sorted_cn_paths on the network without positions (only '' added) is not judged")
    selftest_done = False
    for b in bounds(ctx):
        db = dict(b, adds=b.get("design_adds", b["adds"]))
        ctx.tlc("ConfusionNet", constants=tla_constants(db), invariants=INVS, properties=PROPS, workers=4, timeout=3000,
                label="ConfusionNet " + b["name"])
        cases = list(C.add_histories(b["alphabet"], b["maxlen"], b["adds"], b["scores"]))
        cases, full = _sample(ctx, cases, b["frac"])
        if not full or "design_adds" in b:
            ctx.exhaustive = False
        traces = C.run_histories(cases)
        consts = tla_constants(b, skip_empty_first=False)
        good = judge(ctx, consts, traces, b["name"])
        if not selftest_done and good:
            pick = [t for t in good if len(t["nets"][-1]) >= 2 and any(len(c) > 1 for c in t["nets"][-1])]
            if pick:
                def corrupt(tr):
                    col = tr["nets"][-1][0]
                    col[0][1] += 1000          # one arc of the first position gains one unit too much
                    return tr
                ctx.selftest_corrupt("ConfusionNet_Trace", pick[len(pick) // 2], corrupt, constants=dict(consts, KnownEmptyFirst=False))
                ctx.sample({"config": b["name"], "trace": pick[len(pick) // 2]}, limit=3)
                selftest_done = True
    # self-tests of the model: the two defects of the current tree must be visible to TLC
    b0 = {"alphabet": 2, "maxlen": 3, "adds": 2, "scores": [1]}
    # (the action property alone, so that it is "readable strings only grow" that TLC reports as violated)
    ctx.tlc("ConfusionNet", constants=tla_constants(b0, legacy=True), invariants=[], properties=PROPS, workers=2,
            expect_violation="GrowOnly", label="ConfusionNet Legacy=TRUE (self-test)")
    ctx.tlc("ConfusionNet", constants=tla_constants(b0, skip_empty_first=False), invariants=[], properties=PROPS, workers=2,
            expect_violation="GrowOnly", label="ConfusionNet SkipEmptyFirst=FALSE (self-test)")
    for b in boh_configs(ctx):
        cases = list(C.boh_histories(b["alphabet"], b["maxlen"], b["adds"], b["vis"], b["lms"], b["vw"], b["lw"]))
        cases, full = _sample(ctx, cases, b["frac"])
        traces = C.run_histories(cases)
        consts = tla_constants({"alphabet": b["alphabet"], "maxlen": b["maxlen"], "adds": b["adds"], "scores": [1]}, skip_empty_first=False)
        good = judge(ctx, consts, traces, b["name"])
        if good:
            ctx.sample({"config": b["name"], "trace": good[len(good) // 2]}, limit=5)
    # n-best-like histories beyond the TLC bounds (property level only: conformance without a design run of that size)
    nb = nbest_histories(ctx, 100 if ctx.tier == "quick" else 1500)
    traces = [t for t in C.run_histories(nb) if max(len(n) for n in t["nets"]) <= 9]
    good = judge(ctx, tla_constants({"alphabet": 3, "maxlen": 7, "adds": 5, "scores": [1, 2, 3]}, skip_empty_first=False), traces,
                 "n-best-like histories (strings up to 7, up to 5 additions)")
    if good:
        ctx.sample({"config": "n-best", "trace": good[len(good) // 2]}, limit=6)
    ctx.notes["nbest_histories"] = len(traces)
    ctx.notes["explanation"] = ("TLC exhaustive on ConfusionNet per bounds (action property GrowOnly + invariants %s), two must-violate "
                                "self-tests (Legacy, SkipEmptyFirst=FALSE); histories replayed on pero_ocr.decoding.confusion_networks and "
                                "validated step by step by ConfusionNet_Trace (property level = verdict, detailed level = drift)" % INVS)


def replay(ctx, case):
    tr = C.replay_history(case["history"])
    consts = dict(case["constants"])
    for k in ("Alphabet", "Scores"):
        consts[k] = set(consts[k])
    judge(ctx, consts, [tr], "replay")
