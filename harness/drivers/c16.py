"""C16 - every reported confidence is a probability derived from normalised posteriors (DESIGN.md section 4 C16, Appendix D).

Level claimed: exploration driven by the model.  The statement is numeric: TLC proves range / shift invariance / one-hot => 1 /
threshold monotonicity on the exact-rational definitions of spec/Confidence.tla (weights = un-normalised posteriors, a shift of a
frame's logits = scaling of the frame's weights) and generates the cases; the real float code is executed on every case and TLC
evaluates the recorded fixed-point values with tolerances (Confidence_Trace).  Property-level clauses: range, sum, shift
invariance WITH THE ALIGNMENT HELD FIXED (Appendix D), invariance and monotonicity of the confident-line test, one-hot => 1.
Equality with the exact rational (Strict = TRUE) is reported as MODEL-DRIFT only.

History (kind "hist", and the "hsteps" of kind "alto"): the statement speaks about the posteriors a line carries; the pipeline
re-assigns `line.logits` of long-lived TextLine / PageLayout objects (a second OCR pass, merged OCR results) and asks for
confidences in between.  A sample of the TLC initial states is therefore also driven through ONE long-lived page / line /
PageDecoder set: logits M1 -> other logits M2 -> (a call that may fail) -> M1 with another constant per frame -> one-hot logits
spelling the transcription, every confidence asked after every assignment.  TLC judges every step on the matrix recorded for
that step (range, one-hot => 1, monotone test) and steps 1 / 3 against each other (shift invariance on the same object).

Runs (round 8): real CTC output is not spiky - the same character sits on several consecutive frames, characters are adjacent
without a blank and a long run crosses the mid-point border into the neighbour's evidence window.  "One-hot" in the design
module (Confidence!OneHotForOf) therefore means: one-hot rows whose hot symbols spell the transcription along ANY CTC path, each
character aligned to any frame of its run.  The D = 1 configurations enumerate every one-hot matrix x label string of up to
three characters x alignment; on matrices with one-hot rows the confidences are also asked with the alignment the code finds
itself (`_auto_alignment`: no alignment passed, and align_text + own log-posteriors as the exports do).
"""
import itertools
import math
import random

import numpy as np
import scipy.sparse as sp

from ..core import pmap

LEVEL = "exploration"
INVS = ["RangeOK", "ShiftInvariant", "OneHotIsOne", "ThresholdMonotone"]
CLIP = 2 * 10 ** 9
CLAUSES = {1: "an exception was raised", 2: "a reported confidence lies outside [0, 1] by more than 1e-9",
           3: "hypothesis posteriors do not sum to 1", 4: "a confidence changed when a constant was added to all logits of the frames "
           "/ all scores of the bag (alignment held fixed)", 5: "line_confident_enough answers differently for the shifted logits",
           6: "the confident-line test (line_confident_enough / PageDecoder.decode_line keeping the line) is not monotone in its threshold", 7: "one-hot posteriors do not give confidence 1",
           8: "the bag confidence is not the largest normalised posterior", 16: "ALTO line / word confidence differs from the exact median",
           11: "get_line_confidence differs from the exact value of the model", 12: "get_letter_confidence differs from the exact value",
           13: "compute_line_confidence differs from the exact value", 14: "line_confident_enough differs from the exact comparison",
           15: "bag posterior / confidence / transcript_confidence differs from the exact value"}
SIGS = {1: "exception", 2: "range", 3: "posterior-sum", 4: "shift-invariance", 5: "threshold-test-shift", 6: "threshold-monotone",
        7: "one-hot", 8: "bag-confidence"}
ALPHABET = ["a", "b", "c", "d"]


def configs(tier):
    # D = 1: every row is one-hot, i.e. the matrices are the frame-wise outputs of a CTC network WITH RUNS (the same character on
    # several consecutive frames, adjacent characters without a blank, first / middle / last character being the long one) for
    # transcriptions of up to three characters - the shapes the one-hot clause of the statement is about (round 8)
    q = [{"T": 2, "NC": 3, "D": 4, "MaxL": 2, "Ks": [2, 3], "cap": None},
         {"T": 3, "NC": 3, "D": 3, "MaxL": 2, "Ks": [3], "cap": None},
         {"T": 4, "NC": 3, "D": 1, "MaxL": 3, "Ks": [2], "cap": None}]
    if tier == "quick":
        return q
    return q + [{"T": 3, "NC": 3, "D": 4, "MaxL": 2, "Ks": [2], "cap": 30000},
                {"T": 4, "NC": 3, "D": 2, "MaxL": 2, "Ks": [3], "cap": 20000},
                {"T": 2, "NC": 4, "D": 3, "MaxL": 2, "Ks": [2], "cap": None},
                {"T": 5, "NC": 3, "D": 1, "MaxL": 3, "Ks": [2], "cap": None},
                {"T": 4, "NC": 4, "D": 1, "MaxL": 3, "Ks": [3], "cap": None}]


def consts_of(c, strict=None):
    k = {"T": c["T"], "NC": c["NC"], "D": c["D"], "MaxL": c["MaxL"], "Ks": set(c["Ks"])}
    if strict is not None:
        k["Strict"] = bool(strict)
    return k


def _lab(c):
    return "T=%d NC=%d D=%d MaxL=%d" % (c["T"], c["NC"], c["D"], c["MaxL"])


def rows_of(nc, d):
    return [r for r in itertools.product(range(d + 1), repeat=nc) if sum(r) == d]


def aligns(labels, t):
    out = []
    for a in itertools.combinations(range(1, t + 1), len(labels)):
        if all(labels[i] != labels[i + 1] or a[i] + 1 < a[i + 1] for i in range(len(labels) - 1)):
            out.append(a)
    return out


def line_cases(c, rng):
    """the initial states of the TLC run on Confidence: (weight matrix, label string, alignment)"""
    rows = rows_of(c["NC"], c["D"])
    labs = [ls for n in range(1, c["MaxL"] + 1) for ls in itertools.product(range(c["NC"] - 1), repeat=n)]
    la = [(ls, a) for ls in labs for a in aligns(ls, c["T"])]
    out = [(m, ls, a) for m in itertools.product(rows, repeat=c["T"]) for ls, a in la]
    complete = True
    if c["cap"] and len(out) > c["cap"]:
        out = rng.sample(out, c["cap"])
        complete = False
    return out, complete


def _u12(x):
    return int(min(CLIP, max(0.0, x) * 1e12))


def _m6(x):
    if not np.isfinite(x):
        return CLIP
    return int(min(CLIP, max(-CLIP, round(float(x) * 1e6))))


_CFG = {}


def render(wm, d, consts):
    """sparse logit matrix of the weights: log(w / D) + per-frame constant; zero weight = absent entry (the -80 floor)"""
    w = np.array(wm, dtype=float)
    with np.errstate(divide="ignore"):
        lg = np.log(w / d) + np.array(consts)[:, None]
    lg[w == 0] = 0.0
    assert not ((lg == 0) & (w > 0)).any()       # an exact 0.0 would be read as "absent" by the sparse encoding
    return sp.csc_matrix(lg)


class _ProbeDecoder:
    """stands for the prefix decoder behind PageDecoder: only notes that it was asked"""
    _lm = None

    def __init__(self):
        self.called = False

    def __call__(self, logits, **kw):
        self.called = True
        return self

    def best_hyp(self):
        return "decoded"


def _system_confident(line, threshold):
    """through the public entry point: a one-line page handed to PageDecoder.process_page"""
    from pero_ocr.core.layout import PageLayout, RegionLayout
    from pero_ocr.document_ocr.page_parser import PageDecoder
    probe = _ProbeDecoder()
    page = PageLayout(id="p", page_size=(10, 10))
    region = RegionLayout("r", np.array([[0, 0], [9, 0], [9, 9], [0, 9]]))
    region.lines.append(line)
    page.regions.append(region)
    keep = line.transcription
    PageDecoder(probe, line_confidence_threshold=threshold, carry_h_over=False).process_page(page)
    line.transcription = keep
    return not probe.called


def _line_case(item):
    from pero_ocr.core.layout import TextLine
    from pero_ocr.core.confidence_estimation import get_line_confidence, get_letter_confidence
    from pero_ocr.document_ocr.page_parser import PageParser, line_confident_enough
    (wm, labels, al), seed = item
    t, nc, d = _CFG["T"], _CFG["NC"], _CFG["D"]
    rng = random.Random(seed)
    rec = {"kind": "line", "w": [list(r) for r in wm], "labels": list(labels), "al": list(al), "seed": seed, "outcome": "ok",
           "lc": [], "lc_s": [], "let": [], "let_s": [], "cmp": 0, "cmp_s": 0, "lce": [], "lce_s": [], "lce_neg": [], "lce_neg_s": [], "sys": [], "sys_s": [],
           "over": 0, "dshift": 0, "dshift_cmp": 0, "one": 0, "one_cmp": 0,
           "auto": "none", "al_auto": [], "lc_auto": [], "over_auto": 0, "one_auto": 0}
    try:
        c0 = [rng.uniform(-3, 3) for _ in range(t)]
        c1 = [x + rng.choice([-1, 1]) * rng.uniform(0.5, 4) for x in c0]
        if seed % 4 == 0:
            # "a constant" is any constant: a quarter of the cases lift one frame by +800 (float64 logits: exact to ~1e-13; only
            # upwards, because the -80 floor of pruned entries is absolute and a frame pushed below it legitimately changes)
            c1[(seed // 4) % t] = c0[(seed // 4) % t] + 800.0
        chars = ALPHABET[:nc - 1] + ["~"]
        lab = np.array(labels)
        al0 = np.array([x - 1 for x in al])
        path = [nc - 1] * t
        for i, f in enumerate(al):
            path[f - 1] = labels[i]
        vals = []
        extra_vals = []
        nonsquare = t != len(labels)          # equal counts take the transformer branch, which ignores log_probs
        for key, cs in (("", c0), ("_s", c1)):
            line = TextLine(id="l", logits=render(wm, d, cs), characters=chars)
            lc = np.asarray(get_line_confidence(line, lab, aligned_letters=al0.copy()), dtype=float)
            if key == "_s" and nonsquare:
                # the caller-supplied form (the ALTO export passes its own log-probabilities): asked twice with the SAME arrays,
                # the answers are part of the same observation (ranges, one-hot clause) and must not depend on the first call
                own = line.get_full_logprobs()
                al_own = al0.copy()
                again = [np.asarray(get_line_confidence(line, lab, aligned_letters=al_own, log_probs=own), dtype=float) for _ in (0, 1)]
                extra_vals.extend(again)
            let = np.exp(np.asarray(get_letter_confidence(line.get_dense_logits(), list(path), nc - 1), dtype=float))
            cmp_ = float(PageParser.compute_line_confidence(line))
            dense = line.get_dense_logits()
            lce = [bool(line_confident_enough(dense.copy(), k / (2.0 * d))) for k in range(2 * d + 1)]
            rec["lc" + key] = [_m6(x) for x in lc]
            rec["let" + key] = [_m6(x) for x in let]
            rec["cmp" + key] = _m6(cmp_)
            rec["lce" + key] = lce
            with np.errstate(all="ignore"):
                rec["lce_neg" + key] = [bool(line_confident_enough(dense.copy(), thr)) for thr in (-1.0, -0.001)]
                # the confident-line test as the system applies it: PageDecoder.decode_line keeps the line (prefix decoder not
                # called) or decodes it; thresholds in increasing order -1, -0.001, 0, 1/(2D), ..., 1
                rec["sys" + key] = [_system_confident(line, thr) for thr in [-1.0, -0.001] + [k / (2.0 * d) for k in range(2 * d + 1)]]
            vals.append((lc, let, cmp_))
        (lc, let, cm), (lcs, lets, cms) = vals
        if len(lc) != len(labels) or len(let) != len(labels) or len(lcs) != len(labels) or len(lets) != len(labels):
            rec["outcome"] = "wrong-number-of-confidences"
            return rec
        allv = np.concatenate([lc, let, [cm], lcs, lets, [cms]] + [e for e in extra_vals if len(e) == len(labels)])
        rec["over"] = _u12(max(float(np.max(allv - 1.0)), float(np.max(-allv))))
        rec["dshift"] = _u12(max([float(np.max(np.abs(lc - lcs))), float(np.max(np.abs(let - lets)))] +
                                 [float(np.max(np.abs(e - lcs))) for e in extra_vals if len(e) == len(labels)]))
        rec["dshift_cmp"] = _u12(abs(cm - cms))
        rec["one"] = _u12(float(np.max(1.0 - np.concatenate([lc, let, lcs, lets]))))
        rec["one_cmp"] = _u12(max(1.0 - cm, 1.0 - cms))
        if nonsquare and all(sum(1 for x in r if x) == 1 for r in wm):
            _auto_alignment(rec, wm, d, (c0, c1), chars, lab)
    except Exception as ex:      # part of the observation
        rec["outcome"] = "exception:" + type(ex).__name__
    return rec


def _auto_alignment(rec, wm, d, consts, chars, lab):
    """one-hot rows (which of them spell the transcription is decided by TLC from the recorded matrix): the way the SYSTEM asks -
    the ALTO / PAGE export aligns the transcription itself with `align_text` and hands that alignment and its own log-posteriors
    to get_line_confidence; merge_ocr_results passes no alignment at all.  Both forms, on both renderings; the alignment the code
    chose is recorded (al_auto, 1-based, of the first rendering) but not judged - any optimal alignment is admissible."""
    from pero_ocr.core.layout import TextLine
    from pero_ocr.core.confidence_estimation import get_line_confidence
    from pero_ocr.core.force_alignment import align_text
    try:
        got = []
        for cs in consts:
            line = TextLine(id="l", logits=render(wm, d, cs), characters=chars)
            got.append(np.asarray(get_line_confidence(line, lab), dtype=float))
            logprobs = line.get_full_logprobs()
            al_own = align_text(-logprobs, lab, logprobs.shape[1] - 1)
            if not rec["al_auto"]:
                rec["al_auto"] = [int(x) + 1 for x in al_own]
            got.append(np.asarray(get_line_confidence(line, lab, al_own, logprobs), dtype=float))
        if any(len(g) != len(lab) for g in got):
            rec["auto"] = "wrong-number-of-confidences"
            return
        allv = np.concatenate(got)
        if not np.isfinite(allv).all():
            rec["auto"] = "exception:NaN"
            return
        rec["lc_auto"] = [_m6(x) for x in got[0]]
        rec["over_auto"] = _u12(max(float(np.max(allv - 1.0)), float(np.max(-allv))))
        rec["one_auto"] = _u12(float(np.max(1.0 - allv)))
        rec["auto"] = "ok"
    except Exception as ex:      # part of the observation (judged by TLC only where the matrix spells the transcription)
        rec["auto"] = "exception:" + type(ex).__name__


HIST_KINDS = ("spelled", "rows", "rolled")


def _spelled(labels, al, t, nc, d):
    """the one-hot weight matrix that spells the transcription: label i on its aligned frame, blank elsewhere"""
    m = [[0] * nc for _ in range(t)]
    for f in range(t):
        m[f][nc - 1] = d
    for i, f in enumerate(al):
        m[f - 1] = [0] * nc
        m[f - 1][labels[i]] = d
    return m


class _LongLived:
    """ONE page / region / line / PageParser and one PageDecoder per threshold, kept for the whole history of a case: the logits
    of the line are replaced by assignment to its public `logits` attribute (what PageOCR.process_page and merge_ocr_results
    do to the lines of a page they are handed again) and every confidence is asked again through the same objects."""

    def __init__(self, chars, text, d):
        from pero_ocr.core.layout import PageLayout, RegionLayout, TextLine
        from pero_ocr.document_ocr.page_parser import PageDecoder, PageParser
        self.line = TextLine(id="l", characters=chars, transcription=text)
        self.page = PageLayout(id="p", page_size=(10, 10))
        region = RegionLayout("r", np.array([[0, 0], [9, 0], [9, 9], [0, 9]]))
        region.lines.append(self.line)
        self.page.regions.append(region)
        self.parser = PageParser.__new__(PageParser)
        self.thresholds = [-1.0, -0.001] + [k / (2.0 * d) for k in range(2 * d + 1)]
        self.decoders = []
        for thr in self.thresholds:
            probe = _ProbeDecoder()
            self.decoders.append((probe, PageDecoder(probe, line_confidence_threshold=thr, carry_h_over=False)))

    def keeps(self):
        out = []
        for probe, dec in self.decoders:
            probe.called = False
            keep = self.line.transcription
            dec.process_page(self.page)
            self.line.transcription = keep
            out.append(not probe.called)
        return out


def _observe(ll, lab, al0, path, nc, d):
    """every confidence of C16 that is derived from the logits the long-lived line carries NOW"""
    from pero_ocr.core.confidence_estimation import get_line_confidence, get_letter_confidence
    from pero_ocr.document_ocr.page_parser import PageParser, line_confident_enough
    line = ll.line
    lc = np.asarray(get_line_confidence(line, lab, aligned_letters=al0.copy()), dtype=float)
    let = np.exp(np.asarray(get_letter_confidence(line.get_dense_logits(), list(path), nc - 1), dtype=float))
    cmp_ = float(PageParser.compute_line_confidence(line))
    ll.parser.update_confidences(ll.page)
    upd = float(line.transcription_confidence)
    full = line.get_full_logprobs()          # what PageDecoder hands to the confident-line test
    with np.errstate(all="ignore"):
        lce = [bool(line_confident_enough(np.array(full), k / (2.0 * d))) for k in range(2 * d + 1)]
        lce_neg = [bool(line_confident_enough(np.array(full), thr)) for thr in (-1.0, -0.001)]
        sys_ = ll.keeps()
    return {"lc": lc, "let": let, "cmp": cmp_, "upd": upd, "lce": lce, "lce_neg": lce_neg, "sys": sys_}


def _step_rec(wm, o, nlab):
    rec = {"w": [list(r) for r in wm], "outcome": "ok", "lc": [_m6(x) for x in o["lc"]], "let": [_m6(x) for x in o["let"]],
           "cmp": _m6(o["cmp"]), "upd": _m6(o["upd"]), "lce": o["lce"], "lce_neg": o["lce_neg"], "sys": o["sys"], "over": 0, "one": 0, "one_cmp": 0}
    if len(o["lc"]) != nlab or len(o["let"]) != nlab:
        rec["outcome"] = "wrong-number-of-confidences"
        return rec
    allv = np.concatenate([o["lc"], o["let"], [o["cmp"], o["upd"]]])
    if not np.isfinite(allv).all():
        rec["outcome"] = "exception:NaN"
        return rec
    rec["over"] = _u12(max(float(np.max(allv - 1.0)), float(np.max(-allv))))
    rec["one"] = _u12(float(np.max(1.0 - np.concatenate([o["lc"], o["let"]]))))
    rec["one_cmp"] = _u12(max(1.0 - o["cmp"], 1.0 - o["upd"]))
    return rec


def _hist_case(item):
    """kind "hist": the history M1 -> M2 -> (failing call) -> M1 + constants -> one-hot on ONE long-lived line (see module docstring).
    The fields of a "line" trace hold step 1 (unshifted) and step 3 (shifted); "steps" holds steps 2 and 4 with their matrices."""
    from pero_ocr.core.confidence_estimation import get_line_confidence
    (wm, labels, al), seed = item
    t, nc, d = _CFG["T"], _CFG["NC"], _CFG["D"]
    rng = random.Random(seed)
    rec = {"kind": "hist", "w": [list(r) for r in wm], "labels": list(labels), "al": list(al), "seed": seed, "outcome": "ok",
           "lc": [], "lc_s": [], "let": [], "let_s": [], "cmp": 0, "cmp_s": 0, "lce": [], "lce_s": [], "lce_neg": [], "lce_neg_s": [], "sys": [], "sys_s": [],
           "over": 0, "dshift": 0, "dshift_cmp": 0, "one": 0, "one_cmp": 0, "steps": [], "second": "", "failing_call": False,
           "auto": "none", "al_auto": [], "lc_auto": [], "over_auto": 0, "one_auto": 0}
    try:
        c0 = [rng.uniform(-3, 3) for _ in range(t)]
        c1 = [x + rng.choice([-1, 1]) * rng.uniform(0.5, 4) for x in c0]
        c2 = [rng.uniform(-3, 3) for _ in range(t)]
        c3 = [rng.uniform(-3, 3) for _ in range(t)]
        second = HIST_KINDS[seed % len(HIST_KINDS)]
        spelled = _spelled(labels, al, t, nc, d)
        if second == "spelled":
            m2 = spelled
        elif second == "rows":
            rows = rows_of(nc, d)
            m2 = [list(rng.choice(rows)) for _ in range(t)]
        else:               # the same frames with the symbols rotated by one
            m2 = [list(r[1:]) + [r[0]] for r in wm]
        rec["second"] = second
        rec["failing_call"] = seed % 2 == 1
        chars = ALPHABET[:nc - 1] + ["~"]
        lab = np.array(labels)
        al0 = np.array([x - 1 for x in al])
        path = [nc - 1] * t
        for i, f in enumerate(al):
            path[f - 1] = labels[i]
        ll = _LongLived(chars, "".join(chars[x] for x in labels), d)
        obs = []
        for k, (m, cs) in enumerate(((wm, c0), (m2, c2), (wm, c1), (spelled, c3))):
            if k == 2 and rec["failing_call"]:
                # a call that may fail on the long-lived line between two uses (a label outside the alphabet; the outcome of this
                # call is not judged): the next answers must still be about the logits the line carries then
                try:
                    get_line_confidence(ll.line, np.array([nc + 7] * len(labels)), aligned_letters=al0.copy())
                except Exception:
                    pass
            ll.line.logits = render(m, d, cs)
            obs.append(_observe(ll, lab, al0, path, nc, d))
        o1, o2, o3, o4 = obs
        for key, o in (("", o1), ("_s", o3)):
            rec["lc" + key] = [_m6(x) for x in o["lc"]]
            rec["let" + key] = [_m6(x) for x in o["let"]]
            rec["cmp" + key] = _m6(o["cmp"])
            rec["lce" + key] = o["lce"]
            rec["lce_neg" + key] = o["lce_neg"]
            rec["sys" + key] = o["sys"]
        n = len(labels)
        if any(len(o[k]) != n for o in (o1, o3) for k in ("lc", "let")):
            rec["outcome"] = "wrong-number-of-confidences"
            return rec
        allv = np.concatenate([o1["lc"], o1["let"], [o1["cmp"], o1["upd"]], o3["lc"], o3["let"], [o3["cmp"], o3["upd"]]])
        if not np.isfinite(allv).all():
            rec["outcome"] = "exception:NaN"
            return rec
        rec["over"] = _u12(max(float(np.max(allv - 1.0)), float(np.max(-allv))))
        rec["dshift"] = _u12(max(float(np.max(np.abs(o1["lc"] - o3["lc"]))), float(np.max(np.abs(o1["let"] - o3["let"])))))
        rec["dshift_cmp"] = _u12(max(abs(o1["cmp"] - o3["cmp"]), abs(o1["upd"] - o3["upd"])))
        rec["one"] = _u12(float(np.max(1.0 - np.concatenate([o1["lc"], o1["let"], o3["lc"], o3["let"]]))))
        rec["one_cmp"] = _u12(max(1.0 - o1["cmp"], 1.0 - o3["cmp"], 1.0 - o1["upd"], 1.0 - o3["upd"]))
        rec["steps"] = [_step_rec(m2, o2, n), _step_rec(spelled, o4, n)]
    except Exception as ex:      # part of the observation
        rec["outcome"] = "exception:" + type(ex).__name__
    return rec


def hist_items(cases, seed, n):
    """a seeded sample of the TLC initial states for the history cases (own generator: the other samples stay as they were)"""
    rng = random.Random(seed * 7919 + 16)
    pick = cases if len(cases) <= n else rng.sample(cases, n)
    return [(cs, (seed % 1000) * 1000000 + 700000 + i) for i, cs in enumerate(pick)]


def bag_cases():
    out = []
    for n in (1, 2, 3):
        for v in itertools.product((1, 2, 3), repeat=n):
            for lm in itertools.product((1, 4, 9), repeat=n):
                for scale in ("none", "0", "half", "1", "2"):
                    if scale == "none" and any(x != 1 for x in lm):
                        continue
                    out.append((v, lm, scale))
    return out


CALLER_MUTATIONS = ("exp-in-place", "reverse", "sort", "append", "truncate", "clear")


def _caller_mutates(lst, how):
    """what a caller may do with a container a query HANDED to it (its own object from then on)"""
    if how == "exp-in-place":
        for i in range(len(lst)):
            lst[i] = math.exp(min(50.0, lst[i]))
    elif how == "reverse":
        lst.reverse()
    elif how == "sort":
        lst.sort()
    elif how == "append":
        lst.append(0.0)
    elif how == "truncate":
        del lst[1:]
    else:
        lst.clear()


def _after_caller_mutations(bag, n):
    """history on ONE long-lived bag: the caller modifies IN PLACE what the last queries returned (the list of posteriors(), the
    list of total_scores()) and asks the same bag again - a result handed to the caller must not alias the bag's state, so every
    later answer is still about the hypotheses the bag holds (sum to 1, range, confidence = largest posterior).  A modification
    the returned container does not support (e.g. an ndarray cannot be truncated) is skipped: it is the caller's step, not an
    observation.  Returns the observations (post, conf, tconf, 0.0) after each modification."""
    out = []
    for how in CALLER_MUTATIONS:
        for query in (bag.posteriors, bag.total_scores):
            got = query()
            try:
                _caller_mutates(got, how)
            except Exception:
                pass
        post = [float(math.exp(p)) for p in bag.posteriors()]
        out.append((post, float(bag.confidence()), [float(bag.transcript_confidence("h%d" % i)) for i in range(n)], 0.0))
    return out


def _bag_case(item):
    from pero_ocr.decoding.bag_of_hypotheses import BagOfHypotheses
    (v, lm, scale), seed = item
    rng = random.Random(seed)
    n = len(v)
    rec = {"kind": "bag", "v": list(v), "lm": list(lm), "scale": "0" if scale == "none" else scale, "has_lm": scale != "none", "seed": seed,
           "wide": False, "mutated": list(CALLER_MUTATIONS), "outcome": "ok", "post": [], "conf": 0, "tconf": [], "tabsent": 0, "sumdev": 0, "over": 0, "dshift": 0, "confdev": 0}
    try:
        weight = {"none": 1.0, "0": 0.0, "half": 0.5, "1": 1.0, "2": 2.0}[scale]
        mixed = scale != "none" and seed % 3 == 0 and 9 in lm and any(x != 9 for x in lm)
        if mixed:
            # BagOfHypotheses.total_scores() falls back to the visual scores when any LM score is missing: for the exact-value
            # (drift) clause the bag is the one with LM weight 0
            rec["has_lm"] = False
            rec["scale"] = "0"
        const = rng.uniform(-30, 5)                 # visual scores are un-normalised log-probabilities
        obs = []
        for cst in (const, const + rng.choice([-1, 1]) * rng.uniform(0.5, 10)):     # the same bag with every score shifted
            bag = BagOfHypotheses(lm_weight=weight)
            for i in range(n):
                # bags in which only some hypotheses carry an LM score (lm weight 9 stands for "no LM score" in every third bag)
                no_lm = scale == "none" or (mixed and lm[i] == 9)
                bag.add("h%d" % i, math.log(v[i]) + cst, None if no_lm else math.log(lm[i] / 10.0))
            post = [math.exp(p) for p in bag.posteriors()]
            conf = float(bag.confidence())
            tconf = [float(bag.transcript_confidence("h%d" % i)) for i in range(n)]
            tabs = float(bag.transcript_confidence("not in the bag"))
            obs.append((post, conf, tconf, tabs))
        # the same bag object queried again after its public lm_weight attribute was changed (and changed back): posteriors
        # must be normalised for the weight the bag holds now, not for the one it held at the first query
        extra = []
        if scale != "none":
            for w2 in (2.0 - weight, 0.25, weight):
                bag.lm_weight = w2
                p2 = [math.exp(p) for p in bag.posteriors()]
                extra.append((p2, float(bag.confidence()), [float(bag.transcript_confidence("h%d" % i)) for i in range(n)], 0.0))
        extra.extend(_after_caller_mutations(bag, n))
        post, conf, tconf, tabs = obs[0]
        obs_all = obs + extra
        rec["post"] = [_m6(p) for p in post]
        rec["conf"] = _m6(conf)
        rec["tconf"] = [_m6(p) for p in tconf]
        rec["tabsent"] = _m6(tabs)
        rec["sumdev"] = max(_u12(abs(sum(o[0]) - 1.0)) for o in obs_all)
        allv = [x for o in obs_all for x in o[0] + [o[1]] + o[2] + [o[3]]]
        rec["over"] = _u12(max(max(x - 1.0 for x in allv), max(-x for x in allv)))
        a = obs[0][0] + [obs[0][1]] + obs[0][2]
        b = obs[1][0] + [obs[1][1]] + obs[1][2]
        rec["dshift"] = _u12(max(abs(x - y) for x, y in zip(a, b)))
        rec["confdev"] = max(_u12(abs(o[1] - max(o[0]))) for o in obs_all)       # confidence() vs the largest posterior
    except Exception as ex:
        rec["outcome"] = "exception:" + type(ex).__name__
    return rec


def _empty_case(nc):
    """a line whose logit matrix has zero frames: the confidence PageParser reports for it is still a number in [0, 1]"""
    from pero_ocr.core.layout import PageLayout, RegionLayout, TextLine
    from pero_ocr.document_ocr.page_parser import PageParser
    rec = {"kind": "empty", "nc": nc, "outcome": "ok", "cmp": 0, "over": 0}
    try:
        line = TextLine(id="l", logits=sp.csc_matrix(np.zeros((0, nc))), characters=ALPHABET[:nc - 1] + ["~"], transcription="")
        vals = [float(PageParser.compute_line_confidence(line))]
        page = PageLayout(id="p", page_size=(10, 10))
        region = RegionLayout("r", np.array([[0, 0], [9, 0], [9, 9], [0, 9]]))
        region.lines.append(line)
        page.regions.append(region)
        pp = PageParser.__new__(PageParser)
        pp.update_confidences(page)
        vals.append(float(line.transcription_confidence))
        if any(v != v for v in vals):
            rec["outcome"] = "exception:NaN"
            return rec
        rec["cmp"] = _m6(vals[0])
        rec["over"] = _u12(max(max(v - 1.0 for v in vals), max(-v for v in vals)))
    except Exception as ex:
        rec["outcome"] = "exception:" + type(ex).__name__
    return rec


def _long_line_case(frames):
    """a line of more than 1000 frames (a very wide crop) whose characters are spread over all of them: the per-character
    confidences and the line confidence are still numbers in [0, 1] (judged like the zero-frame lines: kind "empty")"""
    from pero_ocr.core.layout import TextLine
    from pero_ocr.core.confidence_estimation import get_line_confidence
    from pero_ocr.document_ocr.page_parser import PageParser
    nc = 4
    rec = {"kind": "empty", "nc": nc, "frames": frames, "outcome": "ok", "cmp": 0, "over": 0}
    try:
        labels = [0, 1, 2, 0, 1, 0, 2]
        rows = np.full((frames, nc), -12.0)
        rows[:, nc - 1] = 4.0
        for p_, lab in zip(np.linspace(5, frames - 5, len(labels)).astype(int), labels):
            rows[p_, :] = -12.0
            rows[p_, lab] = 4.0
        line = TextLine(id="l", logits=sp.csc_matrix(rows), characters=ALPHABET[:nc - 1] + ["~"], transcription="x")
        conf = np.asarray(get_line_confidence(line, np.array(labels)), dtype=float)
        vals = list(conf) + [float(PageParser.compute_line_confidence(line))]
        if len(conf) != len(labels) or any(v != v for v in vals):
            rec["outcome"] = "exception:wrong-number-or-NaN"
            return rec
        rec["cmp"] = _m6(vals[-1])
        rec["over"] = _u12(max(max(v - 1.0 for v in vals), max(-v for v in vals)))
    except Exception as ex:
        rec["outcome"] = "exception:" + type(ex).__name__
    return rec


WIDE_VIS = (0.0, -3.0, -40.0, -400.0, -800.0, -1500.0)
WIDE_LM = (None, -0.5, -20.0, -300.0, -900.0)
WIDE_WEIGHTS = (0.0, 0.5, 1.0, 2.0, 80.0)


def _wide_bag_case(seed):
    """bags with a large dynamic range: hypotheses hundreds of nats apart, in any order (the first hypothesis is not the best
    one), LM scores that disagree with the visual scores, large LM weights.  Only the clauses of the statement are judged
    (range, sum to 1, invariance under a constant added to every score, confidence = largest posterior), not exact values."""
    from pero_ocr.decoding.bag_of_hypotheses import BagOfHypotheses
    rng = random.Random(seed)
    n = rng.choice((1, 2, 2, 3, 3, 4))
    vis = [rng.choice(WIDE_VIS) + rng.uniform(-1, 0) for _ in range(n)]
    lms = [rng.choice(WIDE_LM) for _ in range(n)]
    if rng.random() < 0.6:
        lms = [(-1.0 if x is None else x) for x in lms]            # every hypothesis has an LM score: the LM weight matters
    weight = rng.choice(WIDE_WEIGHTS)
    rec = {"kind": "bag", "v": [1] * n, "lm": [1] * n, "scale": "0", "has_lm": False, "seed": seed, "wide": True, "mutated": list(CALLER_MUTATIONS),
           "vis": ["%.3f" % x for x in vis], "lms": [str(x) for x in lms], "weight": str(weight),
           "outcome": "ok", "post": [], "conf": 0, "tconf": [], "tabsent": 0, "sumdev": 0, "over": 0, "dshift": 0, "confdev": 0}
    try:
        const = rng.uniform(-30, 5)
        obs = []
        with np.errstate(all="ignore"):
            for cst in (const, const + rng.choice([-1, 1]) * rng.uniform(0.5, 10)):
                bag = BagOfHypotheses(lm_weight=weight)
                for i in range(n):
                    bag.add("h%d" % i, vis[i] + cst, lms[i])
                post = [float(math.exp(p)) for p in bag.posteriors()]
                conf = float(bag.confidence())
                tconf = [float(bag.transcript_confidence("h%d" % i)) for i in range(n)]
                obs.append((post, conf, tconf, float(bag.transcript_confidence("not in the bag"))))
            obs.extend(_after_caller_mutations(bag, n))
        post, conf, tconf, tabs = obs[0]
        allv = [x for o in obs for x in o[0] + [o[1]] + o[2] + [o[3]]]
        if any(x != x for x in allv):
            rec["outcome"] = "exception:NaN"
            return rec
        rec["post"] = [_m6(p) for p in post]
        rec["conf"] = _m6(conf)
        rec["tconf"] = [_m6(p) for p in tconf]
        rec["tabsent"] = _m6(tabs)
        rec["sumdev"] = max(_u12(abs(sum(o[0]) - 1.0)) for o in obs)
        rec["over"] = _u12(max(max(x - 1.0 for x in allv), max(-x for x in allv)))
        a = obs[0][0] + [obs[0][1]] + obs[0][2]
        b = obs[1][0] + [obs[1][1]] + obs[1][2]
        rec["dshift"] = _u12(max(abs(x - y) for x, y in zip(a, b)))
        rec["confdev"] = max(_u12(abs(o[1] - max(o[0]))) for o in obs)
    except Exception as ex:
        rec["outcome"] = "exception:" + type(ex).__name__
    return rec


ALTO_TEXTS = ["a", "ab", "a b", "ab a", "ba ab"]
ALTO_CHARS = ["a", "b", " ", "z", "~"]
ALTO_PAIRS = [(8, 0), (6, 1), (4, 2), (3, 3), (2, 5)]      # (label weight, distractor weight) over 8 on the character's frame


def alto_cases(rng, per_text):
    out = []
    for text in ALTO_TEXTS:
        combos = list(itertools.product(range(len(ALTO_PAIRS)), repeat=len(text)))
        if len(combos) > per_text:
            combos = [combos[0]] + rng.sample(combos[1:], per_text - 1)
        out.extend((text, cb) for cb in combos)
    return out


def _alto_weights(text, pairs, dd):
    n = len(text)
    t = 2 * n + 1
    nc = len(ALTO_CHARS)
    w = np.zeros((t, nc))
    w[:, nc - 1] = dd
    for i, (a, b) in enumerate(pairs):
        f = 2 * i + 1
        w[f, :] = 0
        w[f, ALTO_CHARS.index(text[i])] = a
        w[f, ALTO_CHARS.index("z")] = b
        w[f, nc - 1] = dd - a - b
    return w.tolist(), t


def _alto_export(page, line, text, words):
    """one export of the (long-lived) page: the WC attributes of the words, the line confidence, the words that were judged"""
    import lxml.etree as ET
    xml = page.to_altoxml_string()
    root = ET.fromstring(xml.encode("utf-8"))
    strings = list(root.iter("{*}String"))
    if [e.get("CONTENT") for e in strings] == text.split():
        keep = [j for j, e in enumerate(strings) if e.get("WC") is not None]
    else:       # how the export cuts words is C06's business: only the line confidence is judged then
        keep = []
    wcs = [float(strings[j].get("WC")) for j in keep]
    lconf = float(line.transcription_confidence)
    allv = wcs + [lconf]
    return {"words": [words[j] for j in keep], "wc": [_m6(x) for x in wcs], "lconf": _m6(lconf),
            "over": _u12(max(max(x - 1.0 for x in allv), max(-x for x in allv))), "one": _u12(max(1.0 - x for x in allv))}


def _alto_case(item):
    """word / line confidences as the ALTO export reports them (median of the per-character confidences).
    Every second case is a HISTORY on one long-lived page: the page is exported with other logits on the line first (one or
    two earlier OCR results), then the line gets the logits of the case (assignment to `line.logits`, as a second OCR pass
    does) and is exported - that export is the observation of the case - and finally it gets one-hot logits and is exported
    once more.  "hsteps" holds the other exports in the order they happened (labw = label weights over dd, at = "before" /
    "after" the export of the case): each is judged on the logits the line carried at that export."""
    from pero_ocr.core.layout import PageLayout, RegionLayout, TextLine
    (text, combo), seed = item
    rng = random.Random(seed)
    dd = 8
    pairs = [ALTO_PAIRS[k] for k in combo]
    words, start = [], None
    for i, ch in enumerate(text + " "):
        if ch != " " and start is None:
            start = i + 1
        if ch == " " and start is not None:
            words.append([start, i])
            start = None
    rec = {"kind": "alto", "text": text, "combo": list(combo), "seed": seed, "dd": dd, "nums": [max(0, a - b) for a, b in pairs],
           "words": words, "onehot": all(a == dd for a, _ in pairs), "outcome": "ok", "wc": [], "lconf": 0, "over": 0, "one": 0, "hsteps": []}
    try:
        w, t = _alto_weights(text, pairs, dd)
        consts = [rng.uniform(-3, 3) for _ in range(t)]
        p = PageLayout(id="pg", page_size=(100, 300))
        r = RegionLayout("r1", np.array([[5, 5], [290, 5], [290, 95], [5, 95]]))
        line = TextLine(id="l1", baseline=np.array([[10.0, 60.0], [250.0, 60.0]]), polygon=np.array([[10, 35], [250, 35], [250, 72], [10, 72]]),
                        heights=[25, 12], transcription=text, characters=list(ALTO_CHARS), logit_coords=[0, t])
        r.lines.append(line)
        p.regions.append(r)

        def other_export(cb, at):
            prs = [ALTO_PAIRS[k] for k in cb]
            step = {"at": at, "combo": list(cb), "labw": [a for a, _ in prs], "outcome": "ok", "wc": [], "lconf": 0, "over": 0, "one": 0}
            try:
                w2, _ = _alto_weights(text, prs, dd)
                line.logits = render(w2, dd, [rng.uniform(-3, 3) for _ in range(t)])
                ex = _alto_export(p, line, text, words)
                step.update({k: ex[k] for k in ("wc", "lconf", "over", "one")})
            except Exception as ex:
                step["outcome"] = "exception:" + type(ex).__name__
            rec["hsteps"].append(step)

        history = seed % 2 == 0
        if history:
            for _ in range(1 + (seed // 2) % 2):
                other_export(tuple(rng.randrange(len(ALTO_PAIRS)) for _ in text), "before")
        line.logits = render(w, dd, consts)
        ex = _alto_export(p, line, text, words)
        rec.update(ex)
        if history:
            other_export(tuple(0 for _ in text), "after")
    except Exception as ex:
        rec["outcome"] = "exception:" + type(ex).__name__
    return rec


def _what_alto(tr):
    hist = ""
    if tr.get("hsteps"):
        hist = "; the same long-lived page was also exported with other logits assigned to the line: " + "; ".join(
            "%s with label weights %s/8 -> WC %s line confidence %s over=%s one=%s outcome=%s" % (
                h["at"], h["labw"], h["wc"], h["lconf"], h["over"], h["one"], h["outcome"]) for h in tr["hsteps"])
    return "ALTO export of text %r with per-character (label, distractor) weights %s/8 -> WC %s, line confidence %s (millionths), over=%s outcome=%s%s" % (
        tr["text"], [ALTO_PAIRS[k] for k in tr["combo"]], tr["wc"], tr["lconf"], tr["over"], tr["outcome"], hist)


def execute_lines(c, items):
    global _CFG
    _CFG = dict(c)
    return pmap(_line_case, items, procs=6)


def execute_hist(c, items):
    global _CFG
    _CFG = dict(c)
    return pmap(_hist_case, items, procs=6)


def judge(ctx, c, traces, what_of, name=None):
    name = name or _lab(c)
    consts = consts_of(c, strict=False)
    acc, rej = ctx.validate("Confidence_Trace", traces, constants=consts, shards=min(8, max(1, len(traces) // 300)),
                            label="Confidence_Trace (property clauses) " + name)
    bad = {idx for idx, _ in rej}
    for idx, clause in rej:
        tr = traces[idx]
        hist = "history:" if tr.get("kind") == "hist" or (tr.get("kind") == "alto" and tr.get("hsteps")) else ""
        ctx.violation({"cfg": c, "trace": tr, "clause": clause}, hist + SIGS.get(clause, "clause%d" % clause),
                      "%s%s; %s" % (CLAUSES.get(clause, "?"), " (long-lived line / page whose logits were re-assigned between the calls; each "
                                    "answer is judged against the logits the line carried at that call)" if hist else "", what_of(tr)))
    # drift: the same executions against the exact rationals of the model
    good = [tr for i, tr in enumerate(traces) if i not in bad]
    before = ctx.traces_validated
    acc2, rej2 = ctx.validate("Confidence_Trace", good, constants=consts_of(c, strict=True),
                              shards=min(8, max(1, len(good) // 300)), label="Confidence_Trace (exact values, drift only) " + name)
    ctx.traces_validated = before
    for idx, clause in rej2:
        ctx.model_drift("exact-value clause %d: %s" % (clause, CLAUSES.get(clause, "?")), 1, {"cfg": _lab(c), "trace": good[idx]})
    return rej, rej2


def _what_line(tr):
    if tr.get("kind") == "hist":
        def st(k):
            x = tr["steps"][k]
            return "weights %s -> line conf %s letter conf %s compute_line_confidence %s update_confidences %s over=%s one=%s one_cmp=%s confident_enough %s kept %s outcome=%s" % (
                x["w"], x["lc"], x["let"], x["cmp"], x["upd"], x["over"], x["one"], x["one_cmp"], x["lce"], x["sys"], x["outcome"])
        steps = "; ".join("step %d: %s" % (2 * k + 2, st(k)) for k in range(len(tr["steps"])))
        return ("ONE long-lived page/line/PageDecoder set, labels=%s alignment=%s; step 1: weights %s -> line conf %s letter conf %s "
                "compute_line_confidence %s confident_enough %s kept %s; step 3 (%sthe weights of step 1 + another constant per frame): line conf %s "
                "letter conf %s compute_line_confidence %s confident_enough %s kept %s; over=%s dshift=%s dshift_cmp=%s (1e-12); %s; outcome=%s" % (
                    tr["labels"], tr["al"], tr["w"], tr["lc"], tr["let"], tr["cmp"], tr["lce"], tr["sys"],
                    "after a failing call, " if tr.get("failing_call") else "", tr["lc_s"], tr["let_s"], tr["cmp_s"], tr["lce_s"], tr["sys_s"],
                    tr["over"], tr["dshift"], tr["dshift_cmp"], steps, tr["outcome"]))
    return ("weights=%s labels=%s alignment=%s -> line conf %s / shifted %s, letter conf %s / %s, compute_line_confidence %s / %s "
            "(millionths), over=%s dshift=%s dshift_cmp=%s (1e-12), confident_enough %s / %s, PageDecoder keeps the line at -1, -0.001, 0 .. 1: %s, outcome=%s" % (
                tr["w"], tr["labels"], tr["al"], tr["lc"], tr["lc_s"], tr["let"], tr["let_s"], tr["cmp"], tr["cmp_s"], tr["over"],
                tr["dshift"], tr["dshift_cmp"], tr["lce"], tr["lce_s"], tr.get("sys"), tr["outcome"])) + (
                    "; with the alignment the code finds itself (align_text -> frames %s): line conf %s, over_auto=%s one_auto=%s (1e-12), outcome=%s" % (
                        tr["al_auto"], tr["lc_auto"], tr["over_auto"], tr["one_auto"], tr["auto"]) if tr.get("auto", "none") != "none" else "")


def _what_bag(tr):
    return _what_bag0(tr) + ("; sumdev / over / confdev also cover the answers of the SAME bag after the caller modified in place the lists "
                             "that posteriors() / total_scores() had returned to it (%s)" % ", ".join(tr["mutated"]) if tr.get("mutated") else "")


def _what_bag0(tr):
    if tr.get("wide"):
        return "bag visual scores=%s (+ constant) lm scores=%s lm_weight=%s -> posteriors %s confidence %s sumdev=%s over=%s dshift=%s outcome=%s" % (
            tr["vis"], tr["lms"], tr["weight"], tr["post"], tr["conf"], tr["sumdev"], tr["over"], tr["dshift"], tr["outcome"])
    return "bag vis weights=%s lm weights=%s/10 lm_weight=%s has_lm=%s -> posteriors %s confidence %s sumdev=%s over=%s outcome=%s" % (
        tr["v"], tr["lm"], tr["scale"], tr["has_lm"], tr["post"], tr["conf"], tr["sumdev"], tr["over"], tr["outcome"])


def run(ctx):
    ctx.rule = ("every (row-normalised weight matrix with weights k/D incl. zeros = sparse-with-floor entries, label string over the non-blank "
                "symbols, CTC-valid alignment) = the initial states of the TLC run on Confidence, rendered as logits with a seeded constant "
                "per frame and again with a second constant per frame; every bag of 1..3 hypotheses with weights 1..3, LM weights "
                "{.1,.4,.9} and lm_weight in {none, 0, 1/2, 1, 2}; non-trivial = some character confidence strictly between 0 and 1; "
                "a seeded sample of the initial states (250 / 2500 per config) and every second ALTO case again as a history on one "
                "long-lived page / line (logits re-assigned between the calls); D = 1 configurations: every one-hot matrix (CTC output with "
                "runs of equal frames, adjacent characters, label strings of up to 3 characters), where the rows are one-hot also asked with the "
                "alignment the code finds itself (align_text)")
    ctx.assume("shift invariance is asserted with the alignment held fixed (Appendix D); compute_line_confidence only when every frame has a "
               "unique best symbol (a tie may flip under round-off)",
               "thresholds of the confident-line test compared across the shift lie strictly between attainable values (odd multiples of 1/(2D))",
               "tolerances: 1e-9 for range / invariance / one-hot, 1e-9 * n for the posterior sum, 2e-6 for equality with the exact rational (drift only)",
               "a stored logit of exactly 0.0 means 'absent' in the sparse encoding; shifts producing an exact 0.0 are not generated",
               "one-hot => 1 is asserted for every one-hot matrix whose hot symbols spell the transcription along a CTC path with runs, for every "
               "alignment that puts character i on a frame of its run (decided by TLC: Confidence!OneHotForOf) and for the alignment align_text finds",
               "history cases replace the logits of a long-lived line by assignment to its public `logits` attribute (what PageOCR.process_page "
               "and merge_ocr_results do); the statement is read as: every answer is about the posteriors the line carries at the call",
               "word / line confidences of the ALTO export (WC attribute, transcription_confidence) are observed on texts made of letters and single "
               "U+0020 spaces only; only their range and the one-hot case are property-level, the exact median is drift-level")
    ctx.exhaustive = True
    first = True
    for c in configs(ctx.tier):
        ctx.tlc("Confidence", constants=consts_of(c), invariants=INVS, workers=6, timeout=3000, label="Confidence " + _lab(c))
        cases, complete = line_cases(c, ctx.rng)
        if not complete:
            ctx.exhaustive = False
        items = [(cs, (ctx.seed % 1000) * 1000000 + i) for i, cs in enumerate(cases)]
        traces = execute_lines(c, items)
        for tr in traces:
            nt = any(0 < x < 1000000 for x in tr["lc"])
            ctx.count(1, (_lab(c), repr(tr["w"]), tuple(tr["labels"]), tuple(tr["al"])) if nt else None)
        # history: a seeded sample of the same initial states on ONE long-lived page / line / PageDecoder set per case
        htraces = execute_hist(c, hist_items(cases, ctx.seed, 250 if ctx.tier == "quick" else 2500))
        for tr in htraces:
            nt = any(0 < x < 1000000 for x in tr["lc"])
            ctx.count(1, ("hist", _lab(c), repr(tr["w"]), tuple(tr["labels"]), tuple(tr["al"]), tr["second"]) if nt else None)
        ctx.sample({"config": _lab(c) + " history", "trace": next((tr for tr in htraces if any(0 < x < 1000000 for x in tr["lc"])), htraces[0])}, limit=5)
        traces = traces + htraces
        ctx.sample({"config": _lab(c), "trace": next((tr for tr in traces if any(0 < x < 1000000 for x in tr["lc"])), traces[0])}, limit=4)
        rej, rej2 = judge(ctx, c, traces, _what_line)
        if first and not rej:
            good = next(tr for tr in traces if tr["outcome"] == "ok" and 0 < tr["lc"][0] < 1000000)

            def corrupt(tr):
                tr["dshift"] = 5000000          # the confidence moved by 5e-6 under the shift
                return tr
            ctx.selftest_corrupt("Confidence_Trace", good, corrupt, constants=consts_of(c, strict=False))

            def corrupt2(tr):
                tr["over"] = 2000               # 2e-9 outside [0, 1]
                return tr
            ctx.selftest_corrupt("Confidence_Trace", good, corrupt2, constants=consts_of(c, strict=False))
        first = False
        if c["D"] == 1 and not rej:
            # binding of the round-8 one-hot clause: a matrix whose FIRST character holds a run of frames that reaches into the
            # evidence window of the second one (a,..,a,b for "ab", aligned first / last frame); a reported value of 1 - 5e-9
            # for the alignment passed in / for the alignment the code finds itself must be rejected
            t_, nc_ = c["T"], c["NC"]
            runs = [[1 if s_ == 0 else 0 for s_ in range(nc_)]] * (t_ - 1) + [[1 if s_ == 1 else 0 for s_ in range(nc_)]]
            good = next((tr for tr in traces if tr["kind"] == "line" and tr["w"] == runs and tr["labels"] == [0, 1]
                         and tr["al"] == [1, t_] and tr["auto"] == "ok"), None)
            if good is None:
                raise RuntimeError("C16: the run case a..ab / 'ab' is missing from the one-hot configuration " + _lab(c))

            def corrupt3(tr):
                tr["one"] = 5000
                return tr
            ctx.selftest_corrupt("Confidence_Trace", good, corrupt3, constants=consts_of(c, strict=False))

            def corrupt4(tr):
                tr["one_auto"] = 5000
                return tr
            ctx.selftest_corrupt("Confidence_Trace", good, corrupt4, constants=consts_of(c, strict=False))
    # bags of hypotheses
    c = configs("quick")[0]
    items = [(b, (ctx.seed % 1000) * 1000000 + i) for i, b in enumerate(bag_cases())]
    traces = pmap(_bag_case, items, procs=6)
    for tr in traces:
        ctx.count(1, ("bag", tuple(tr["v"]), tuple(tr["lm"]), tr["scale"], tr["has_lm"]) if len(tr["v"]) > 1 else None)
    ctx.sample({"config": "bag", "trace": traces[len(traces) // 2]}, limit=6)
    judge(ctx, c, traces, _what_bag, "bags of hypotheses")
    # bags with a large dynamic range, unsorted, with disagreeing LM scores and large LM weights (a seeded sample)
    nwide = 1500 if ctx.tier == "quick" else 20000
    traces = pmap(_wide_bag_case, [(ctx.seed % 1000) * 1000000 + 500000 + i for i in range(nwide)], procs=6)
    for tr in traces:
        ctx.count(1, ("widebag", tuple(tr["vis"]), tuple(tr["lms"]), tr["weight"]) if len(tr["vis"]) > 1 else None)
    ctx.sample({"config": "bag", "trace": traces[len(traces) // 2]}, limit=6)
    judge(ctx, c, traces, _what_bag, "wide-range bags of hypotheses")
    # lines without a single frame
    traces = [_empty_case(nc) for nc in (2, 3, 5)] + [_long_line_case(fr) for fr in (1001, 1500, 2500, 4100)]
    for tr in traces:
        ctx.count(1, None)
    judge(ctx, c, traces, lambda tr: "line with a %d x %d logit matrix: confidences / compute_line_confidence give %s (millionths), over=%s, outcome=%s" % (
        tr.get("frames", 0), tr["nc"], tr["cmp"], tr["over"], tr["outcome"]), "zero-frame and very long lines")
    # word and line confidences as reported by the ALTO export
    items = [(cs, (ctx.seed % 1000) * 1000000 + i) for i, cs in enumerate(alto_cases(ctx.rng, 120 if ctx.tier == "quick" else 800))]
    ctx.exhaustive = False       # the ALTO cases are a seeded sample of the per-character weight combinations
    traces = pmap(_alto_case, items, procs=6)
    for tr in traces:
        ctx.count(1, ("alto", tr["text"], tuple(tr["combo"])) if any(0 < x < 8 for x in tr["nums"]) else None)
    ctx.sample({"config": "alto", "trace": traces[len(traces) // 2]}, limit=7)
    judge(ctx, c, traces, _what_alto, "ALTO word/line confidences")
    ctx.notes["explanation"] = ("TLC exhaustive on Confidence (exact rationals; invariants %s) per config; each initial state rendered as sparse logits "
                                "twice (two different per-frame constants) and evaluated by get_line_confidence (CTC and transformer branch), "
                                "get_letter_confidence, PageParser.compute_line_confidence, line_confident_enough; bags by BagOfHypotheses; "
                                "fixed-point values judged by TLC in Confidence_Trace; a seeded sample of the initial states and every second ALTO case also as a "
                                "HISTORY on one long-lived page / line / PageDecoder set (logits re-assigned 4 times, a failing call in between), every step "
                                "judged by TLC on the matrix recorded for that step" % INVS)


def replay(ctx, case):
    c = case["cfg"]
    tr = case["trace"]
    if tr["kind"] in ("line", "hist"):
        item = ((tuple(tuple(r) for r in tr["w"]), tuple(tr["labels"]), tuple(tr["al"])), tr["seed"])
        traces = execute_hist(c, [item]) if tr["kind"] == "hist" else execute_lines(c, [item])
        judge(ctx, c, traces, _what_line)
    elif tr["kind"] == "alto":
        traces = [_alto_case(((tr["text"], tuple(tr["combo"])), tr["seed"]))]
        judge(ctx, c, traces, _what_alto)
    elif tr["kind"] == "empty":
        judge(ctx, c, [_long_line_case(tr["frames"]) if tr.get("frames") else _empty_case(tr["nc"])], lambda t: "line with a 0 x %d logit matrix: %s" % (t["nc"], t))
    else:
        scale = tr["scale"] if tr["has_lm"] else "none"
        traces = [_wide_bag_case(tr["seed"])] if tr.get("wide") else [_bag_case(((tuple(tr["v"]), tuple(tr["lm"]), scale), tr["seed"]))]
        judge(ctx, c, traces, _what_bag)
