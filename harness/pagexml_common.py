"""Shared by the C01 driver: build real pero_ocr PageLayout objects from abstract pages (the states of
spec/PageXml.tla), drive Build; Export v; Load; Export v'; Load; Export v' through the real code and project every
live object / written document back onto the abstract state (integers and tokens only).

Units (as in PageXml.tla): page coordinates in quarters, page heights in 1/80, page confidences in 1/128000;
document coordinates integers, heights tenths, confidences thousandths.  Optional = [] or [v]."""
import hashlib
import itertools
import logging
import os
import re
from decimal import Decimal
from fractions import Fraction

import lxml.etree as ET
import numpy as np

from pero_ocr.core.layout import PageLayout, RegionLayout, TextLine, PAGEVersion

logging.getLogger("pero_ocr.core.layout").setLevel(logging.ERROR)

OFFGRID = -1
BAD = 1000003            # projection of a value that is not on the expected grid / of the expected type
BADTOK = 999             # projection of a string that is not in the token table

# token 0 is always the empty string.  One representative per class of the property's quantifier.
TEXTS = ["", "plain text", " lead & trail  ", "<tag a=\"1\">&amp;'</tag>", "é ạ̈ ñ",
         "שלום مرحبا abc", "\U0001F600\U00010348 \U0002000B",
         "tab\there\nnew line", "a\rb\r\nc", "  ", "]]> <!-- x --> &#65; %s {0}", "  \u0085﻿x�"]
PIDS = ["page 1.jpg", "stránka <&>'\" \U0001F600.png"]
TYPES = ["paragraph", "heading & <note>"]
VERSIONS = {1: PAGEVersion.PAGE_2019_07_15, 2: PAGEVersion.PAGE_2013_07_15}
NS = {1: "http://schema.primaresearch.org/PAGE/gts/pagecontent/2019-07-15",
      2: "http://schema.primaresearch.org/PAGE/gts/pagecontent/2013-07-15"}


def default_tables():
    return {"texts": list(TEXTS), "pids": list(PIDS), "types": list(TYPES)}


# ------------------------------------------------------------------------------------------ abstract -> real
def _pts(ps):
    return np.array([[x / 4.0, y / 4.0] for x, y in ps], dtype=np.float64)


def _opt_tok(o, table):
    return None if not o else table[o[0]]


def build_real(ap, tables):
    """abstract page (dict) -> real PageLayout.  Only exactly representable binary fractions are produced."""
    page = PageLayout(id=tables["pids"][ap["pid"]], page_size=(ap["size"][0], ap["size"][1]))
    if ap["hasRO"]:
        page.reading_order = {rid: idx for rid, idx in ap["ro"]}
    for r in ap["regions"]:
        reg = RegionLayout(r["id"], _pts(r["poly"]), region_type=_opt_tok(r["typ"], tables["types"]))
        reg.transcription = _opt_tok(r["text"], tables["texts"])
        for l in r["lines"]:
            hts = None if not l["hts"] else [l["hts"][0] / 80.0, l["hts"][1] / 80.0]
            conf = None if not l["conf"] else l["conf"][0] / 128000.0
            reg.lines.append(TextLine(id=l["id"], baseline=_pts(l["bl"]), polygon=_pts(l["poly"]), heights=hts,
                                      transcription=_opt_tok(l["text"], tables["texts"]),
                                      transcription_confidence=conf, index=(l["idx"][0] if l["idx"] else None)))
        page.regions.append(reg)
    return page


# ------------------------------------------------------------------------------------------ real -> abstract
def _tok(s, table):
    if s is None:
        return []
    try:
        return [table.index(s)]
    except ValueError:
        return [BADTOK]


def _int(v):
    try:
        f = float(v)
        if f.is_integer() and abs(f) < 2 ** 30:
            return int(f)
    except Exception:
        pass
    return BAD


def _quarters(v):
    try:
        f = float(v) * 4
        if f.is_integer() and abs(f) < 2 ** 30:
            return int(f)
    except Exception:
        pass
    return BAD


def _pts_q(arr):
    if arr is None:
        return [[BAD, BAD]]
    try:
        out = [[_quarters(p[0]), _quarters(p[1])] for p in arr]
    except Exception:
        return [[BAD, BAD]]
    return out if out else [[BAD, BAD], [BAD, BAD], [BAD, BAD]]


def _h80(v):
    """height -> 1/80 units when the float is exactly a sixteenth or the double nearest to a tenth, else OFFGRID"""
    try:
        f = float(v)
        if not np.isfinite(f) or f < 0 or f > 1e6:
            return BAD
        if (f * 16).is_integer():
            return int(f * 16) * 5
        k = round(f * 10)
        if k / 10 == f:
            return k * 8
        return OFFGRID
    except Exception:
        return BAD


def _c128k(v):
    try:
        f = float(v)
        if not np.isfinite(f) or abs(f) > 1000:
            return BAD
        if (f * 1024).is_integer():
            return int(f * 1024) * 125
        k = round(f * 1000)
        if k / 1000 == f:
            return k * 128
    except Exception:
        pass
    return BAD


def _sid(v):
    return v if isinstance(v, str) else "<%s>" % type(v).__name__


def proj_page(page, tables):
    ro = page.reading_order
    out = {"pid": _tok(page.id, tables["pids"])[0] if page.id is not None else BADTOK,
           "size": [_int(page.page_size[0]), _int(page.page_size[1])] if len(page.page_size) == 2 else [BAD, BAD],
           "hasRO": ro is not None,
           "ro": [[_sid(k), _int(v)] for k, v in ro.items()] if ro is not None else [],
           "regions": []}
    for r in page.regions:
        lines = []
        for l in r.lines:
            hts = []
            if l.heights is not None:
                try:
                    hts = [_h80(l.heights[0]), _h80(l.heights[1])]
                except Exception:
                    hts = [BAD, BAD]
            lines.append({"id": _sid(l.id), "idx": [] if l.index is None else [_int(l.index)],
                          "bl": _pts_q(l.baseline), "poly": _pts_q(l.polygon), "hts": hts,
                          "text": _tok(l.transcription, tables["texts"]),
                          "conf": [] if l.transcription_confidence is None else [_c128k(l.transcription_confidence)]})
        out["regions"].append({"id": _sid(r.id), "typ": _tok(r.region_type, tables["types"]), "poly": _pts_q(r.polygon),
                               "text": _tok(r.transcription, tables["texts"]), "lines": lines})
    return out


_TS = re.compile(r"<(Created|LastChange)>[^<]*</\1>")


def strip_timestamps(s):
    return _TS.sub("", s)


def _dec(s, scale):
    try:
        d = Decimal(s.strip()) * scale
        if d == d.to_integral_value() and abs(d) < 2 ** 30:
            return int(d)
    except Exception:
        pass
    return BAD


def _doc_pts(el):
    if el is None or "points" not in el.attrib:
        return [[BAD, BAD]]
    out = []
    for t in el.attrib["points"].split(" "):
        xy = t.split(",")
        if len(xy) != 2:
            return [[BAD, BAD]]
        out.append([_dec(xy[0], 1), _dec(xy[1], 1)])
    return out or [[BAD, BAD]]


def _unicode_of(el, q, tables):
    te = el.find(q + "TextEquiv")
    if te is None:
        return [], None
    u = te.find(q + "Unicode")
    txt = "" if (u is None or u.text is None) else u.text
    return _tok(txt, tables["texts"]), te


def proj_doc(xml, tables):
    """independent reading of the written document (lxml only, none of pero_ocr's import code)"""
    root = ET.fromstring(xml.encode("utf-8"))
    ns = root.tag[1:].partition("}")[0] if root.tag.startswith("{") else ""
    ver = {v: k for k, v in NS.items()}.get(ns, 0)
    q = "{%s}" % ns
    pg = root.find(q + "Page")
    ro_el = pg.find(q + "ReadingOrder")
    ro = []
    if ro_el is not None:
        for e in ro_el.iter(q + "RegionRefIndexed"):
            ro.append([e.get("regionRef", "<none>"), _dec(e.get("index", "x"), 1)])
    doc = {"ver": ver, "pid": _tok(pg.get("imageFilename"), tables["pids"])[0] if pg.get("imageFilename") is not None else BADTOK,
           "size": [_dec(pg.get("imageHeight", "x"), 1), _dec(pg.get("imageWidth", "x"), 1)],
           "hasRO": ro_el is not None, "ro": ro, "regions": []}
    for r in pg.findall(q + "TextRegion"):
        rtext, _ = _unicode_of(r, q, tables)
        lines = []
        for l in r.findall(q + "TextLine"):
            hts = []
            m = re.search(r"heights_v2:\[([^,\]]*),([^,\]]*)\]", l.get("custom", ""))
            if m:
                hts = [_dec(m.group(1), 10), _dec(m.group(2), 10)]
            elif "custom" in l.attrib:
                hts = [BAD, BAD]
            ltext, te = _unicode_of(l, q, tables)
            conf = []
            if te is not None and te.get("conf") is not None:
                conf = [_dec(te.get("conf"), 1000)]
            lines.append({"id": l.get("id", "<none>"), "idx": [] if l.get("index") is None else [_dec(l.get("index"), 1)],
                          "hts": hts, "poly": _doc_pts(l.find(q + "Coords")), "bl": _doc_pts(l.find(q + "Baseline")),
                          "text": ltext, "conf": conf})
        doc["regions"].append({"id": r.get("id", "<none>"), "typ": _tok(r.get("type"), tables["types"]),
                               "poly": _doc_pts(r.find(q + "Coords")), "text": rtext, "lines": lines})
    return doc


def doc_hash(xml):
    return int(hashlib.sha1(strip_timestamps(xml).encode("utf-8")).hexdigest()[:7], 16)


# ------------------------------------------------------------------------------------------ behaviours
_WORKDIR = {"path": None}


def set_workdir(path):
    _WORKDIR["path"] = path


def _export(page, ver, via, tag):
    if via == "string":
        return page.to_pagexml_string(version=VERSIONS[ver])
    fn = os.path.join(_WORKDIR["path"], "px_%d_%s.xml" % (os.getpid(), tag))
    page.to_pagexml(fn, version=VERSIONS[ver])
    with open(fn, encoding="utf-8", newline="") as fh:
        return fh.read()


def _load(xml, via, tag):
    np.random.seed(12345)          # guess_line_heights_from_polygon samples baseline points
    if via == "string":
        p = PageLayout()
        p.from_pagexml_string(xml)
        return p
    fn = os.path.join(_WORKDIR["path"], "px_%d_%s_in.xml" % (os.getpid(), tag))
    with open(fn, "w", encoding="utf-8", newline="") as fh:
        fh.write(xml)
    try:
        if via == "file":
            p = PageLayout()
            p.from_pagexml(fn)
            return p
        return PageLayout(file=fn)         # via == "ctor"
    finally:
        os.remove(fn)


HOW_OF = {"string": "into", "file": "into", "ctor": "ctor"}


def perm_of(kind, n):
    """1-based order in which the n TextRegion elements are handed to the import"""
    ident = list(range(1, n + 1))
    if kind == "rev":
        return ident[::-1]
    if kind == "rot":
        return ident[1:] + ident[:1]
    return ident


def permute_xml(xml, pm):
    """what another tool may do between the two calls: the same document with its TextRegion elements re-ordered"""
    if pm == sorted(pm):
        return xml
    root = ET.fromstring(xml.encode("utf-8"))
    ns = root.tag[1:].partition("}")[0]
    pg = root.find("{%s}Page" % ns)
    regs = pg.findall("{%s}TextRegion" % ns)
    for r in regs:
        pg.remove(r)
    for i in pm:
        pg.append(regs[i - 1])
    return ET.tostring(root, encoding="utf-8", xml_declaration=True).decode("utf-8")


def run_case(case):
    """case = {"page": abstract page, "v1": 1|2, "v2": 1|2, "via1": .., "via2": .., "perm1": "id"|"rev"|"rot", "tables": {...}}
    via in {"string", "file", "ctor"}: the API variant used for the export/load pair; perm1: re-ordering of the TextRegion
    elements of the first document before it is loaded."""
    tables = case.get("tables") or default_tables()
    tr = {"page0": case["page"], "events": [], "outcome": "ok", "where": 0}
    try:
        page = build_real(case["page"], tables)
        built = proj_page(page, tables)
        if built != case["page"]:
            tr["outcome"] = "harness:build-mismatch"
            tr["built"] = built
            return tr
        plan = [("Export", case["v1"], case["via1"]), ("Load", 0, case["via1"]), ("Export", case["v2"], case["via2"]),
                ("Load", 0, case["via2"]), ("Export", case["v2"], case["via2"])]
        xml = None
        for k, (act, ver, via) in enumerate(plan):
            tr["where"] = k + 1
            if act == "Export":
                xml = _export(page, ver, "string" if via == "string" else "file", "e%d" % k)
                tr["events"].append({"a": "Export", "v": ver, "via": via, "how": "none", "pm": [], "doc": proj_doc(xml, tables),
                                     "hash": doc_hash(xml), "page": proj_page(page, tables)})
            else:
                written = tr["events"][-1]["doc"]
                pm = perm_of(case.get("perm1", "id") if k == 1 else "id", len(written["regions"]))
                given = permute_xml(xml, pm)
                if pm != sorted(pm):
                    want = dict(written, regions=[written["regions"][i - 1] for i in pm])
                    if proj_doc(given, tables) != want:
                        tr["outcome"] = "harness:permute-mismatch"
                        return tr
                page = _load(given, via, "l%d" % k)
                tr["events"].append({"a": "Load", "v": 0, "via": via, "how": HOW_OF[via], "pm": pm, "doc": EMPTY_DOC, "hash": 0,
                                     "page": proj_page(page, tables)})
    except Exception as ex:     # any failure of the real code is part of the observation
        tr["outcome"] = "exception:" + type(ex).__name__
        tr["error"] = str(ex)[:200]
    finally:
        for f in os.listdir(_WORKDIR["path"]):
            if f.startswith("px_%d_" % os.getpid()):
                try:
                    os.remove(os.path.join(_WORKDIR["path"], f))
                except OSError:
                    pass
    return tr


EMPTY_DOC = {"ver": 0, "pid": 0, "size": [0, 0], "hasRO": False, "ro": [], "regions": []}


# ------------------------------------------------------------------------------------------ page spaces
def mk_line(lid, idx=None, bl=((0, 0), (40, 0)), poly=((0, -20), (40, -20), (40, 12), (0, 12)), hts=None, text=None, conf=None):
    return {"id": lid, "idx": [] if idx is None else [idx], "bl": [list(p) for p in bl], "poly": [list(p) for p in poly],
            "hts": [] if hts is None else list(hts), "text": [] if text is None else [text], "conf": [] if conf is None else [conf]}


def mk_region(rid, lines=(), typ=None, text=None, poly=((2, 2), (202, 2), (202, 161), (2, 161))):
    return {"id": rid, "typ": [] if typ is None else [typ], "poly": [list(p) for p in poly],
            "text": [] if text is None else [text], "lines": list(lines)}


def mk_page(regions, ro=None, pid=0, size=(100, 200)):
    return {"pid": pid, "size": list(size), "hasRO": ro is not None, "ro": [list(p) for p in (ro or [])], "regions": list(regions)}


# coordinate sets in quarters: integers, exact halves (ties to even), negative values, quarters, many points
COORDS = [
    {"bl": ((0, 0), (40, 0)), "poly": ((0, -20), (40, -20), (40, 36), (0, 36))},
    # explicitly closed rings (last vertex = first), and a ring whose end points merely round to the same integer point
    {"bl": ((16, 16), (176, 16), (176, 32), (16, 16)), "poly": ((0, -20), (40, -20), (40, 36), (0, 36), (0, -20))},
    {"bl": ((0, 0), (40, 0)), "poly": ((0, -20), (40, -20), (40, 36), (0, 36), (1, -19))},
    {"bl": ((2, 6), (10, -14), (42, 30)), "poly": ((2, -6), (6, -10), (170, 10), (174, 14), (-2, 50))},
    {"bl": ((-12, 8), (20, 8)), "poly": ((-13, 1), (21, 3), (23, 41), (-15, 43))},
    {"bl": ((1, 3), (5, 7), (9, 11), (13, 15), (400, 18)), "poly": ((0, 0), (402, 0), (402, 82), (0, 82))},
]
HEIGHTS = [None, (820, 400), (20, 60), (5, 0), (100, 35)]     # 1/80: 10.25/5.0, 0.25/0.75 (ties), 0.0625/0, 1.25/0.4375
CONFS = [None, 0, 128000, 8000, 24000, 15375, 127875]          # 1/128000: 0, 1, 0.0625 (tie), 0.1875 (tie), 123/1024, 1023/1024
IDXS = [None, 0, 5]


def attribute_pages(ntexts, nconfs, nheights, ncoords, region_attrs):
    """1 region x 1 line; every combination of line text x confidence x heights x index x coordinate set
    (confidence only with a transcription), plus the region's own text / type and the page id varied one at a time."""
    pages = []
    texts = [None] + list(range(ntexts))
    for t, c, h, ix, cs in itertools.product(texts, CONFS[:nconfs], HEIGHTS[:nheights], IDXS, COORDS[:ncoords]):
        if t is None and c is not None:
            continue
        ln = mk_line("l-1", idx=ix, bl=cs["bl"], poly=cs["poly"], hts=h, text=t, conf=c)
        pages.append(mk_page([mk_region("r1", [ln], typ=0, text=t)]))
    if region_attrs:
        ln = mk_line("l 1", idx=None, hts=(820, 400), text=1, conf=8000)
        for rt, ty, pid in itertools.product([None] + list(range(ntexts)), [None, 0, 1], [0, 1]):
            pages.append(mk_page([mk_region("région:1", [ln], typ=ty, text=rt, poly=((1, 1), (3, 3), (-2, 6)))], pid=pid,
                                 size=(1, 30000)))
        # a region outline given as a closed ring
        pages.append(mk_page([mk_region("r1", [ln], typ=0, text=1, poly=((8, 8), (808, 8), (808, 648), (8, 648), (8, 8)))]))
    return pages


def structure_pages(region_ids, ro_values, lines_of):
    """every sequence of distinct regions from region_ids x (no reading order | every partial map region id -> ro_values (sparse indices included)
    in every dictionary order of at most ... ) ; region r carries lines_of[r] lines"""
    pages = []
    ids = list(region_ids)
    seqs = [p for n in range(len(ids) + 1) for p in itertools.permutations(ids, n)]
    ros = [None]
    for n in range(len(ids) + 1):
        for keys in itertools.combinations(ids, n):
            for vals in itertools.product(list(ro_values), repeat=n):
                ros.append(list(zip(keys, vals)))
                if n >= 2:
                    ros.append(list(zip(keys, vals))[::-1])     # dictionary order differs from region order
    for seq, ro in itertools.product(seqs, ros):
        regs = []
        for rid in seq:
            lines = [mk_line("%s-l%d" % (rid, j), idx=(None if j == 0 else 2 * (j - 1)), hts=(None if j == 1 else (160, 40)),
                             text=(None if j == 1 else 1), conf=None) for j in range(lines_of.get(rid, 0))]
            regs.append(mk_region(rid, lines))
        pages.append(mk_page(regs, ro=ro))
    return pages
