"""C03 - LM fusion: the LM score is the LM's own score; the result maximises vis + scale * LM (DESIGN.md section 4, C03).

Same machine as C02 (spec/CtcDecoder.tla) with the LM part switched on: a toy history-dependent LM (state = whole
prefix) implemented identically in TLA+ (LMw, EosW) and in Python (harness/ctc_common.ToyLM).  TLC proves LmExact /
LmExactEos on the design; every real execution (beam with LM scores after each frame, best_hyp(), confidence(),
returned state) is validated against CtcDecoder_Trace.

History: the bag a decode hands on is a long-lived object (public LM scale lm_weight, add(), sort()).  For a seeded sample of
the same matrices the bag is followed through a life - queried, re-weighted in place with other scales of the scope (0 =
LM-free scoring) and back, copied hypothesis by hypothesis into a bag of the caller, sorted, re-weighted - while the shared
decoder goes on to other lines (and, for a third of the cases, has just failed on a line that is not normalised); every query
is validated by TLC against the final beam of the model under the scale of the moment (spec/CtcBag_Trace.tla clauses L1..L5,
harness/lmbag_common.py).

Start states and kept arrays (round 9, harness/lmstart_common.py): histories of lines on one long-lived decoder + LM in which
consecutive calls get the same state OBJECT (or a per-call temporary at the same address) with different CONTENTS, and LM
flavours that hand out arrays they keep (row views of a table, memoised batches; also read-only).  Every line is an ordinary
CtcDecoder_Trace trace, validated with H0 = the start history the line was given; clause LmIntact: the LM's own tables still say
what the LM says.
"""
from .. import ctc_common as C
from .. import lmbag_common as B
from .. import lmstart_common as S
from . import c02
from ..core import MachineryFailure

LEVEL = "model_checking"
INVS = ["LmExact", "LmExactEos", "NoOverCount"]


def configs(ctx):
    L = lambda **kw: C.base_cfg(UseLm=True, **kw)
    q = [L(K=2, SP=1, SQ=1, Bonus=1), L(K=2, SP=0, SQ=1, Bonus=2, Eos=True), L(K=3, SP=1, SQ=2, Bonus=1, Eos=True, H0=2),
         L(K=2, SP=2, SQ=1, Bonus=2), L(K=3, SP=3, SQ=1, Bonus=1, H0=1), L(K=100, SP=1, SQ=1, Bonus=2, Eos=True),
         # the same toy LM behind the real LMWrapper / HiddenState (torch tensors, in-place state updates)
         L(K=1, SP=1, SQ=1, Bonus=1, Eos=True, lm_impl="wrapped"), L(K=2, SP=1, SQ=2, Bonus=2, H0=2, lm_impl="wrapped"),
         # the toy LM raised to the power 100 (single continuations score down to -138) with the LM scale divided by 100
         L(K=3, SP=1, SQ=2, Bonus=1, Eos=True, lm_impl="deep"), L(K=100, SP=1, SQ=1, Bonus=2, lm_impl="deep")]
    if ctx.tier == "quick":
        return q
    more = []
    for k in (1, 2, 3):
        for sp, sq in ((0, 1), (1, 2), (1, 1), (3, 2), (2, 1), (3, 1)):
            for bonus in (1, 2):
                for eos in (False, True):
                    more.append(L(K=k, SP=sp, SQ=sq, Bonus=bonus, Eos=eos, H0=(k + sp + bonus) % 3))
    more += [L(K=k, SP=sp, SQ=sq, Bonus=2, Eos=bool(k % 2), H0=k % 3, lm_impl="wrapped")
             for k in (1, 2, 3) for sp, sq in ((0, 1), (1, 1), (3, 2))]
    more += [L(K=k, SP=sp, SQ=sq, Bonus=1 + k % 2, Eos=bool(k % 2), H0=k % 3, lm_impl="deep")
             for k in (1, 2, 3) for sp, sq in ((0, 1), (1, 1), (3, 2))]
    more += [L(T=4, K=2, SP=1, SQ=1, Bonus=1, Eos=True), L(T=4, K=3, SP=2, SQ=1, Bonus=1, H0=1),
             L(T=4, K=2, SP=1, SQ=2, Bonus=2, Eos=True, H0=2), L(T=3, NC=3, D=3, K=3, SP=1, SQ=1, Bonus=2, Eos=True)]
    return [c for c in q + more if fits(c)]


def fits(cfg):
    """TLC integers are 32-bit: the order-preserving image vis^SQ * lm^SP of the largest possible total must stay below 2^31"""
    vis = cfg["D"] ** cfg["T"]
    lm = max(3 * cfg["Bonus"], cfg["M"]) ** cfg["T"] * (3 if cfg["Eos"] else 1)
    return vis ** cfg["SQ"] * lm ** cfg["SP"] < 2 ** 31


def _lab(cfg):
    return "T=%d NC=%d D=%d K=%d scale=%d/%d bonus=%d eos=%s h0=%d lm=%s" % (
        cfg["T"], cfg["NC"], cfg["D"], cfg["K"], cfg["SP"], cfg["SQ"], cfg["Bonus"], cfg["Eos"], cfg["H0"],
        cfg.get("lm_impl", "toy"))


# ---- the life of the bag handed on (spec/CtcBag_Trace.tla, harness/lmbag_common.py) -------------------------------------
LIFE_PER_CONFIG = {"quick": 240, "thorough": 600}


def life_scales(cfg):
    """the scales of the model a bag of this config may be re-weighted with: TLC's 32-bit integers must hold the image
    vis^sq * lm^sp of every total (as for the scale of the decode itself)"""
    return [s for s in B.SCALES if fits(dict(cfg, SP=s[0], SQ=s[1]))]


def life_configs(ctx, cfgs):
    """quick: one config per flavour of LM / pruning / end-of-line / initial state; thorough: those and every third other
    T=3 config"""
    ok = [c for c in cfgs if c["T"] == 3 and c["NC"] == 2 and len(life_scales(c)) >= 3
          # L4 (exact posterior for scale 0 / 1): 1000 * sum of totals stays far below 2^31
          and 2000 * c["D"] ** c["T"] * max(3 * c["Bonus"], c["M"]) ** c["T"] * 3 < 2 ** 31]
    want = [dict(K=2, SP=1, SQ=1, lm_impl=None), dict(K=3, SP=1, SQ=2, lm_impl=None), dict(K=100, lm_impl=None),
            dict(lm_impl="wrapped", K=2), dict(lm_impl="deep", K=3)]
    pick = []
    for w in want:
        for c in ok:
            if all(c.get(k) == v for k, v in w.items()) and c not in pick:
                pick.append(c)
                break
    if ctx.tier == "quick":
        return pick
    return pick + [c for c in ok if not any(c is p for p in pick)][::3]


def judge_life(ctx, cfg, traces):
    consts = C.tla_constants(cfg)
    acc, rej = ctx.validate("CtcBag_Trace", traces, constants=consts, shards=min(2, max(1, len(traces) // 100)),
                            label="CtcBag_Trace " + _lab(cfg))
    for tr in traces:
        nt = tr["outcome"] == "ok" and len(tr["frames"][0]) > 1
        ctx.count(1, ("life", tuple(map(tuple, tr["mat"])), _lab(cfg)) if nt else None)
    for idx, prog in rej:
        tr = traces[idx]
        sig, what = B.describe(tr, prog, cfg)
        ctx.violation({"kind": "life", "cfg": cfg, "trace": tr, "progress": prog}, sig,
                      "%s; config %s, matrix %s" % (what, _lab(cfg), tr["mat"]))
    return acc, rej


def run_life(ctx, cfg, mats):
    cfg = dict(cfg, salt=ctx.seed)
    traces = B.run_life(cfg, mats, life_scales(cfg))
    acc, rej = judge_life(ctx, cfg, traces)
    return cfg, traces, rej


# ---- start states and kept arrays (harness/lmstart_common.py) -----------------------------------------------------------
# one set of decoder constants (positive insertion bonus, end-of-line score, pruning beam); H0 varies per line
START_BASE = dict(K=3, SP=1, SQ=2, Bonus=2, Eos=True)
# (LM flavour, start-state mode, histories, blocks of NC + 1 lines per history)
START_QUICK = [("toy", "carry", 12, 4), ("toy", "temp", 12, 4), ("wrapped", "carry", 8, 3), ("wrapped", "temp", 8, 3),
               ("kept", "shared", 12, 4), ("frozen", "shared", 8, 4), ("kept", "temp", 8, 4), ("frozen", "carry", 8, 4)]


START_MODES = {"carry": "one state object, contents overwritten in place before every call",
               "temp": "a state built per call and dropped, the next one at the same address with other contents",
               "shared": "one never-modified state object per start history, None for the default start"}


def start_plan(ctx):
    """[(base constants, [(flavour, mode, histories, blocks)])]"""
    if ctx.tier == "quick":
        return [(START_BASE, START_QUICK)]
    every = [(f, m, 24, 6) for f in ("toy", "wrapped", "kept", "frozen") for m in S.MODES]
    plan = [(START_BASE, every), (dict(K=2, SP=1, SQ=1, Bonus=2, Eos=False), every),
            (dict(K=100, SP=2, SQ=1, Bonus=2, Eos=True), every), (dict(K=1, SP=1, SQ=1, Bonus=1, Eos=True), every)]
    assert all(fits(C.base_cfg(UseLm=True, **b)) for b, _ in plan)
    return plan


def _slab(cfg):
    return "%s lm=%s start=%s" % (_lab(cfg), cfg.get("lm_impl", "toy"), cfg["mode"])


def judge_starts(ctx, base, runs, selftest=False):
    """runs = [(cfg, histories, [(history number, line number, trace)])]; the lines are validated per start history (constant H0).
    selftest: a corrupted copy of one kept-array line rides along (binding of clause LmIntact: it must be rejected)"""
    import copy
    for h0 in range(base["NC"] + 1):
        pool = [(r, n, j, tr) for r, (cfg, hists, lines) in enumerate(runs) for n, j, tr in lines if tr["h0"] == h0]
        traces = [x[3] for x in pool]
        probe = None
        if selftest and "start_selftest" not in ctx.notes:
            probe = next((i for i, tr in enumerate(traces) if tr.get("lmown") and tr["outcome"] == "ok"), None)
            if probe is not None:
                bad = copy.deepcopy(traces[probe])          # the LM's table row of the start state with the insertion bonus folded in
                bad["lmown"][0]["w"] = [2 * x for x in bad["lmown"][0]["w"]]
                traces = traces + [bad]
        consts = C.tla_constants(dict(base, H0=h0))
        acc, rej = ctx.validate("CtcDecoder_Trace", traces, constants=consts, shards=max(1, min(3, len(pool) // 200)),
                                label="CtcDecoder_Trace start states " + _lab(dict(base, H0=h0)))
        if probe is not None:
            caught = any(idx == len(pool) for idx, _ in rej)
            rej = [(idx, prog) for idx, prog in rej if idx != len(pool)]
            ctx.traces_validated -= 0 if caught else 1
            if all(idx != probe for idx, _ in rej):         # the pristine line was accepted: its corrupted copy must not be
                if not caught:
                    raise MachineryFailure("binding self-test failed for CtcDecoder_Trace / LmIntact: a line whose recorded own LM "
                                           "table row was doubled is accepted")
                ctx.notes.setdefault("selftest_corrupted_trace_rejected", []).append(True)
                ctx.notes["start_selftest"] = "kept-array line whose recorded own table row is doubled: rejected (LmIntact)"
        for r, n, j, tr in pool:
            nt = tr["outcome"] == "ok" and len(tr["frames"]) and len(tr["frames"][-1]) > 1
            ctx.count(1, ("start", _slab(runs[r][0]), n, j) if nt else None)
        if pool:
            ctx.sample({"config": _slab(runs[pool[len(pool) // 2][0]][0]), "trace": pool[len(pool) // 2][3]}, limit=6)
        for idx, prog in rej:
            r, n, j, tr = pool[idx]
            cfg, hists, _ = runs[r]
            if tr["outcome"] != "ok":
                sig, what = "start/outcome", "outcome=%s not allowed by the specification" % tr["outcome"]
            elif prog < cfg["T"]:
                sig, what = "start/frame", C.first_bad_clause(tr, prog, cfg)
            else:
                sig, what = "start/final-bag", C.first_bad_clause(tr, prog, cfg) + " / the LM's own tables changed"
            ctx.violation({"kind": "start", "cfg": cfg, "history": hists[n], "line": j, "trace": tr, "progress": prog}, sig,
                          "%s; line %d (start history %s) of a history on one long-lived decoder and LM, LM flavour '%s', start-state "
                          "mode '%s' (%s); config %s, matrix %s" % (
                              what, j + 1, "<<%d>>" % tr["h0"] if tr["h0"] else "<<>>", cfg.get("lm_impl", "toy"), cfg["mode"],
                              START_MODES[cfg["mode"]], _lab(dict(cfg, H0=tr["h0"])), tr["mat"]))


def run_starts(ctx, done_designs):
    for base_kw, plan in start_plan(ctx):
        base = C.base_cfg(UseLm=True, **base_kw)
        # the design for every start history of these constants (those not model-checked above)
        for h0 in range(base["NC"] + 1):
            consts = C.tla_constants(dict(base, H0=h0))
            key = repr(sorted((k, repr(v)) for k, v in consts.items()))
            if key not in done_designs:
                done_designs.add(key)
                ctx.tlc("CtcDecoder", constants=consts, invariants=INVS, workers=8, timeout=3000,
                        label="CtcDecoder " + _lab(dict(base, H0=h0)))
        mats = list(C.all_matrices(base["T"], base["NC"], base["D"]))
        runs = []
        for k, (flavour, mode, n_hist, blocks) in enumerate(plan):
            cfg = dict(base, lm_impl=flavour, mode=mode)
            hists = S.make_histories(cfg, mats, n_hist, blocks, ctx.seed * 1000 + k)
            runs.append((cfg, hists, S.run_histories(cfg, hists)))
        judge_starts(ctx, base, runs, selftest=True)


def judge(ctx, cfg, traces):
    consts = C.tla_constants(cfg)
    acc, rej = ctx.validate("CtcDecoder_Trace", traces, constants=consts, label="CtcDecoder_Trace " + _lab(cfg))
    for tr in traces:
        nt = len(tr["frames"]) and len(tr["frames"][-1]) > 1
        ctx.count(1, (tuple(map(tuple, tr["mat"])), _lab(cfg)) if nt else None)
    ctx.sample({"config": _lab(cfg), "trace": traces[(len(traces) * 2) // 3]}, limit=4)
    for idx, prog in rej:
        tr = traces[idx]
        what = C.first_bad_clause(tr, prog, cfg)
        sig = "outcome" if tr["outcome"] != "ok" else ("frame" if prog < cfg["T"] else "final-bag")
        ctx.violation({"cfg": cfg, "trace": tr, "progress": prog}, sig,
                      "%s; config %s, matrix %s, best_hyp=%s" % (what, _lab(cfg), tr["mat"], tr["best"]))


def run(ctx):
    ctx.rule = ("every row-normalised matrix of the bounded shape decoded by the real decoder with a toy history-dependent LM "
                "for each (beam width, LM scale, insertion bonus, EOS, initial state) config; beams with LM scores after every "
                "frame, best_hyp(), confidence() and the returned state validated by TLC; non-trivial = more than one final hypothesis; "
                "for a seeded sample of the matrices the returned bag is re-weighted / re-filled / sorted and queried again (bag life); "
                "seeded histories of lines on one long-lived decoder + LM: the same start-state object (or address) with other contents "
                "from call to call, LMs handing out arrays they keep (also read-only)")
    ctx.exhaustive = True
    ctx.assume("toy LM with state = whole prefix (the LMWrapper interface is respected; real LSTM LMs are not exercised)",
               "LM scales are the rationals 0, 1/2, 1, 3/2, 2, 3; insertion bonus log 1 or log 2",
               "exact ties between hypotheses admit any maximiser")
    ctx.assume("start-state histories: start histories none / <<c>> (one character); at most 18 lines per history on one decoder")
    cfgs = configs(ctx)
    life = life_configs(ctx, cfgs)
    life_good = None
    done_designs = set()
    for cfg in cfgs:
        consts = C.tla_constants(cfg)
        done_designs.add(repr(sorted((k, repr(v)) for k, v in consts.items())))
        ctx.tlc("CtcDecoder", constants=consts, invariants=INVS, workers=8, timeout=3000, label="CtcDecoder " + _lab(cfg))
        mats = list(C.all_matrices(cfg["T"], cfg["NC"], cfg["D"]))
        if cfg["T"] >= 4:
            mats = ctx.rng.sample(mats, 8000)
            ctx.exhaustive = False
        cfg0 = cfg
        cfg = dict(cfg, salt=ctx.seed)
        traces = C.run_config(cfg, mats)
        judge(ctx, cfg, traces)
        if any(cfg0 is c for c in life):
            # the same matrices (a seeded sample in the quick tier), the bag handed on followed through its life
            n = LIFE_PER_CONFIG[ctx.tier]
            lmats = mats if len(mats) <= n else ctx.rng.sample(mats, n)
            lcfg, ltraces, lrej = run_life(ctx, cfg0, lmats)
            if life_good is None and not lrej:
                life_good = (lcfg, max(ltraces, key=lambda tr: len(tr["life"]) * 100 + len(tr["frames"][0])))
    run_starts(ctx, done_designs)
    if life_good is not None:
        def corrupt(tr):      # the bag answers the last query of its life with the confidence of another moment
            tr["life"][-1]["confset"] = [[9]]
            return tr
        ctx.selftest_corrupt("CtcBag_Trace", life_good[1], corrupt, constants=C.tla_constants(life_good[0]))
    ctx.notes["explanation"] = ("TLC exhaustive on CtcDecoder with the LM part per config (invariants %s); every matrix decoded by the real "
                                "decoder + BagOfHypotheses and validated by CtcDecoder_Trace (clauses: LM score per entry and frame, "
                                "best_hyp in arg-max of vis^q*lm^p, best_hyp carries the reported confidence, returned state belongs to a maximiser); "
                                "bag life (CtcBag_Trace): after every re-weighting / add / sort of a long-lived bag best_hyp maximises under the scale "
                                "of the moment, carries the reported confidence, and for scale 0 / 1 the confidence equals the exact posterior; "
                                "start-state histories (CtcDecoder_Trace with H0 = the start history of the line; LmIntact: the arrays an LM keeps "
                                "still hold the LM's own distribution after the line)" % INVS)


def replay(ctx, case):
    cfg = case["cfg"]
    if case.get("kind") == "life":
        mat = tuple(tuple(r) for r in case["trace"]["mat"])
        judge_life(ctx, cfg, B.run_life(cfg, [mat], life_scales(cfg), procs=1))
        return
    if case.get("kind") == "start":
        # the whole history again on a new long-lived decoder + LM; every line of it is judged again
        hists = [case["history"]]
        judge_starts(ctx, C.base_cfg(**{k: cfg[k] for k in C.base_cfg() if k in cfg}), [(cfg, hists, S.run_histories(cfg, hists, procs=1))])
        return
    traces = C.run_config(cfg, [tuple(tuple(r) for r in case["trace"]["mat"])])
    judge(ctx, cfg, traces)
