---------------------------- MODULE Stitch ----------------------------
(* Stitching the partial transcriptions of an over-long line (pero_ocr/ocr_engine/line_ocr_engine.py:
   merge_transcriptions_and_logits, find_best_overlap), C15.

   parts   the part transcriptions (sequences of symbols), extra[p] = surplus logit rows of part p
           (the logits of a part have Len(parts[p]) + extra[p] rows and are first shrunk to the text length);
   txt     the text merged so far; rows = the merged logits, every row tagged <<part, row index>>;
   Merge   one iteration of the loop: o = BestOverlap(txt, next part) (first suffix/prefix length whose character
           error rate is strictly below every shorter one and below 1), then
           keep txt[: len - ceil(o/2)] and append part[floor(o/2) :], logits alike.
   The module models the REPAIRED slice (explicit end index).  Legacy = TRUE is the current tree:
   txt[: -o // 2] which for o = 0 is txt[:0] -- everything merged so far is discarded.

   Properties at the bottom: LengthOK, StartsOK, EndsOK, RowsOK, RowOfChar, NoOverlapConcat, and the action
   property MergeOK (the permissive description of one merge used by the trace layer).                     *)
EXTENDS Naturals, Sequences, FiniteSets, TLC, SequencesExt
CONSTANTS Alphabet, MaxLen, MaxParts, Extras, Legacy

MinOf(S) == CHOOSE m \in S : \A o \in S : m <= o
Strs == UNION {[1..n -> Alphabet] : n \in 0..MaxLen}
\* unit-cost edit distance, row by row (Wagner-Fischer; the naive recursion is exponential on the 8-symbol windows
\* of the process_lines cases).  The exactness of levenshtein_distance itself is property C13.
Min3(a, b, c) == IF a <= b /\ a <= c THEN a ELSE IF b <= c THEN b ELSE c
LevRow(prev, ch, t) ==
  LET RECURSIVE f(_, _)
      f(j, acc) == IF j > Len(t) THEN acc
                   ELSE f(j + 1, acc @@ (j :> Min3(prev[j] + 1, acc[j - 1] + 1, prev[j - 1] + (IF t[j] = ch THEN 0 ELSE 1))))
  IN f(1, (0 :> prev[0] + 1))
Lev(s, t) ==
  LET RECURSIVE g(_, _)
      g(i, row) == IF i > Len(s) THEN row[Len(t)] ELSE g(i + 1, LevRow(row, s[i], t))
  IN g(1, [j \in 0..Len(t) |-> j])
Suffix(s, n) == SubSeq(s, Len(s) - n + 1, Len(s))
Prefix(s, n) == SubSeq(s, 1, n)
CeilHalf(o) == (o + 1) \div 2        \* -(-o // 2)
FloorHalf(o) == o \div 2

\* find_best_overlap: first i whose CER (= Lev / i, compared as fractions) is strictly below every earlier one and below 1
BestOverlap(a, b) ==
  LET m == IF Len(a) < Len(b) THEN Len(a) ELSE Len(b)
      cer(i) == <<Lev(Suffix(a, i), Prefix(b, i)), i>>                 \* numerator / denominator
      less(x, y) == x[1] * y[2] < y[1] * x[2]
      RECURSIVE go(_, _, _)
      go(i, best, bo) == IF i > m THEN bo
                         ELSE IF less(cer(i), best) THEN go(i + 1, cer(i), i) ELSE go(i + 1, best, bo)
  IN go(1, <<1, 1>>, 0)

VARIABLES parts, extra, k, txt, rows, overlaps
vars == <<parts, extra, k, txt, rows, overlaps>>

Tags(p, n) == [j \in 1..n |-> <<p, j>>]
\* logits of part p after shrinking to the text length
Shrunk(p) == Tags(p, Len(parts[p]))

Init == /\ parts \in UNION {[1..n -> Strs] : n \in 1..MaxParts}
        /\ extra \in [1..Len(parts) -> Extras]
        /\ k = 1 /\ txt = parts[1] /\ rows = Tags(1, Len(parts[1])) /\ overlaps = <<>>

\* the result of one merge: <<text, rows>>
MergeTwo(tx, rw, t, rt, o) ==
  LET keep == IF Legacy /\ o = 0 THEN 0 ELSE Len(tx) - CeilHalf(o)
  IN <<SubSeq(tx, 1, keep) \o SubSeq(t, FloorHalf(o) + 1, Len(t)),
       SubSeq(rw, 1, IF Legacy /\ o = 0 THEN 0 ELSE Len(rw) - CeilHalf(o)) \o SubSeq(rt, FloorHalf(o) + 1, Len(rt))>>

Merge == /\ k < Len(parts) /\ k' = k + 1
         /\ LET t == parts[k + 1]
                o == BestOverlap(txt, t)
                m == MergeTwo(txt, rows, t, Shrunk(k + 1), o)
            IN /\ txt' = m[1] /\ rows' = m[2]
               /\ overlaps' = Append(overlaps, o)
         /\ UNCHANGED <<parts, extra>>
Next == Merge
Spec == Init /\ [][Next]_vars

\* ======================================== properties (C15) ==========================================
Sum(s) == LET RECURSIVE f(_)
              f(i) == IF i = 0 THEN 0 ELSE s[i] + f(i - 1)
          IN f(Len(s))
\* the statement applied to one merge of (text so far, next part) with detected overlap o
StepOK(tx, t, o, ntx, nrows) ==
    /\ Len(ntx) = Len(tx) + Len(t) - o                                      \* length = sum of lengths - overlap
    /\ IsPrefix(Prefix(tx, Len(tx) - CeilHalf(o)), ntx)                     \* begins with the first part less <= half the overlap
    /\ IsSuffix(SubSeq(t, FloorHalf(o) + 1, Len(t)), ntx)                   \* ends with the last part (from floor(o/2) on) ...
    /\ (o <= Len(tx) /\ o <= Len(t) /\ Suffix(tx, o) = Prefix(t, o)) => IsSuffix(t, ntx)   \* ... in full when the overlap is exact
    /\ nrows = Len(ntx)                                                     \* one logits row per merged character
    /\ o = 0 => ntx = tx \o t                                               \* no overlap / empty part: concatenated unchanged
    \* parts that cannot share an overlap (no symbol in common) are concatenated unchanged, whatever overlap was "detected"
    /\ ({tx[i] : i \in 1..Len(tx)} \cap {t[i] : i \in 1..Len(t)} = {}) => ntx = tx \o t

MergeOK == [][k' = k + 1 => StepOK(txt, parts[k'], overlaps'[k], txt', Len(rows'))]_vars

Done == k = Len(parts)
LengthOK == Len(txt) = Sum([j \in 1..k |-> Len(parts[j])]) - Sum(overlaps)
StartsOK == (k = 2) => IsPrefix(Prefix(parts[1], Len(parts[1]) - CeilHalf(overlaps[1])), txt)
EndsOK == (k >= 2) => IsSuffix(SubSeq(parts[k], FloorHalf(overlaps[k - 1]) + 1, Len(parts[k])), txt)
RowsOK == Len(rows) = Len(txt)
\* every row is the row of its character
RowOfChar == \A j \in 1..Len(rows) : j <= Len(txt) /\ parts[rows[j][1]][rows[j][2]] = txt[j]
NoOverlapConcat == (\A j \in 1..Len(overlaps) : overlaps[j] = 0) => txt = FlattenSeq(SubSeq(parts, 1, k))
=============================================================================
