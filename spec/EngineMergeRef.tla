--------------------------- MODULE EngineMergeRef ---------------------------
(* Refinement: seen from any line k and any engine j, the first call of merge_layouts in EngineMerge.tla (Chain = FALSE, Mut =
   "none", pass = 1) implements EngineMergeInd - the unbounded abstraction (any number of engines, arbitrary confidences) whose
   inductive invariant is proved with Apalache.  TLC checks RefinesInd on the bounded configurations of the C19 check, so the
   unbounded statement is tied to the module that trace validation ties to the real merge_layouts.
   The second call (pass = 2, the idempotence clause) is outside the abstraction: steps into or inside it are exempt.       *)
EXTENDS EngineMerge, Integers

Copied(k) == rec[k] # Untouched
AbsScan(k, j) == INSTANCE EngineMergeInd WITH
                    N <- NEngines, J <- j, Variant <- "ok",
                    i <- (IF l > k THEN NEngines ELSE IF l = k THEN e ELSE 0),
                    best <- (IF l = k THEN best ELSE IF l > k /\ Copied(k) THEN rec[k] ELSE 2),
                    w <- (IF l >= k /\ Copied(k) THEN text[k] ELSE 0),
                    cj <- conf[j][k]

RefinesInd == \A k \in Lines : \A j \in Engines :
                 /\ AbsScan(k, j)!Init
                 /\ [][pass' # 1 \/ AbsScan(k, j)!Next]_(AbsScan(k, j)!vars)
=============================================================================
