--------------------------- MODULE Pipeline_Trace ---------------------------
(* A recorded run of the real PageParser.process_page (stub stages around the real PageParser,
   PageOCR and PageDecoder glue code) is accepted iff it is the behaviour of Pipeline from the recorded
   configuration and input page: same outcome, same surviving lines in the same order, same provenance
   of logits / transcription / confidence on every line.                                           *)
EXTENDS Pipeline, TraceKit
VARIABLE tid
Tr == Traces[tid]

TInit == /\ tid \in 1..NTraces
         /\ cfg = [layout |-> Tr.cfg.layout, crop |-> Tr.cfg.crop, ocr |-> Tr.cfg.ocr, dec |-> Tr.cfg.dec, filter |-> Tr.cfg.filter]
         /\ page = [i \in Lines |-> [crop |-> "none", logits |-> Tr.page[i].logits, text |-> Tr.page[i].text,
                                      conf |-> Tr.page[i].conf, pass |-> Tr.page[i].pass,
                                      loadedpass |-> Tr.page[i].loadedpass]]
         /\ ids = [i \in Lines |-> i]
         /\ pc = "layout" /\ outcome = "running"

Final == /\ outcome' = Tr.outcome
         /\ (Tr.outcome = "ok") =>
               /\ Len(Tr.result) = Len(page')
               /\ \A k \in 1..Len(Tr.result) :
                     /\ Tr.result[k].id = ids'[k]
                     /\ Tr.result[k].logits = page'[k].logits
                     /\ Tr.result[k].text = page'[k].text
                     /\ Tr.result[k].conf = page'[k].conf
                     /\ Tr.result[k].crop = page'[k].crop

TNext == /\ UNCHANGED tid
         /\ Next
         /\ (outcome' # "running") => Final

Stage == CASE pc = "layout" -> 0 [] pc = "crop" -> 0 [] pc = "ocr" -> 1 [] pc = "dec" -> 2 [] pc = "conf" -> 3 [] pc = "filter" -> 4 [] OTHER -> 5
TAccept == TKMark(tid, Stage, outcome # "running")
TPost == TKPost
ASSUME TKReset
=============================================================================
