------------------------------ MODULE Pipeline ------------------------------
(* Growth beyond the listed properties (DESIGN.md section 8): the stage machine of
   PageParser.process_page (pero_ocr/document_ocr/page_parser.py:515-531) with the data flow between
   the stages.  Every per-line field is a provenance token, not a value:

     crop   : "none" | "own"                      (set by LineCropper.process_page)
     logits : "none" | "loaded" | "ocr"           (loaded = came with the input page / .logits file)
     text   : "none" | "loaded" | "ocr" | "dec"   (which stage produced the transcription)
     conf   : "none" | "loaded" | "computed"      (PageParser.update_confidences)
     pass   : BOOLEAN                             (input: would the computed confidence exceed the filter threshold)

   One action per stage call, in the order of the real method (Layout = the whole chain of layout stages, modelled in detail in
   LayoutChain.tla; here only its effect on the data flow: the lines are new).  The configuration (which stages
   run, whether the confidence filter is on) and the state of the input page are chosen in Init, so
   one TLC run covers every configuration x input combination for NLines lines.

   Outcomes: "ok", or the exception class that leaves process_page.                              *)
EXTENDS Naturals, Sequences, FiniteSets, TLC
CONSTANTS NLines,
          Legacy      \* TRUE: filter_confident_lines compares None > threshold (TypeError) as the code does today

Lines == 1..NLines
LineStates == [crop : {"none"}, logits : {"none", "loaded"}, text : {"none", "loaded"},
               conf : {"none", "loaded"}, pass : BOOLEAN, loadedpass : BOOLEAN]

VARIABLES cfg,      \* [layout, crop, ocr, dec, filter : BOOLEAN]
          page,     \* sequence of line records still on the page (filtering removes lines)
          ids,      \* sequence of the original line numbers of the lines still on the page
          pc,       \* next stage: "crop" "ocr" "dec" "conf" "filter" "done"
          outcome
vars == <<cfg, page, ids, pc, outcome>>

Init == /\ cfg \in [layout : BOOLEAN, crop : BOOLEAN, ocr : BOOLEAN, dec : BOOLEAN, filter : BOOLEAN]
        /\ page \in [Lines -> LineStates]
        /\ ids = [i \in Lines |-> i]
        /\ pc = "layout"
        /\ outcome = "running"

\* RUN_LAYOUT_PARSER: the layout stages (LayoutChain.tla) detect the lines anew - whatever the input lines carried (logits,
\* transcription, confidence loaded from PAGE XML / a logits file) is gone, the new lines carry nothing yet.  A detected line
\* keeps the position (and, for the filter clause, the image content = pass) of the input line it replaces.
Fresh(l) == [crop |-> "none", logits |-> "none", text |-> "none", conf |-> "none", pass |-> l.pass, loadedpass |-> l.loadedpass]
Layout == /\ pc = "layout" /\ outcome = "running"
          /\ page' = IF cfg.layout THEN [i \in DOMAIN page |-> Fresh(page[i])] ELSE page
          /\ pc' = "crop" /\ UNCHANGED <<cfg, ids, outcome>>

Crop == /\ pc = "crop" /\ outcome = "running"
        /\ page' = IF cfg.crop THEN [i \in DOMAIN page |-> [page[i] EXCEPT !.crop = "own"]] ELSE page
        /\ pc' = "ocr" /\ UNCHANGED <<cfg, ids, outcome>>

\* PageOCR.process_page: every line must carry a crop, otherwise the whole page fails; results are zipped
\* back onto the lines in iteration order
Ocr == /\ pc = "ocr" /\ outcome = "running"
       /\ IF ~cfg.ocr THEN /\ pc' = "dec" /\ UNCHANGED <<page, outcome>>
          ELSE IF \E i \in DOMAIN page : page[i].crop = "none"
               THEN /\ outcome' = "Exception" /\ pc' = "done" /\ UNCHANGED page
               ELSE /\ page' = [i \in DOMAIN page |-> [page[i] EXCEPT !.logits = "ocr", !.text = "ocr"]]
                    /\ pc' = "dec" /\ UNCHANGED outcome
       /\ UNCHANGED <<cfg, ids>>

\* PageDecoder.process_page: a line without logits raises MissingLogits inside decode_line; the exception is
\* logged and swallowed per line, the line keeps its transcription
Dec == /\ pc = "dec" /\ outcome = "running"
       /\ page' = IF cfg.dec
                  THEN [i \in DOMAIN page |-> IF page[i].logits = "none" THEN page[i]
                                               ELSE [page[i] EXCEPT !.text = "dec"]]
                  ELSE page
       /\ pc' = "conf" /\ UNCHANGED <<cfg, ids, outcome>>

\* update_confidences: recomputed for every line that has logits, whatever produced them
Conf == /\ pc = "conf" /\ outcome = "running"
        /\ page' = [i \in DOMAIN page |-> IF page[i].logits = "none" THEN page[i]
                                           ELSE [page[i] EXCEPT !.conf = "computed"]]
        /\ pc' = "filter" /\ UNCHANGED <<cfg, ids, outcome>>

Passes(l) == IF l.conf = "computed" THEN l.pass ELSE l.loadedpass
KeepIdx == {i \in DOMAIN page : Passes(page[i])}
RECURSIVE SeqOfSet(_)
SeqOfSet(S) == IF S = {} THEN <<>>
               ELSE LET m == CHOOSE x \in S : \A y \in S : x <= y IN <<m>> \o SeqOfSet(S \ {m})

Filter == /\ pc = "filter" /\ outcome = "running"
          /\ IF ~cfg.filter THEN /\ outcome' = "ok" /\ UNCHANGED <<page, ids>>
             ELSE IF Legacy /\ \E i \in DOMAIN page : page[i].conf = "none"
                  THEN /\ outcome' = "TypeError" /\ UNCHANGED <<page, ids>>     \* None > float
                  ELSE LET keep == SeqOfSet({i \in KeepIdx : page[i].conf # "none"})
                       IN /\ page' = [k \in 1..Len(keep) |-> page[keep[k]]]
                          /\ ids' = [k \in 1..Len(keep) |-> ids[keep[k]]]
                          /\ outcome' = "ok"
          /\ pc' = "done" /\ UNCHANGED cfg

Next == Layout \/ Crop \/ Ocr \/ Dec \/ Conf \/ Filter
Spec == Init /\ [][Next]_vars /\ WF_vars(Next)

\* ------------------------------------------- properties ---------------------------------------------
TypeOK == pc \in {"layout", "crop", "ocr", "dec", "conf", "filter", "done"}
\* the only way a page fails is the documented missing-crop error (a TypeError from the filter is a defect)
OnlyDocumentedErrors == outcome \in {"running", "ok", "Exception"}
\* a finished page is internally consistent: confidences belong to the logits on the line, text to the last stage that ran
Consistent == outcome = "ok" =>
                \A i \in DOMAIN page :
                   /\ (page[i].logits # "none") <=> (page[i].conf = "computed")
                   /\ cfg.ocr => page[i].logits = "ocr"
                   /\ (cfg.dec /\ page[i].logits # "none") => page[i].text = "dec"
                   /\ (cfg.ocr /\ ~cfg.dec) => page[i].text = "ocr"
                   /\ cfg.filter => Passes(page[i])
                   \* after the layout stages nothing of what the input lines carried is left
                   /\ cfg.layout => (page[i].logits # "loaded" /\ page[i].text # "loaded" /\ page[i].conf # "loaded")
\* filtering only removes lines and keeps the order
OrderKept == \A a, b \in DOMAIN ids : a < b => ids[a] < ids[b]
Terminates == <>(pc = "done")
=============================================================================
