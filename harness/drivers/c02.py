"""C02 - CTC prefix beam search never over-counts and is exact when unpruned (DESIGN.md section 4, C02).

1. TLC proves on spec/CtcDecoder.tla, for every matrix of the bounded shape, NoOverCount / ExactUnpruned /
   RejectOnly (the exact CTC forward algorithm is the oracle).
2. Every matrix of the same space is decoded by the real decoder (beam after each frame) and TLC validates each
   recorded execution against CtcDecoder_Trace: the statement pins the algorithm ("exactly frame-synchronous
   prefix beam search keeping the k best"), so the implementation-shaped module is the acceptance condition.
"""
from .. import ctc_common as C

LEVEL = "model_checking"


def configs(ctx):
    q = [C.base_cfg(K=1), C.base_cfg(K=2), C.base_cfg(K=2, selector="thr1"), C.base_cfg(K=3, selector="all"),
         C.base_cfg(K=100),
         # a non-pruning selector on matrices whose weight-1 entries are rendered as probabilities of 1e-6: what the DEFAULT
         # selector would prune must still be expanded (the set of returned transcripts is that of the unpruned search)
         C.base_cfg(K=100, selector="all", tiny=True)]
    if ctx.tier == "quick":
        return q
    return q + [C.base_cfg(K=100, selector="thr1"), C.base_cfg(K=4, selector="thr1"),
                C.base_cfg(T=4, K=2), C.base_cfg(T=4, K=3, selector="thr1"), C.base_cfg(T=4, K=100),
                C.base_cfg(T=3, D=5, K=2), C.base_cfg(T=3, D=5, K=100, selector="all"),
                C.base_cfg(T=3, NC=3, D=3, K=2), C.base_cfg(T=3, NC=3, D=3, K=4), C.base_cfg(T=3, NC=3, D=3, K=100),
                C.base_cfg(T=5, NC=2, D=2, K=2), C.base_cfg(T=5, NC=2, D=2, K=100),
                C.base_cfg(T=4, K=100, selector="all", tiny=True), C.base_cfg(T=3, NC=3, D=3, K=100, selector="all", tiny=True)]


INVS = ["NoOverCount", "ExactUnpruned", "RejectOnly"]


def sampled_matrices(ctx, cfg, n):
    rows = C.rows_of(cfg["NC"], cfg["D"])
    return [tuple(ctx.rng.choice(rows) for _ in range(cfg["T"])) for _ in range(n)]


def check_config(ctx, cfg, sample=None):
    """sample = None: the shape is explored exhaustively by TLC and every matrix is decoded; sample = n: the shape is beyond
    exhaustive reach - n seeded random matrices are the initial states of the TLC run and are decoded by the real decoder"""
    consts = C.tla_constants(cfg)
    if sample is None:
        ctx.tlc("CtcDecoder", constants=consts, invariants=INVS, workers=8, timeout=3000, label="CtcDecoder %s" % _lab(cfg))
        mats = list(C.all_matrices(cfg["T"], cfg["NC"], cfg["D"], normalised=not cfg.get("Unnorm")))
    else:
        mats = sampled_matrices(ctx, cfg, sample)
        lit = "{" + ", ".join("<<" + ", ".join("(" + " @@ ".join("%d :> %d" % (c, r[c]) for c in range(len(r))) + ")" for r in m) + ">>"
                              for m in sorted(set(mats))) + "}"
        mc = "---- MODULE MC_CtcSample ----\nEXTENDS CtcDecoder\nMCSample == %s\n====\n" % lit
        ctx.tlc("MC_CtcSample", constants=dict(consts, SampleMats="<-MCSample"), invariants=INVS, workers=8, timeout=3000,
                files={"MC_CtcSample.tla": mc}, label="CtcDecoder %s (%d sampled matrices)" % (_lab(cfg), len(set(mats))))
        ctx.exhaustive = False
    cfg = dict(cfg, salt=ctx.seed)
    traces = C.run_config(cfg, mats)
    judge(ctx, cfg, traces)


def judge(ctx, cfg, traces):
    consts = C.tla_constants(cfg)
    acc, rej = ctx.validate("CtcDecoder_Trace", traces, constants=consts, label="CtcDecoder_Trace %s" % _lab(cfg))
    for tr in traces:
        ctx.count(1, (tuple(map(tuple, tr["mat"])), _lab(cfg)) if len(tr["frames"]) and len(tr["frames"][-1]) > 1 else None)
    ctx.sample({"config": _lab(cfg), "trace": traces[len(traces) // 2]}, limit=4)
    if not rej and "selftest_corrupted_trace_rejected" not in ctx.notes and traces[len(traces) // 2]["outcome"] == "ok":
        def corrupt(tr):
            tr["frames"][-1][0]["s"] += 1000      # credit the first hypothesis with one more unit of mass
            return tr
        ctx.selftest_corrupt("CtcDecoder_Trace", traces[len(traces) // 2], corrupt, constants=consts)
    for idx, prog in rej:
        tr = traces[idx]
        what = C.first_bad_clause(tr, prog, cfg)
        sig = "outcome" if tr["outcome"] != "ok" else ("frame" if prog < cfg["T"] else "final-bag")
        ctx.violation({"cfg": cfg, "trace": tr, "progress": prog}, sig, "%s; config %s, matrix %s" % (what, _lab(cfg), tr["mat"]))


def _lab(cfg):
    return "T=%d NC=%d D=%d K=%d sel=%s%s" % (cfg["T"], cfg["NC"], cfg["D"], cfg["K"], cfg["selector"],
                                             (" unnorm" if cfg.get("Unnorm") else "") + (" tiny" if cfg.get("tiny") else ""))


def run(ctx):
    ctx.rule = ("every row-normalised T x (NC+1) matrix with weights k/D, decoded by the real decoder for each beam width/"
                "selector config; beam after every frame validated by TLC against CtcDecoder; non-trivial = final beam "
                "holds more than one hypothesis")
    ctx.exhaustive = True
    ctx.assume("weights are multiples of 1/D (D <= 5), T <= 5, at most 3 characters",
               "float round-off of the real decoder < 5e-4 of one unit of D^-t (masses are compared after rounding to 1/1000 unit)")
    for cfg in configs(ctx):
        check_config(ctx, cfg)
    if ctx.tier == "thorough":
        # shapes beyond exhaustive reach: TLC simulation on the design + seeded random matrices through the real decoder
        for cfg, n in ((C.base_cfg(T=6, NC=2, D=4, K=2), 3000), (C.base_cfg(T=6, NC=2, D=4, K=100), 1500),
                       (C.base_cfg(T=6, NC=3, D=3, K=3), 2000), (C.base_cfg(T=8, NC=2, D=3, K=2), 1500)):
            check_config(ctx, cfg, sample=n)
    # normalisation guard: every matrix over 0..2 weights, normalised or not
    un = C.base_cfg(T=2, NC=2 if ctx.tier == "thorough" else 1, D=2, K=2, Unnorm=True)
    check_config(ctx, un)
    ctx.notes["explanation"] = ("TLC exhaustive on CtcDecoder per config (invariants %s); every matrix of each config decoded by "
                                "pero_ocr.decoding.decoders.CTCPrefixLogRawNumpyDecoder and validated by CtcDecoder_Trace" % INVS)


def replay(ctx, case):
    cfg = case["cfg"]
    mats = [tuple(tuple(r) for r in case["trace"]["mat"])]
    traces = C.run_config(cfg, mats)
    judge(ctx, cfg, traces)
