------------------------ MODULE EngineMerge_Trace ------------------------
(* Trace layer for EngineMerge (C19).  One recorded execution = one call of the real merge_layouts on NEngines page
   layouts with NLines lines, followed by a second call on the same list (idempotence).

   Per line k and engine i the driver records (before merging, with the script's own get_confidences):
      conf[i]   the mean character confidence on the ordered scale of EngineMerge (0 none, 2 exactly 0.0, 4 + 2*rank of
                the float among the line's distinct positive values: equal numbers = exactly equal floats)
      obs[i], num[i], den[i]   the float mean in millionths and the exact rational num/den the logits were built to realise
                (den = 0: no expectation - the line is not alignable and get_confidences falls back to a constant)
   and after merging
      tx, lg, ch   the engines whose ORIGINAL transcription / logits (content) / character table equal the merged line's
      rec          1 = transcription_confidence still the first layout's own value, else the scale value of the engine whose
                   mean it equals (3 = some other value)
   plus frame_ok (ids, geometry, line order of every layout unchanged) and idem (second merge changed nothing).

   Acceptance is property-level: operator Accepts of the design module (first arg-max when positive, reading decision of
   Appendix D otherwise), on the confidences the script computes, which must be the means of the library's per-character
   confidences (refdev).  verdict = 0 or the first failing clause (10 + k = selection clause of line k).  With ExactMeans = TRUE the
   means are also compared with the exact rationals (clause 5): a mismatch there alone is MODEL-DRIFT, not a violation.     *)
EXTENDS EngineMerge, TraceKit
CONSTANT ExactMeans      \* TRUE: additionally compare the means with the exact rationals the logits were built for (drift level)
VARIABLES tid, verdict

Tr == Traces[tid]
Near(a, b, tol) == a <= b + tol /\ b <= a + tol
SetOf(s) == {s[i] : i \in DOMAIN s}
\* the confidence the selection is based on is the mean of the per-character confidences defined by the logits
LevelsOK == \A k \in Lines : \A i \in Engines :
               LET ln == Tr.lines[k] IN
               ln.conf[i] = 0 \/ ln.den[i] = 0 \/ Near(ln.obs[i] * ln.den[i], ln.num[i] * 1000000, ln.den[i] * 10)
BadLines == {k \in Lines : ~Accepts(k, SetOf(Tr.lines[k].tx), SetOf(Tr.lines[k].lg), SetOf(Tr.lines[k].ch), Tr.lines[k].rec)}

\* the mean the script bases its choice on is the mean of the library's per-character confidences of that transcription
\* (refdev = |script - library| in units of 1e-12; 0 where the library cannot align the line and the script falls back to a constant)
RefOK == \A k \in Lines : \A i \in Engines : Tr.lines[k].refdev[i] <= 1000

Judge == IF Tr.outcome # "ok" THEN 1
         ELSE IF ~Tr.frame_ok THEN 2
         ELSE IF ~RefOK THEN 3
         ELSE IF BadLines # {} THEN 10 + (CHOOSE k \in BadLines : \A o \in BadLines : k <= o)
         ELSE IF ~Tr.idem THEN 4
         ELSE IF ExactMeans /\ ~LevelsOK THEN 5
         ELSE 0

TInit == /\ tid \in 1..NTraces
         /\ conf = [i \in Engines |-> [k \in Lines |-> Traces[tid].lines[k].conf[i]]]
         /\ len = [i \in Engines |-> [k \in Lines |-> 1]]
         /\ pass = 1 /\ l = 1 /\ e = 0 /\ best = Thr0
         /\ text = Fresh.text /\ logits = Fresh.logits /\ chars = Fresh.chars /\ rec = Fresh.rec /\ snap = Fresh
         /\ verdict = Judge

TNext == UNCHANGED <<vars, tid, verdict>>

TAccept == TKMark(tid, verdict, verdict = 0)
TPost == TKPost
ASSUME TKReset
=============================================================================
