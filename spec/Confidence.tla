----------------------------- MODULE Confidence -----------------------------
(* Confidences reported by pero-ocr as exact rationals (property C16).

   A logit matrix is modelled by integer weights: frame f gives symbol s the posterior w[f][s] / den[f] (den[f] = sum of the
   row), symbols 0..NC-1, the blank is the LAST symbol (the code's convention).  Adding a constant to all logits of a frame
   multiplies the un-normalised weights of that frame by a constant: action Shift scales one row (and its denominator) -
   the row-normalised posteriors, hence every confidence, must not move.

   Definitions transcribed from the code (all values are fractions <<numerator, denominator>>):
     LineConf(i)   get_line_confidence, CTC branch (pero_ocr/core/confidence_estimation.py): posterior of label i at its aligned
                   frame minus the best competing posterior in the character's frame region (label, neighbouring labels and
                   blank excluded), clipped at 0
     TrConf(i)     get_line_confidence_transformer (one frame per label): posterior of label i in frame i
     LetterConf    get_letter_confidence: per non-blank run of the alignment the maximal aligned posterior
     WorstBest     line_confident_enough: min over frames of the best posterior;  Confident(th) == WorstBest > th
     RunWorst      PageParser.compute_line_confidence / get_prob: min over runs of equal best symbol of the run's maximal best posterior
     Posterior(i)  BagOfHypotheses.posteriors: total_i / sum of totals, total_i = vis_i * lm_i^scale ; confidence = the maximum
     Med2          to_altoxml: line / word confidence = median of the LineConf values of the line / of the word's characters   *)
EXTENDS Naturals, Sequences, FiniteSets, TLC, FiniteSetsExt, SequencesExt
CONSTANTS T,         \* frames
          NC,        \* symbols (blank = NC - 1)
          D,         \* initial row sum
          MaxL,      \* labels of length 1..MaxL over the non-blank symbols
          Ks         \* factors a frame may be scaled by (the constant added to its logits)

Syms == 0..(NC - 1)
Blank == NC - 1
Chars == 0..(NC - 2)
RowSum(r) == FoldSet(LAMBDA c, acc : acc + r[c], 0, Syms)
Rows == {r \in [Syms -> 0..D] : RowSum(r) = D}
LabelStrings == UNION {[1..n -> Chars] : n \in 1..MaxL}
\* frame positions of the characters of lab in a CTC alignment: strictly increasing, a blank frame between equal neighbours
Aligns(lab) == {a \in [1..Len(lab) -> 1..T] : \A i \in 1..(Len(lab)-1) : a[i] < a[i+1] /\ (lab[i] = lab[i+1] => a[i] + 1 < a[i+1])}

VARIABLES w, den,      \* current weights and row denominators
          w0,          \* the matrix before any shift
          labels, al,  \* label string and its alignment (frame of each character), held fixed
          shifted      \* number of Shift steps taken
vars == <<w, den, w0, labels, al, shifted>>

\* ---------------------------------------------------------------- fractions
Q(n, d) == <<n, d>>
LeQ(a, b) == a[1] * b[2] <= b[1] * a[2]
EqQ(a, b) == a[1] * b[2] = b[1] * a[2]
MaxQ(S) == CHOOSE m \in S : \A o \in S : LeQ(o, m)
MinQ(S) == CHOOSE m \in S : \A o \in S : LeQ(m, o)
\* max(0, a - b)
SubClipQ(a, b) == IF LeQ(a, b) THEN Q(0, 1) ELSE Q(a[1] * b[2] - b[1] * a[2], a[2] * b[2])
Zero == Q(0, 1)
One == Q(1, 1)
InUnit(a) == LeQ(Zero, a) /\ LeQ(a, One)

\* ---------------------------------------------------------------- definitions over a weight matrix m with denominators dn
P(m, dn, f, s) == Q(m[f][s], dn[f])
L == Len(labels)
\* frame regions of get_line_confidence (0-based borders of the code turned into 1-based frame sets):
\* next_border(i) = (al0[i] + 1 + al0[i+1]) // 2 with al0 = al - 1 and the sentinel 1000 after the last character
Border(a, i) == IF i = 0 THEN 0 ELSE IF i = Len(a) THEN T ELSE ((a[i] - 1) + 1 + (a[i+1] - 1)) \div 2
Region(a, i) == {f \in 1..T : Border(a, i-1) < f /\ f <= Border(a, i)}
Masked(lab, i) == {lab[i], Blank} \cup (IF i > 1 THEN {lab[i-1]} ELSE {}) \cup (IF i < Len(lab) THEN {lab[i+1]} ELSE {})
OtherQ(m, dn, lab, a, i) ==
    LET cand == {P(m, dn, f, s) : f \in Region(a, i), s \in Syms \ Masked(lab, i)}
    IN  IF cand = {} THEN Zero ELSE MaxQ(cand)          \* masked entries count as probability 0
LineConfOf(m, dn, lab, a, i) == SubClipQ(P(m, dn, a[i], lab[i]), OtherQ(m, dn, lab, a, i))
LineConf(i) == LineConfOf(w, den, labels, al, i)
TrConfOf(m, dn, lab, i) == P(m, dn, i, lab[i])
BestQ(m, dn, f) == MaxQ({P(m, dn, f, s) : s \in Syms})
WorstBestOf(m, dn) == MinQ({BestQ(m, dn, f) : f \in 1..T})
WorstBest == WorstBestOf(w, den)
Confident(th) == ~LeQ(WorstBest, th)                   \* worst_best_prob > threshold
\* the frame labelling that realises the alignment al for get_letter_confidence: label on its frame, blank elsewhere
PathOf(lab, a) == [f \in 1..T |-> IF \E i \in 1..Len(a) : a[i] = f THEN lab[CHOOSE i \in 1..Len(a) : a[i] = f] ELSE Blank]
LetterConfOf(m, dn, lab, a, i) == P(m, dn, a[i], lab[i])   \* runs of PathOf are single frames
\* runs of equal best symbol (needs a unique best symbol per frame)
BestSyms(m, f) == {s \in Syms : \A o \in Syms : m[f][o] <= m[f][s]}
UniqueBest(m) == \A f \in 1..T : Cardinality(BestSyms(m, f)) = 1
BestSym(m, f) == CHOOSE s \in BestSyms(m, f) : TRUE
RunStart(m, f) == f = 1 \/ BestSym(m, f - 1) # BestSym(m, f)
RunOf(m, f) == LET st == CHOOSE g \in 1..f : RunStart(m, g) /\ \A h \in (g+1)..f : ~RunStart(m, h)
               IN  {h \in st..T : \A k \in (st+1)..h : ~RunStart(m, k)}
RunWorstOf(m, dn) == MinQ({MaxQ({BestQ(m, dn, h) : h \in RunOf(m, f)}) : f \in 1..T})
OneHotRow(r) == \E s \in Syms : r[s] = RowSum(r)
OneHot(m) == \A f \in 1..T : OneHotRow(m[f])

\* ---------------------------------------------------------------- bag of hypotheses (weights v over a common denominator,
\* LM weights lm \in {1, 4, 9} so that the scale 1/2 stays rational)
Root(x) == CHOOSE r \in 0..x : r * r = x
LmPow(x, scale) == IF scale = "0" THEN 1 ELSE IF scale = "half" THEN Root(x) ELSE IF scale = "1" THEN x ELSE x * x
TotalW(v, lm, scale, i) == v[i] * LmPow(lm[i], scale)
SumTotals(v, lm, scale) == FoldSet(LAMBDA i, acc : acc + TotalW(v, lm, scale, i), 0, DOMAIN v)
Posterior(v, lm, scale, i) == Q(TotalW(v, lm, scale, i), SumTotals(v, lm, scale))

\* ---------------------------------------------------------------- ALTO export (PageLayout.to_altoxml): the line confidence is the
\* median (np.quantile 0.5) of the per-character confidences, a word confidence the median over the word's characters.
\* Med2 = twice the median of a sequence of numerators (stays an integer): the median of numbers in [0, D] lies in [0, D].
Med2(nums) == LET srt == SortSeq(nums, LAMBDA x, y : x < y)
                  n == Len(srt)
              IN  IF n % 2 = 1 THEN 2 * srt[(n + 1) \div 2] ELSE srt[n \div 2] + srt[n \div 2 + 1]

\* ---------------------------------------------------------------- behaviour: the cases and their shifted variants
Init == /\ w \in [1..T -> Rows]
        /\ den = [f \in 1..T |-> D]
        /\ w0 = w
        /\ labels \in LabelStrings
        /\ al \in Aligns(labels)
        /\ shifted = 0

Shift == /\ shifted < 1
         /\ \E f \in 1..T, k \in Ks :
               /\ w' = [w EXCEPT ![f] = [s \in Syms |-> k * w[f][s]]]
               /\ den' = [den EXCEPT ![f] = k * den[f]]
         /\ shifted' = shifted + 1
         /\ UNCHANGED <<w0, labels, al>>

Next == Shift
Spec == Init /\ [][Next]_vars

\* ======================================== properties (C16) =========================================
den0 == [f \in 1..T |-> D]
RangeOK == /\ \A i \in 1..L : InUnit(LineConf(i)) /\ InUnit(LetterConfOf(w, den, labels, al, i))
           /\ InUnit(WorstBest)
           /\ UniqueBest(w) => InUnit(RunWorstOf(w, den))
           /\ (T = L) => \A i \in 1..L : InUnit(TrConfOf(w, den, labels, i))
ShiftInvariant == /\ \A i \in 1..L : /\ EqQ(LineConf(i), LineConfOf(w0, den0, labels, al, i))
                                     /\ EqQ(LetterConfOf(w, den, labels, al, i), LetterConfOf(w0, den0, labels, al, i))
                  /\ EqQ(WorstBest, WorstBestOf(w0, den0))
                  /\ UniqueBest(w0) => (UniqueBest(w) /\ EqQ(RunWorstOf(w, den), RunWorstOf(w0, den0)))
                  /\ (T = L) => \A i \in 1..L : EqQ(TrConfOf(w, den, labels, i), TrConfOf(w0, den0, labels, i))
\* one-hot posteriors that spell the transcription along a CTC path WITH RUNS (what a CTC network emits: the same character on
\* several consecutive frames, characters directly adjacent without a blank, runs of different lengths): every frame is hot on
\* the blank or lies in the run of a character of the transcription, character i is aligned to SOME frame a[i] of its run, the
\* runs of consecutive characters are different runs (equal neighbours are therefore separated by a blank frame).  The special
\* case "label i on its aligned frame, blank elsewhere" (single-frame runs, PathOf) is included.
Hot(m, f, s) == m[f][s] = RowSum(m[f])
RunAround(m, s, g) == {f \in 1..T : \A h \in (IF f <= g THEN f..g ELSE g..f) : Hot(m, h, s)}
OneHotForOf(m, lab, a) ==
    /\ OneHot(m)
    /\ \A i \in 1..Len(lab) : Hot(m, a[i], lab[i])
    /\ \A f \in 1..T : Hot(m, f, Blank) \/ \E i \in 1..Len(lab) : f \in RunAround(m, lab[i], a[i])
    /\ \A i \in 1..(Len(lab) - 1) : RunAround(m, lab[i], a[i]) \cap RunAround(m, lab[i+1], a[i+1]) = {}
OneHotIsOne == /\ OneHot(w) => (EqQ(WorstBest, One) /\ EqQ(RunWorstOf(w, den), One))
               /\ OneHotForOf(w, labels, al) =>
                     \A i \in 1..L : EqQ(LineConf(i), One) /\ EqQ(LetterConfOf(w, den, labels, al, i), One)
\* the confident-line test is monotone in its threshold (thresholds k / (2 D))
Thr(k) == Q(k, 2 * D)
ThresholdMonotone == \A k \in 1..(2 * D) : Confident(Thr(k)) => Confident(Thr(k - 1))
=============================================================================
