------------------------ MODULE EngineMerge_Trace ------------------------
(* Trace layer for EngineMerge (C19).  One recorded execution = one call of the real merge_layouts on NEngines page
   layouts with NLines lines, followed by a second call on the same list (idempotence).

   Per line k and engine i the driver records (before merging, with the script's own get_confidences):
      conf[i]   the mean character confidence on the ordered scale of EngineMerge (0 none, 2 exactly 0.0, 4 + 2*rank of
                the float among the line's distinct positive values: equal numbers = exactly equal floats)
      obs[i], num[i], den[i]   the float mean in millionths and the exact rational num/den the logits were built to realise
                (den = 0: no expectation - the line is not alignable and get_confidences falls back to a constant)
   and after merging
      tx, lg, ch   the engines whose ORIGINAL transcription / logits (content) / character table equal the merged line's
      rec          1 = transcription_confidence still the first layout's own value, else the scale value of the engine whose
                   mean it equals (3 = some other value)
   plus frame_ok (ids, geometry, line order of every layout unchanged) and idem (second merge changed nothing).

   kind = "chain" (history): ONE long-lived result layout (the first engine's layout object) is merged incrementally and repeatedly:
   Tr.steps[s] = one call of merge_layouts on a tuple of the SAME layout objects (slots: 1 = the long-lived result, j = engine j's
   layout; also the result with itself, a single-layout tuple, the whole tuple, the result in second position), possibly after
   a call on a tuple outside the scope that fails half-way (mismatching line ids) and after the caller scored the lines of the
   result itself.  For every call the driver records, per line, conf / tx / lg / ch / rec / refdev exactly as above but relative to
   what the slots of THIS call held when it was made; these are measured on fresh line objects holding the same transcription,
   logits and character table, so that the measurement itself is not part of the objects' history.  Every call is a merge of a tuple
   inside the scope of C19 and is judged with the design operator AcceptsOn (clause 1000 + 10 * call + line).  Tr.lines then is the
   end-to-end record: conf of the ORIGINAL engines, provenance and recorded confidence of the result after the last call - the
   design module shows (ChainCorrect, ChainEqualsOneShot) that this must be what one call on the whole tuple gives.
   Other kinds have Tr.steps = << >>.

   kind = "scale": the character tables hold 300 .. 70 000 symbols, the transcriptions use symbols stored behind position 255 /
   1 023 / 32 767 / 65 535 of their table and are up to 1 100 characters long.  The design module abstracts a character table to
   a provenance tag and TLC could not enumerate such tables anyway, so the clauses are the same and one is added (clause 6):
   num / den is the mean confidence the logits were built to realise, computed by the driver from the weights it put into the
   rows alone (no label or index arithmetic, independent of the code under test); on lines where every engine's transcription is
   realised with one row per character (pure: the confidence of a character is then the probability the engine gave it - nothing
   of C16's finer definitions is involved) the engine whose fields were kept must be one whose built-in mean is maximal.  Only
   the ORDER of the built-in means is used, not their values.

   Acceptance is property-level: operator Accepts of the design module (first arg-max when positive, reading decision of
   Appendix D otherwise), on the confidences the script computes, which must be the means of the library's per-character
   confidences (refdev).  verdict = 0 or the first failing clause (10 + k = selection clause of line k).  With ExactMeans = TRUE the
   means are also compared with the exact rationals (clause 5): a mismatch there alone is MODEL-DRIFT, not a violation.     *)
EXTENDS EngineMerge, TraceKit
CONSTANT ExactMeans      \* TRUE: additionally compare the means with the exact rationals the logits were built for (drift level)
VARIABLES tid, verdict

Tr == Traces[tid]
Near(a, b, tol) == a <= b + tol /\ b <= a + tol
SetOf(s) == {s[i] : i \in DOMAIN s}
\* the confidence the selection is based on is the mean of the per-character confidences defined by the logits
LevelsOK == \A k \in Lines : \A i \in Engines :
               LET ln == Tr.lines[k] IN
               ln.conf[i] = 0 \/ ln.den[i] = 0 \/ Near(ln.obs[i] * ln.den[i], ln.num[i] * 1000000, ln.den[i] * 10)
BadLines == {k \in Lines : ~Accepts(k, SetOf(Tr.lines[k].tx), SetOf(Tr.lines[k].lg), SetOf(Tr.lines[k].ch), Tr.lines[k].rec)}

\* the mean the script bases its choice on is the mean of the library's per-character confidences of that transcription
\* (refdev = |script - library| in units of 1e-12; 0 where the library cannot align the line and the script falls back to a constant)
RefOK == /\ \A k \in Lines : \A i \in Engines : Tr.lines[k].refdev[i] <= 1000
         /\ \A s \in DOMAIN Tr.steps : \A k \in Lines : \A i \in DOMAIN Tr.steps[s].lines[k].refdev : Tr.steps[s].lines[k].refdev[i] <= 1000

\* chain: the calls (in order) that are not accepted as a merge of the tuple they were given: <<call, line>> coded 10 * call + line
StepLineBad(s, k) == LET ln == Tr.steps[s].lines[k] IN ~AcceptsOn(ln.conf, SetOf(ln.tx), SetOf(ln.lg), SetOf(ln.ch), ln.rec)
BadSteps == {s \in DOMAIN Tr.steps : Tr.steps[s].outcome # "ok" \/ \E k \in Lines : StepLineBad(s, k)}
FirstBadStep == CHOOSE s \in BadSteps : \A o \in BadSteps : s <= o
StepCode(s) == 10 * s + (IF Tr.steps[s].outcome # "ok" THEN 0 ELSE CHOOSE k \in Lines : StepLineBad(s, k) /\ \A o \in 1..(k-1) : ~StepLineBad(s, o))

\* scale: on pure lines with a positive built-in maximum the kept engine has a maximal built-in mean num / den (order only)
Kept(k) == SetOf(Tr.lines[k].tx) \cap SetOf(Tr.lines[k].lg) \cap SetOf(Tr.lines[k].ch)
BuiltOK(k) == LET ln == Tr.lines[k]
                  has == {i \in Engines : ln.conf[i] # 0}
              IN  (Tr.kind = "scale" /\ ln.pure /\ \E i \in has : ln.num[i] > 0)
                  => \E w \in Kept(k) \cap has : \A j \in has : ln.num[j] * ln.den[w] <= ln.num[w] * ln.den[j]

Judge == IF Tr.outcome # "ok" THEN 1
         ELSE IF ~Tr.frame_ok THEN 2
         ELSE IF ~RefOK THEN 3
         ELSE IF BadSteps # {} THEN 1000 + StepCode(FirstBadStep)
         ELSE IF BadLines # {} THEN 10 + (CHOOSE k \in BadLines : \A o \in BadLines : k <= o)
         ELSE IF \E k \in Lines : ~BuiltOK(k) THEN 6
         ELSE IF ~Tr.idem THEN 4
         ELSE IF ExactMeans /\ ~LevelsOK THEN 5
         ELSE 0

TInit == /\ tid \in 1..NTraces
         /\ conf = [i \in Engines |-> [k \in Lines |-> Traces[tid].lines[k].conf[i]]]
         /\ len = [i \in Engines |-> [k \in Lines |-> 1]]
         /\ pass = 1 /\ l = 1 /\ e = 0 /\ best = Thr0
         /\ text = Fresh.text /\ logits = Fresh.logits /\ chars = Fresh.chars /\ rec = Fresh.rec /\ snap = Fresh
         /\ verdict = Judge

TNext == UNCHANGED <<vars, tid, verdict>>

TAccept == TKMark(tid, verdict, verdict = 0)
TPost == TKPost
ASSUME TKReset
=============================================================================
