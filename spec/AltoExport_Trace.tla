------------------------- MODULE AltoExport_Trace -------------------------
(* Trace layer for AltoExport.  One trace = one real execution
       s = page.to_altoxml_string(min_line_confidence = minconf) ;  PageLayout().from_altoxml_string(s)
   on a page built from a TLC initial state of AltoExport (blocks, lines, texts, situations), projected by the driver:

     W, H, blocks[k].rect = <<x1,y1,x2,y2>>, blocks[k].lines[j] = [text, sit, conv]   the input (pixels, class tokens);
                              conv[q] = the real ArabicHelper.label_form_to_string applied to the q-th word of str.split()
     minconf, confs[tag]      requested threshold and the confidence the export left in line.transcription_confidence,
     pre[tag]                 what line.transcription_confidence held before the export (confs counts only where the export wrote it),
     sure[tag]                lower bound (millionths, -1 = none) of the line's confidence known by construction of its posteriors,
                              both in millionths (2000000 = None / line never processed)
     outcome                  "ok" | "exception:<Type>" | "unreadable:<Type>" (file variant: to_altoxml returned, but the bytes
                              it wrote are not the well-formed XML file they declare to be)
     obs.blocks[k]            [idx (from the TextBlock ID), rect = <<HPOS,VPOS,WIDTH,HEIGHT>>,
                               lines = <<[tag (from VPOS), items = <<[k = "S"|"SP", c = tokens of CONTENT]>>, wc = WC values*100 + 1000]>>]
     obs.geo                  PrintSpace / margin rectangles,  obs.ints = every geometry attribute is an integer literal
     imp_outcome, imp         re-import: per block, per line, the words of the imported transcription

   The same format records (round 9; the clauses below are unchanged)
     - the FILE variant  page.to_altoxml(path) ; PageLayout().from_altoxml(path)  - obs is read off the bytes of the written
       file, minconf = 0 (to_altoxml has no threshold argument) - in the checking process and in child processes started in
       another process environment (locale encoding ASCII: LC_ALL=C with Python's UTF-8 mode off);
     - the SECOND GENERATION  p2 = from_altoxml_string(p.to_altoxml_string()) ; s2 = p2.to_altoxml_string() ; from_altoxml_string(s2):
       the input of the trace is the rebuilt page p2 itself (W, H, block rectangles and texts read off the object, every line
       in situation "nochars", lines identified by their position in p2), obs / imp belong to s2: a rebuilt page is a page of
       the statement like any other (baseline, polygon, heights, transcription; posteriors absent);
     - pages whose region outlines are nested lists (the form from_altoxml builds) around lines with posteriors.

   The machine of AltoExport is run on the recorded input (confidence choices pinned to the recorded ones); in its final
   state the recorded file is judged clause by clause.  Register 2 of TraceKit receives the bit mask of failed clauses.

   Level = "property": clauses 1..9 = the statement of C06 and nothing more                      -> VIOLATION
   Level = "model"   : additionally the file must be exactly the one the machine produced        -> MODEL-DRIFT     *)
EXTENDS AltoExport, TraceKit
CONSTANT Level
VARIABLE tid

Tr == Traces[tid]
Obs == Tr.obs
Range(s) == {s[q] : q \in 1..Len(s)}

TInit == /\ tid \in 1..NTraces
         /\ page = [W |-> Traces[tid].W, H |-> Traces[tid].H, blocks |-> Traces[tid].blocks]
         /\ minconf = Traces[tid].minconf
         /\ b = 0 /\ l = 0 /\ pc = "block" /\ cur = Cur0 /\ out = <<>>
         /\ acc = [vpos |-> page.H, hpos |-> page.W, height |-> 0, width |-> 0, bottom |-> 0, right |-> 0]
         /\ geo = Geo0 /\ confs = <<>> /\ imp = <<>> /\ status = "running"

TNext == /\ UNCHANGED tid
         /\ \/ Det
            \/ AlignOk(Tr.confs[TagOf(page, b, l + 1)])

\* ---- property-level clauses -----------------------------------------------------------------------------
NB == Len(page.blocks)
InLine(k, tag) == page.blocks[k].lines[tag - LinesBefore(page, k)]
ValidTag(k, tag) == tag - LinesBefore(page, k) \in 1..Len(page.blocks[k].lines)

\* 1: the export succeeded (string variant: returned a string; file variant: returned and left a readable file)
C1 == Tr.outcome = "ok"
\* 2: one TextBlock per region, in layout order
C2 == Len(Obs.blocks) = NB /\ \A k \in 1..NB : Obs.blocks[k].idx = k
\* 4: every non-blank line at or above the threshold appears; nothing appears twice, out of order or from elsewhere
\*    (whether a blank line is skipped or exported empty is left to the model level)
C3 == \A k \in 1..NB :
         LET ot == TagsOf(Obs.blocks[k].lines)
             all == [j \in 1..Len(page.blocks[k].lines) |-> TagOf(page, k, j)]
             present(t) == t \in Range(ot)
         IN  /\ ot = SelectSeq(all, present)
             /\ \A j \in 1..Len(page.blocks[k].lines) :
                   (~Blank(page.blocks[k].lines[j].text) /\ ((Tr.confs[all[j]] # Tr.pre[all[j]] /\ Tr.confs[all[j]] >= minconf) \/ Tr.sure[all[j]] >= minconf))
                      => all[j] \in Range(ot)
\* 8: word contents = whitespace-separated words, converted by the helper on Arabic-script lines; the conversion
\*    itself is pinned where "logical order" is unambiguous (a word of Arabic letters is reversed, a word without
\*    Arabic characters and delimiters is unchanged); elsewhere the helper's own result is taken (ArabicOrder judges it)
PureArLetters(wd) == \A i \in 1..Len(wd) : IsArLetter(wd[i])
PureOther(wd) == \A i \in 1..Len(wd) : ~IsAr(wd[i]) /\ ~IsDelim(wd[i])
ObsExpWords(ln) ==
  LET ws == Split(ln.text)
  IN  IF ArabicLine(ln.text) THEN [q \in 1..Len(ws) |-> ln.conv[q]] ELSE ws
ConvPinned(ln) ==
  LET ws == Split(ln.text)
  IN  ArabicLine(ln.text) => \A q \in 1..Len(ws) : /\ PureArLetters(ws[q]) => ln.conv[q] = Reverse(ws[q])
                                                   /\ PureOther(ws[q]) => ln.conv[q] = ws[q]
C4 == \A k \in 1..NB : \A j \in 1..Len(Obs.blocks[k].lines) :
         LET ol == Obs.blocks[k].lines[j]
         IN  ValidTag(k, ol.tag) => /\ ContentsOf(ol.items) = ObsExpWords(InLine(k, ol.tag))
                                    /\ ConvPinned(InLine(k, ol.tag))
\* 16: all geometry attributes are integers
C5 == Obs.ints
\* 32: word confidences lie in [0, 1] (asserted where a WC attribute is present)
C6 == \A k \in 1..NB : \A j \in 1..Len(Obs.blocks[k].lines) :
         \A q \in 1..Len(Obs.blocks[k].lines[j].wc) : LET v == Obs.blocks[k].lines[j].wc[q] IN 1000 <= v /\ v <= 1100
\* 64: the print space is the bounding box of the text blocks
C7 == Obs.geo.ps = BBoxOf(BlockRects(page))
\* 128: the four margins cover the rest of the page
C8 == Covers(page.W, page.H, Margins(Obs.geo) \cup {Obs.geo.ps})
\* 256: re-importing the file returns the same words for every line
C9 == /\ Tr.imp_outcome = "ok"
      /\ Len(Tr.imp) = Len(Obs.blocks)
      /\ \A k \in 1..Len(Obs.blocks) :
            Tr.imp[k] = [j \in 1..Len(Obs.blocks[k].lines) |-> ContentsOf(Obs.blocks[k].lines[j].items)]
\* 512 (model level): the file is the one the machine wrote: block rectangles, exactly the kept lines (blank lines and
\*    lines below the threshold absent), String / SP sequence with spec-converted contents, margins, imported words, and
\*    the confidences of fallback lines are 0
ObsOut == [k \in 1..Len(Obs.blocks) |->
             [rect |-> Obs.blocks[k].rect,
              lines |-> [j \in 1..Len(Obs.blocks[k].lines) |->
                           [tag |-> Obs.blocks[k].lines[j].tag,
                            items |-> [q \in 1..Len(Obs.blocks[k].lines[j].items) |->
                                         [k |-> Obs.blocks[k].lines[j].items[q].k, c |-> Obs.blocks[k].lines[j].items[q].c]]]]]]
C10 == /\ ObsOut = out
       /\ [ps |-> Obs.geo.ps, top |-> Obs.geo.top, left |-> Obs.geo.left, right |-> Obs.geo.right, bottom |-> Obs.geo.bottom] = geo
       /\ Tr.imp = imp
       /\ \A t \in DOMAIN confs : Tr.confs[t] = confs[t]

Bit(ok, v) == IF ok THEN 0 ELSE v
Mask == IF ~C1 THEN 1
        ELSE IF ~C2 THEN 2
        ELSE LET m == Bit(C3, 4) + Bit(C4, 8) + Bit(C5, 16) + Bit(C6, 32) + Bit(C7, 64) + Bit(C8, 128) + Bit(C9, 256)
             IN  IF m = 0 /\ Level = "model" THEN Bit(C10, 512) ELSE m

TAccept == IF Done THEN TKMark(tid, Mask, Mask = 0) ELSE TKMark(tid, 0, FALSE)
TPost == TKPost
ASSUME TKReset
=============================================================================
