"""Unbounded parts (C07, C19): Apalache proves that IndInv of an abstraction module spec/<M>Ind.tla is inductive (base: Init =>
IndInv, step: IndInv /\\ Next => IndInv') and refutes it for named defective variants; TLC's PROPERTY RefinesInd of
spec/<M>Ref.tla ties the abstraction to the bounded design module, which trace validation ties to the real code.
(C08 and C17 carry their own copies of this routine in their drivers.)"""
import os
import shutil
import subprocess
import time

from .core import MachineryFailure, VERIF


def apalache_obligations(ctx, module, runs, note_key="apalache_inductive_invariant"):
    """runs = [(name, [apalache-mc check arguments], "NoError" | "Error")]"""
    exe = shutil.which("apalache-mc")
    if exe is None:
        ctx.notes["apalache"] = "apalache-mc not found: unbounded induction skipped"
        return
    wd = os.path.join(ctx.workdir, "apalache_" + module)
    os.makedirs(wd, exist_ok=True)
    shutil.copy(os.path.join(VERIF, "spec", module + ".tla"), wd)
    out = []
    for name, args, want in runs:
        t0 = time.time()
        try:
            p = subprocess.run([exe, "check"] + args + ["--out-dir=" + os.path.join(wd, "out"), module + ".tla"], cwd=wd,
                               stdout=subprocess.PIPE, stderr=subprocess.STDOUT, text=True, timeout=900)
        except subprocess.TimeoutExpired:
            raise MachineryFailure("apalache-mc timed out on %s (%s)" % (module, name))
        got = "NoError" if "The outcome is: NoError" in p.stdout else ("Error" if "The outcome is: Error" in p.stdout else "?")
        out.append({"obligation": name, "outcome": got, "wall_s": round(time.time() - t0, 1)})
        if got != want:
            raise MachineryFailure("apalache-mc on %s: %s gave %s, expected %s\n%s" % (module, name, got, want, p.stdout[-2000:]))
    shutil.rmtree(wd, ignore_errors=True)
    ctx.notes[note_key] = out


LB_RUNS = [("step: IndInv /\\ Next => IndInv' (code as it is)", ["--cinit=CInitOk", "--init=IndInit", "--inv=IndInv", "--length=1"], "NoError"),
           ("base: Init => IndInv (code as it is)", ["--cinit=CInitOk", "--init=Init", "--inv=IndInv", "--length=0"], "NoError"),
           ("self-test: step must fail with Variant = scatter_pos", ["--cinit=CInitScatterPos", "--init=IndInit", "--inv=IndInv", "--length=1"], "Error"),
           ("self-test: step must fail with Variant = no_max1", ["--cinit=CInitNoMax1", "--init=IndInit", "--inv=IndInv", "--length=1"], "Error")]

EM_RUNS = [("step: IndInv /\\ Next => IndInv' (code as it is)", ["--cinit=CInitOk", "--init=IndInit", "--inv=IndInv", "--length=1"], "NoError"),
           ("base: Init => IndInv (code as it is)", ["--cinit=CInitOk", "--init=Init", "--inv=IndInv", "--length=0"], "NoError"),
           ("self-test: step must fail with Variant = ge (a later engine wins a tie)", ["--cinit=CInitGe", "--init=IndInit", "--inv=IndInv", "--length=1"], "Error")]


def refinement(ctx, module, constants_ok, constants_bad, label, bad_label):
    """RefinesInd on one bounded configuration; with a defective variant of the design module the same property must be violated"""
    ctx.tlc(module, constants=constants_ok, properties=["RefinesInd"], workers=4, timeout=900, coverage=False,
            label="%s %s (RefinesInd)" % (module, label), count=False)
    ctx.tlc(module, constants=constants_bad, properties=["RefinesInd"], workers=4, timeout=900, coverage=False,
            label="%s %s %s (self-test)" % (module, label, bad_label), expect_violation="RefinesInd", count=False)
