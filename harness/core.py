"""Common machinery of every check: context, TLC calls with accounting, batch trace validation,
verdict policy (VIOLATION / KNOWN-FINDING / MODEL-DRIFT), evidence writer.  DESIGN.md sections 3.4, 6, 11."""
import concurrent.futures
import hashlib
import json
import os
import random
import re
import shutil
import sys
import tempfile
import time
import traceback

from . import tlc as T

REPO = os.environ.get("VERIF_REPO", "/repo")
VERIF = os.path.dirname(os.path.dirname(os.path.abspath(__file__)))
OUT_DIR = os.path.join(VERIF, "out")
EVIDENCE_DIR = os.path.join(VERIF, "evidence")
FINDINGS_FILE = os.path.join(VERIF, "known_findings.json")


class MachineryFailure(Exception):
    pass


class Ctx:
    def __init__(self, prop, tier, seed, level, replay=None):
        self.prop = prop
        self.tier = tier
        self.seed = seed
        self.level = level
        self.replay = replay
        self.rng = random.Random(seed)
        self.t0 = time.time()
        self.workdir = tempfile.mkdtemp(prefix="verif_%s_" % prop)
        self.states = 0
        self.transitions = 0
        self.tlc_runs = []
        self.traces_validated = 0
        self.evaluations = 0
        self.nontrivial = set()
        self.samples = []
        self.violations = []
        self.known_hits = {}
        self.drift = {}
        self.assumptions = []
        self.notes = {}
        self.never_taken = []
        self.exhaustive = None
        self.rule = ""
        self.findings = [f for f in load_findings() if f.get("property") == prop]

    # ---------------------------------------------------------------- TLC on the design
    def tlc(self, module, constants=None, invariants=(), properties=(), constraints=(), spec=None,
            init="Init", next_="Next", workers=8, timeout=900, files=None, mode="check", simulate=None,
            depth=None, coverage=True, expect_violation=None, dump=None, label=None, view=None,
            action_constraints=(), jvm_mem="6g", deadlock=False, count=True):
        """Model-check spec/<module>.tla.  A violated invariant on the design is a machinery failure
        (the model no longer satisfies the property it is supposed to prove) unless expect_violation names it
        (Legacy=TRUE self-tests)."""
        cfg = T.make_cfg(constants=constants, invariants=invariants, properties=properties, constraints=constraints,
                         spec=spec, init=init, next_=next_, view=view, action_constraints=action_constraints,
                         deadlock=deadlock)
        wd = tempfile.mkdtemp(prefix="tlc_", dir=self.workdir)
        res = T.run_tlc(module, cfg, wd, mode=mode, workers=workers, timeout=timeout, files=files,
                        simulate=simulate, depth=depth, coverage=coverage, dump=dump, jvm_mem=jvm_mem)
        res["workdir"] = wd
        if res["error"]:
            raise MachineryFailure("TLC error in %s: %s" % (module, res["error"][:3000]))
        rec = {"module": module, "label": label or module, "constants": _jsonable(constants), "mode": mode,
               "distinct": res["distinct"], "generated": res["generated"], "depth": res["depth"],
               "wall_s": round(res["wall"], 1), "violated": res["violated"],
               "invariants": list(invariants), "properties": list(properties)}
        if expect_violation is not None:
            rec["expected_violation"] = expect_violation
            if res["violated"] is None:
                raise MachineryFailure("self-test: %s with %s was expected to violate %s but TLC passed" % (
                    module, constants, expect_violation))
        else:
            if res["violated"] is not None:
                raise MachineryFailure("design model %s violates %s on constants %s:\n%s" % (
                    module, res["violated"], constants, T.counterexample(res["out"])))
            if count:
                self.states += res["distinct"]
                self.transitions += res["generated"]
            if coverage and res.get("coverage") is not None and mode == "check":
                zero = [a for a, n in res["coverage"].items() if n == 0]
                rec["actions_never_taken"] = zero
                self.never_taken += ["%s.%s" % (label or module, a) for a in zero]
        self.tlc_runs.append(rec)
        if not dump:
            shutil.rmtree(wd, ignore_errors=True)
        return res

    # ---------------------------------------------------------------- trace validation
    def validate(self, module, traces, constants=None, shards=None, timeout=1800, files=None,
                 init="TInit", next_="TNext", constraint="TAccept", post="TPost", invariants=(),
                 jvm_mem="3g", dfs=False, label=None, properties=()):
        """Validate recorded executions against spec/<module>.tla (a *_Trace module using TraceKit).
        Returns (n_accepted, rejected) where rejected = [(index into traces, progress), ...]."""
        n = len(traces)
        if n == 0:
            return 0, []
        if shards is None:
            shards = max(1, min(14, n // 40))
        shards = max(1, min(shards, n))
        bounds = [(i * n // shards, (i + 1) * n // shards) for i in range(shards)]
        cfg = T.make_cfg(constants=constants, init=init, next_=next_, constraints=[constraint],
                         postcondition=post, invariants=invariants, properties=properties)

        def one(k):
            lo, hi = bounds[k]
            wd = tempfile.mkdtemp(prefix="val%d_" % k, dir=self.workdir)
            tf = os.path.join(wd, "traces.json")
            with open(tf, "w") as fh:
                json.dump(traces[lo:hi], fh)
            res = T.run_tlc(module, cfg, wd, workers=1, timeout=timeout, files=files, coverage=False,
                            env={"TRACE_FILE": tf}, jvm_mem=jvm_mem, dfs_queue=dfs)
            if res["error"] or res["violated"]:
                raise MachineryFailure("trace validation %s failed to run: %s" % (
                    module, (res["error"] or T.counterexample(res["out"]))[:3000]))
            acc, rej = None, None
            for v in res["printed"]:
                m = re.match(r'<<"TKRESULT", (\d+), (\d+), (.*)>>$', v, re.S)
                if m:
                    assert int(m.group(1)) == hi - lo, (m.group(1), hi - lo)
                    acc = int(m.group(2))
                    rej = [(int(a) - 1 + lo, int(b)) for a, b in re.findall(r"<<(\d+), (\d+)>>", m.group(3))]
            if acc is None:
                raise MachineryFailure("trace validation %s printed no TKRESULT:\n%s" % (module, res["out"][-3000:]))
            if acc + len(rej) != hi - lo:
                raise MachineryFailure("TKRESULT inconsistent in %s" % module)
            shutil.rmtree(wd, ignore_errors=True)
            return acc, rej, res["distinct"], res["generated"], res["wall"]

        t0 = time.time()
        with concurrent.futures.ThreadPoolExecutor(max_workers=min(shards, 14)) as ex:
            results = list(ex.map(one, range(shards)))
        acc = sum(r[0] for r in results)
        rej = sorted(x for r in results for x in r[1])
        self.traces_validated += acc
        self.tlc_runs.append({"module": module, "label": label or module, "mode": "trace-validation",
                              "traces": n, "accepted": acc, "rejected": len(rej), "shards": shards,
                              "distinct": sum(r[2] for r in results), "generated": sum(r[3] for r in results),
                              "wall_s": round(time.time() - t0, 1), "constants": _jsonable(constants)})
        return acc, rej

    # ---------------------------------------------------------------- verdicts
    def violation(self, case, signature, what):
        """Property-level rejection of a real execution.  Suppressed (KNOWN-FINDING) only when the signature
        matches an *open* entry of known_findings.json; fixed entries suppress nothing."""
        for f in self.findings:
            if f.get("status") == "open" and _sig_match(f.get("signature", ""), signature):
                key = f["signature"]
                if key not in self.known_hits:
                    self.known_hits[key] = {"count": 0, "what": f.get("description", what), "example": case}
                self.known_hits[key]["count"] += 1
                return False
        if len(self.violations) < 50:
            os.makedirs(os.path.join(OUT_DIR, self.prop), exist_ok=True)
            h = hashlib.sha1(json.dumps(case, sort_keys=True, default=str).encode()).hexdigest()[:10]
            path = os.path.join(OUT_DIR, self.prop, "%s-%s-%s.json" % (self.tier, self.seed, h))
            with open(path, "w") as fh:
                json.dump({"property": self.prop, "signature": signature, "what": what, "case": case}, fh,
                          indent=1, default=str)
            self.violations.append({"signature": signature, "what": what, "replay": path})
            if len(self.violations) <= 5:
                print("VIOLATION property=%s replay=%s" % (self.prop, path))
                print("  signature=%s :: %s" % (signature, what))
                sys.stdout.flush()
        else:
            self.violations.append({"signature": signature, "what": what, "replay": None})
        return True

    def selftest_corrupt(self, module, good_trace, corrupt, constants=None, **kw):
        """Demonstrate the binding (DESIGN.md 3.6): `corrupt(copy of an accepted trace)` must be rejected by the trace spec.
        A corrupted trace that is accepted means the trace spec constrains nothing: machinery failure."""
        import copy
        bad = corrupt(copy.deepcopy(good_trace))
        before = self.traces_validated
        acc, rej = self.validate(module, [good_trace, bad], constants=constants, shards=1, label=module + " selftest-corrupt", **kw)
        self.traces_validated = before
        ok = (acc == 1 and [r[0] for r in rej] == [1])
        self.notes.setdefault("selftest_corrupted_trace_rejected", []).append(bool(ok))
        if not ok:
            raise MachineryFailure("binding self-test failed for %s: accepted=%d rejected=%s (expected the pristine trace accepted "
                                   "and the corrupted one rejected)" % (module, acc, rej))

    def model_drift(self, key, n=1, example=None):
        d = self.drift.setdefault(key, {"count": 0, "example": example})
        d["count"] += n

    def sample(self, case, limit=5):
        if len(self.samples) < limit:
            self.samples.append(_jsonable(case))

    def count(self, n=1, nontrivial_key=None):
        self.evaluations += n
        if nontrivial_key is not None:
            self.nontrivial.add(nontrivial_key if isinstance(nontrivial_key, (str, int, tuple)) else repr(nontrivial_key))

    def assume(self, *texts):
        for t in texts:
            if t not in self.assumptions:
                self.assumptions.append(t)

    def elapsed(self):
        return time.time() - self.t0

    # ---------------------------------------------------------------- evidence
    def finish(self):
        for key, hit in self.known_hits.items():
            print("KNOWN-FINDING: property=%s %s: %s (%d cases in this run)" % (self.prop, key, hit["what"], hit["count"]))
        for key, d in self.drift.items():
            print("MODEL-DRIFT property=%s %s cases=%d" % (self.prop, key, d["count"]))
            if d.get("example") is not None:
                print("  first drift case: %s" % json.dumps(_jsonable(d["example"]))[:700])
        cov = {
            "states": self.states, "transitions": self.transitions,
            "traces_validated_against_impl": self.traces_validated,
            "evaluations": self.evaluations, "distinct_nontrivial": len(self.nontrivial),
            "rule": self.rule, "samples": self.samples[:8] or [{"note": "no case executed"}],
            "tlc_runs": self.tlc_runs, "tlc_actions_never_taken": self.never_taken,
            "model_drift": {k: v["count"] for k, v in self.drift.items()},
            "known_findings_hit": {k: v["count"] for k, v in self.known_hits.items()},
            "explanation": self.notes.get("explanation", ""),
        }
        if self.exhaustive is not None:
            cov["exhaustive"] = bool(self.exhaustive)
        for k, v in self.notes.items():
            if k != "explanation":
                cov[k] = v
        ev = {"property_id": self.prop, "tier": self.tier, "seed": self.seed, "level": self.level,
              "coverage": cov, "assumptions": self.assumptions, "wall_s": round(self.elapsed(), 1),
              "violations": len(self.violations)}
        if self.replay is None and not os.environ.get("VERIF_NO_EVIDENCE"):
            os.makedirs(EVIDENCE_DIR, exist_ok=True)
            with open(os.path.join(EVIDENCE_DIR, self.prop + ".json"), "w") as fh:
                json.dump(_jsonable(ev), fh, indent=1)
        shutil.rmtree(self.workdir, ignore_errors=True)
        status = "VIOLATED" if self.violations else "held"
        print("%s %s tier=%s seed=%d: states=%d transitions=%d executions=%d traces_accepted=%d violations=%d wall=%.0fs" % (
            self.prop, status, self.tier, self.seed, self.states, self.transitions, self.evaluations,
            self.traces_validated, len(self.violations), self.elapsed()))
        return 1 if self.violations else 0


def load_findings():
    if not os.path.exists(FINDINGS_FILE):
        return []
    with open(FINDINGS_FILE) as fh:
        return json.load(fh)


def _sig_match(pattern, signature):
    """open-finding signatures are exact strings or 'prefix*'"""
    if pattern.endswith("*"):
        return signature.startswith(pattern[:-1])
    return pattern == signature


def _jsonable(v):
    if v is None or isinstance(v, (bool, int, float, str)):
        return v
    if isinstance(v, dict):
        return {str(k): _jsonable(x) for k, x in v.items()}
    if isinstance(v, (list, tuple)):
        return [_jsonable(x) for x in v]
    if isinstance(v, (set, frozenset)):
        return sorted((_jsonable(x) for x in v), key=repr)
    try:
        import numpy as np
        if isinstance(v, np.integer):
            return int(v)
        if isinstance(v, np.floating):
            return float(v)
        if isinstance(v, np.ndarray):
            return v.tolist()
    except ImportError:
        pass
    return repr(v)


def pmap(func, items, procs=14, chunksize=None):
    """fork-based parallel map (the caller has already imported and warmed what the children need)."""
    items = list(items)
    if len(items) < 32 or procs <= 1:
        return [func(x) for x in items]
    import multiprocessing as mp
    from concurrent.futures import ProcessPoolExecutor
    from concurrent.futures.process import BrokenProcessPool
    # ProcessPoolExecutor (not multiprocessing.Pool): when a worker dies abruptly (killed for memory by a changed
    # implementation that blows up, say) the map raises instead of waiting for ever
    try:
        with ProcessPoolExecutor(max_workers=procs, mp_context=mp.get_context("fork")) as pool:
            return list(pool.map(func, items, chunksize=chunksize or max(1, len(items) // (procs * 8))))
    except BrokenProcessPool as ex:
        raise MachineryFailure("a worker process executing the real code died abruptly (out of memory?): %s" % ex)


def _after_failure(ctx):
    """A later stage of the check could not run.  Violations that were already established by TLC on recorded executions (their
    VIOLATION lines are printed, their replay files written) stand: exit 1.  Otherwise nothing is claimed: exit 2."""
    if ctx is None:
        return 2
    if ctx.violations:
        ctx.notes["machinery_failure_after_violations"] = True
        try:
            return ctx.finish()
        except Exception:
            traceback.print_exc()
            return 1
    shutil.rmtree(ctx.workdir, ignore_errors=True)
    return 2


def main(argv=None):
    import argparse
    import importlib
    ap = argparse.ArgumentParser()
    ap.add_argument("prop")
    ap.add_argument("--tier", default=os.environ.get("VERIF_TIER", "quick"), choices=["quick", "thorough"])
    ap.add_argument("--replay", default=None)
    ap.add_argument("--seed", type=int, default=int(os.environ.get("VERIF_SEED", "0") or 0))
    a = ap.parse_args(argv)
    os.environ.setdefault("PYTHONHASHSEED", "0")
    os.environ["PERO_OCR_VERIF"] = "1"
    prop = a.prop.upper()
    ctx = None
    try:
        drv = importlib.import_module("harness.drivers.%s" % prop.lower())
        ctx = Ctx(prop, a.tier, a.seed, getattr(drv, "LEVEL", "model_checking"), replay=a.replay)
        if a.replay:
            with open(a.replay) as fh:
                rec = json.load(fh)
            drv.replay(ctx, rec["case"] if "case" in rec else rec)
        else:
            drv.run(ctx)
        rc = ctx.finish()
    except (MachineryFailure, T.TlcFailure) as ex:
        print("MACHINERY-FAILURE property=%s: %s" % (prop, ex))
        rc = _after_failure(ctx)
    except Exception:
        traceback.print_exc()
        print("MACHINERY-FAILURE property=%s: unexpected exception in the harness" % prop)
        rc = _after_failure(ctx)
    sys.stdout.flush()
    sys.exit(rc)
