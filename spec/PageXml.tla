---------------------------- MODULE PageXml ----------------------------
(* PAGE XML export / import of pero_ocr.core.layout.PageLayout, in exact integer arithmetic (C01).

   Implementation-shaped: one action per public call of the real code
     Export(v, og)   = PageLayout.to_pagexml_string / to_pagexml   (v = 1: PAGE 2019-07-15, v = 2: PAGE 2013-07-15)
     Load(how, g, pm) = PageLayout().from_pagexml(_string)         (how = "into": parse only)
                        PageLayout(file = ...)                     (how = "ctor": parse, then sort by reading order)
                       pm = order in which the TextRegion elements of the document reach the parser (identity, or
                       the permutation applied by another tool between the two calls)
   over the behaviour  Build; Export v; Load; Export v'; Load; Export v'  of the property statement.

   Units.  A *page* (the live object) holds coordinates in quarters of a pixel, heights in 1/80
   (common grid of the sixteenths used for built pages and the tenths that come back from a document),
   confidences in 1/128000 (common grid of 1/1024 and 1/1000).  A *document* holds what is written:
   integer coordinates, heights in tenths, confidences in thousandths.  np.round, ':.1f' and ':.3f'
   round exactly representable binary fractions half to even: RHE.
   Optional values are <<>> (None) or <<v>>.  Text, page id and region type are opaque tokens (integers;
   the driver instantiates them with concrete strings).
   A height that the import had to guess (absent in the document) is unconstrained: the guess g is a
   parameter of Load; a guessed value that is not on the 1/80 grid is the token OffGrid, and what Export
   writes for it is the parameter og.

   The tree at the time of writing sorts with a key that never matches (dictionary keyed by region id
   looked up with the region object): Legacy = TRUE reproduces it (SortByRO is the identity).          *)
EXTENDS Integers, Sequences, FiniteSets, TLC, SequencesExt
CONSTANTS Pages,       \* set of initial (built) abstract pages
          Vers,        \* PAGE versions exercised, subset of {1, 2}
          Hows,        \* load variants exercised, subset of {"into", "ctor"}
          GuessVals,   \* design only: values a guessed height may take (OffGrid or a natural, 1/80)
          OffTenths,   \* design only: tenths written for an OffGrid height
          Legacy

OffGrid == -1
Inf == 1000000

RHE(num, den) ==      \* nearest integer to num/den (den > 0), ties to even; \div floors, % is non-negative
  LET q == num \div den
      r == num % den
  IN IF 2 * r < den THEN q ELSE IF 2 * r > den THEN q + 1 ELSE (IF q % 2 = 0 THEN q ELSE q + 1)

ASSUME /\ RHE(1, 2) = 0 /\ RHE(3, 2) = 2 /\ RHE(5, 2) = 2 /\ RHE(-1, 2) = 0 /\ RHE(-3, 2) = -2
       /\ RHE(13, 4) = 3 /\ RHE(15, 4) = 4 /\ RHE(-13, 4) = -3 /\ RHE(-10, 4) = -2 /\ RHE(-6, 4) = -2
       /\ RHE(25, 10) = 2 /\ RHE(20, 8) = 2 /\ RHE(60, 8) = 8 /\ RHE(64 * 125, 128) = 62 /\ RHE(192 * 125, 128) = 188

RoundPts(ps) == [k \in 1..Len(ps) |-> <<RHE(ps[k][1], 4), RHE(ps[k][2], 4)>>]
ScalePts(ps) == [k \in 1..Len(ps) |-> <<4 * ps[k][1], 4 * ps[k][2]>>]

\* ---- reading order: sequence of <<region id, index>> in dictionary order -------------------------
RoHas(ro, id) == \E k \in 1..Len(ro) : ro[k][1] = id
RoGet(ro, id) == ro[CHOOSE k \in 1..Len(ro) : ro[k][1] = id][2]
Key(ro, id) == IF RoHas(ro, id) THEN RoGet(ro, id) ELSE Inf            \* unlisted last
RoMap(ro) == {<<ro[k][1], ro[k][2]>> : k \in 1..Len(ro)}
Ids(regs) == [i \in 1..Len(regs) |-> regs[i].id]

SortByRO(regs, ro) ==                  \* sorted(self.regions, key = index or inf): stable
  IF Legacy THEN regs                  \* keyed by region object: never matches, stable sort keeps the order
  ELSE LET idx == SortSeq([i \in 1..Len(regs) |-> i],
                          LAMBDA a, b : \/ Key(ro, regs[a].id) < Key(ro, regs[b].id)
                                        \/ (Key(ro, regs[a].id) = Key(ro, regs[b].id) /\ a < b))
       IN [j \in 1..Len(regs) |-> regs[idx[j]]]

\* ---- export of one line / region ------------------------------------------------------------------
ExpHt(c, o) == IF c = OffGrid THEN o ELSE RHE(c, 8)
ExpLine(l, j, o) ==
  [id   |-> l.id,
   idx  |-> << IF l.idx = <<>> THEN j - 1 ELSE l.idx[1] >>,             \* absent index => position
   hts  |-> IF l.hts = <<>> THEN <<>> ELSE <<ExpHt(l.hts[1], o[1]), ExpHt(l.hts[2], o[2])>>,
   poly |-> RoundPts(l.poly),
   bl   |-> RoundPts(l.bl),
   text |-> l.text,
   conf |-> IF l.text = <<>> \/ l.conf = <<>> THEN <<>> ELSE << RHE(l.conf[1], 128) >>]
ExpRegion(r, og) ==
  [id |-> r.id, typ |-> r.typ, poly |-> RoundPts(r.poly), text |-> r.text,
   lines |-> [j \in 1..Len(r.lines) |-> ExpLine(r.lines[j], j, og[j])]]

\* ---- import of one line / region ------------------------------------------------------------------
LoadLine(d, j, g) ==
  [id   |-> d.id,
   idx  |-> << IF d.idx = <<>> THEN j - 1 ELSE d.idx[1] >>,
   bl   |-> ScalePts(d.bl),
   poly |-> ScalePts(d.poly),
   hts  |-> IF d.hts = <<>> THEN g ELSE <<8 * d.hts[1], 8 * d.hts[2]>>,   \* guessed when absent
   text |-> d.text,
   conf |-> IF d.text = <<>> \/ d.conf = <<>> THEN <<>> ELSE << 128 * d.conf[1] >>]
LoadRegion(d, g) ==
  [id |-> d.id, typ |-> d.typ, poly |-> ScalePts(d.poly), text |-> d.text,
   lines |-> [j \in 1..Len(d.lines) |-> LoadLine(d.lines[j], j, g[j])]]

NoDoc == [ver |-> 0, pid |-> 0, size |-> <<0, 0>>, hasRO |-> FALSE, ro |-> <<>>, regions |-> <<>>]

VARIABLES page,     \* the live PageLayout
          doc,      \* the document written last
          pre,      \* history: the page as it was before the last Export / the document's source
          seen,     \* history: the document as the last Load saw it (doc with its regions possibly re-ordered)
          prevDoc,  \* history: the document written before the last one
          step,     \* 0 built, 1 exported, 2 loaded, 3 exported, 4 loaded, 5 exported
          how       \* variant of the last load
vars == <<page, doc, pre, seen, prevDoc, step, how>>

Init == /\ page \in Pages
        /\ doc = NoDoc /\ prevDoc = NoDoc /\ seen = NoDoc /\ pre = page /\ step = 0 /\ how = "none"

Sorted == IF page.hasRO THEN SortByRO(page.regions, page.ro) ELSE page.regions
Export(v, og) ==                                  \* og[i][j]: tenths written for OffGrid heights of line j of the i-th region written
  /\ step \in {0, 2, 4}
  /\ (step = 4) => (v = doc.ver)                  \* the fixpoint clause compares two exports of one version
  /\ LET sorted == Sorted
     IN /\ page' = [page EXCEPT !.regions = sorted]               \* export sorts the page object in place
        /\ doc' = [ver |-> v, pid |-> page.pid, size |-> page.size, hasRO |-> page.hasRO, ro |-> page.ro,
                   regions |-> [i \in 1..Len(sorted) |-> ExpRegion(sorted[i], og[i])]]
  /\ pre' = page /\ prevDoc' = doc /\ step' = step + 1
  /\ UNCHANGED <<how, seen>>

IsPermIdx(pm, n) == /\ Len(pm) = n /\ \A i \in 1..n : pm[i] \in 1..n
                    /\ \A i, j \in 1..n : i # j => pm[i] # pm[j]
Src(pm) == [i \in 1..Len(doc.regions) |-> doc.regions[pm[i]]]
Load(h, g, pm) ==
  /\ step \in {1, 3}
  /\ IsPermIdx(pm, Len(doc.regions))
  /\ LET src == Src(pm)
         regs == [i \in 1..Len(src) |-> LoadRegion(src[i], g[i])]
     IN /\ page' = [pid |-> doc.pid, size |-> doc.size,
                    hasRO |-> TRUE,                      \* get_reading_order returns {} when the element is absent
                    ro |-> doc.ro,
                    regions |-> IF h = "ctor" /\ Len(regs) > 0 THEN SortByRO(regs, doc.ro) ELSE regs]
        /\ seen' = [doc EXCEPT !.regions = src]
  /\ how' = h /\ step' = step + 1
  /\ UNCHANGED <<doc, pre, prevDoc>>

Ident(n) == [i \in 1..n |-> i]
DesignPerms(n) == {Ident(n), [i \in 1..n |-> n + 1 - i], [i \in 1..n |-> (i % n) + 1]}
\* design-level choice of the unconstrained values: one pair for every line of the page
Shaped(regs, pair) == [i \in 1..Len(regs) |-> [j \in 1..Len(regs[i].lines) |-> pair]]
Next == \/ \E v \in Vers, o \in OffTenths \X OffTenths : Export(v, Shaped(Sorted, o))
        \/ \E h \in Hows, gp \in GuessVals \X GuessVals :
              \* re-ordering by another tool (identity / reversed / rotated) is explored before the first load by the
              \* constructor only: that is where the order held is asserted (bounds the search)
              \E pm \in (IF step = 1 /\ h = "ctor" THEN DesignPerms(Len(doc.regions)) ELSE {Ident(Len(doc.regions))}) :
                 Load(h, Shaped(Src(pm), gp), pm)
Spec == Init /\ [][Next]_vars

\* ======================================== properties (C01) ==========================================
\* These operators are the statement of the property; PageXml_Trace evaluates the same operators on
\* recorded executions (property-level acceptance).
IsPerm(a, b) == /\ Len(a) = Len(b)
                /\ {a[i] : i \in 1..Len(a)} = {b[i] : i \in 1..Len(b)}
                /\ Cardinality({b[i] : i \in 1..Len(b)}) = Len(b)
Pos(s, x) == CHOOSE i \in 1..Len(s) : s[i] = x
IsROSorted(ids, ro) == \A i, j \in 1..Len(ids) : i < j => Key(ro, ids[i]) <= Key(ro, ids[j])

\* clause W: a page carrying a reading order is written in that order, unlisted regions last, otherwise stable;
\*           a page without one is written in the order held
WrittenOK(P, D) ==
  LET a == Ids(P.regions)
      b == Ids(D.regions)
  IN /\ IsPerm(a, b)
     /\ IF P.hasRO
        THEN /\ IsROSorted(b, P.ro)
             /\ \A i, j \in 1..Len(b) : (i < j /\ Key(P.ro, b[i]) = Key(P.ro, b[j])) => Pos(a, b[i]) < Pos(a, b[j])
        ELSE a = b

ValidHt(q) == q = OffGrid \/ q >= 0
NormHt(c, q) == IF c = OffGrid THEN ValidHt(q) ELSE q = 8 * RHE(c, 8)
LineOK(pl, j, ql) ==
  /\ ql.id = pl.id
  /\ ql.idx = << IF pl.idx = <<>> THEN j - 1 ELSE pl.idx[1] >>
  /\ ql.bl = ScalePts(RoundPts(pl.bl))
  /\ ql.poly = ScalePts(RoundPts(pl.poly))
  /\ Len(ql.hts) = 2                                                  \* present after load, also when guessed
  /\ IF pl.hts = <<>> THEN ValidHt(ql.hts[1]) /\ ValidHt(ql.hts[2])
     ELSE NormHt(pl.hts[1], ql.hts[1]) /\ NormHt(pl.hts[2], ql.hts[2])
  /\ ql.text = pl.text
  /\ ql.conf = IF pl.text = <<>> \/ pl.conf = <<>> THEN <<>> ELSE << 128 * RHE(pl.conf[1], 128) >>
RegionOK(pr, qr) ==
  /\ qr.id = pr.id /\ qr.typ = pr.typ /\ qr.text = pr.text
  /\ qr.poly = ScalePts(RoundPts(pr.poly))
  /\ Len(qr.lines) = Len(pr.lines)
  /\ \A j \in 1..Len(pr.lines) : LineOK(pr.lines[j], j, qr.lines[j])

\* clause R: loading the document D written from page P yields the same page Q up to the documented rounding;
\*           the regions come back in the order written (variant "into") or in reading order (variant "ctor", clause H)
RoundTripOK(P, D, Q, h) ==
  /\ Q.pid = P.pid /\ Q.size = P.size
  /\ IsPerm(Ids(P.regions), Ids(Q.regions))
  /\ (h = "into") => Ids(Q.regions) = Ids(D.regions)
  /\ \A i \in 1..Len(Q.regions) :
        \E k \in 1..Len(P.regions) : P.regions[k].id = Q.regions[i].id /\ RegionOK(P.regions[k], Q.regions[i])
  /\ P.hasRO => (Q.hasRO /\ RoMap(Q.ro) = RoMap(P.ro))

\* clause H: PageLayout(file = ...) holds the regions in reading order, unlisted last, otherwise as written
HeldOK(D, Q) ==
  LET a == Ids(D.regions)
      b == Ids(Q.regions)
  IN /\ IsPerm(a, b) /\ IsROSorted(b, Q.ro)
     /\ \A i, j \in 1..Len(b) : (i < j /\ Key(Q.ro, b[i]) = Key(Q.ro, b[j])) => Pos(a, b[i]) < Pos(a, b[j])

InvWritten   == step \in {1, 3, 5} => WrittenOK(pre, doc)
InvRoundTrip == step \in {2, 4} => RoundTripOK(pre, seen, page, how)
InvHeld      == (step \in {2, 4} /\ how = "ctor") => HeldOK(seen, page)
InvFixpoint  == step = 5 => doc = prevDoc
=============================================================================
