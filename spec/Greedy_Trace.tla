--------------------------- MODULE Greedy_Trace ---------------------------
(* Trace layer for Greedy (C04).  One recorded execution = one batch of N lines x T frames whose per-frame arg-max
   symbols are `paths` (a TLC initial state of Greedy rendered as a score tensor with a unique arg-max per frame),
   decoded by the real code three times:
      eng    greedy_decode_ctc(scores N x C x T, chars)                     (the engine's batched decoder)
      alone  GreedyDecoder(letters)(log_softmax of line n).best_hyp()       (the stand-alone decoder, per line)
      ocr    PytorchEngineLineOCR.run_ocr(batch) with a stub network that returns the same scores
      filt   char_confidences.greedy_filtration(softmax of line n, chars)[0]  (the greedy text behind the per-character confidences)
      raw    GreedyDecoder(letters)(line n of the network output AS GIVEN, frames x symbols, in its own element type).best_hyp():
             raw scores with max_unnormalization = inf (as the repository's tests call it), or - regimes "ulp32" / "ulp64" -
             properly normalised log-probabilities with the default tolerance.                               (round 9)
   Texts are recorded as class indices through the inverse character table (an unknown character is 99).
   Accepted iff every text of every line equals Collapse(paths[n]) - the definition in the statement; Greedy.tla proves
   that the scan and the vectorised algorithm both equal it.  verdict = 0 or the number of the first failing clause.

   kind = "batch"  a batch of the bounded space TLC explores (above).  The same long-lived objects (one character-table list
           edited in place, one GreedyDecoder per alphabet, one engine) serve many cases of a process, and some cases are
           preceded - on those very objects - by a decode of another small batch with another alphabet and by calls that fail
           (a character table that is too short, unnormalised log-probabilities, a network that raises): what is recorded
           is the LAST call, and the statement pins it whatever was decoded (or went wrong) before.
           Round 9: `paths` is the per-frame arg-max of the SCORES AS GIVEN, whatever their element type and magnitude
           (field regime, informative only: "plain" float32 scores up to +-240; "hi32" / "hi64" raw scores so large that exp()
           overflows to inf for several classes of a frame; "lo32" / "lo64" scores so low that exp() underflows to 0 for every
           class of a frame; "ulp32" / "ulp64" normalised log-probabilities in which the winner leads a lower-indexed class by
           one unit in the last place, the two posteriors being equal in that element type).  The statement speaks of the
           arg-max symbols of the score tensor: a decoder that takes the arg-max of a non-injective image of the scores
           (posteriors, a narrower element type, clipped scores) returns another path on such tensors.  nofilt = TRUE: the
           float64 posteriors greedy_filtration would be given cannot represent the order of the scores (ulp64: the two
           posteriors are EQUAL) - that function is then not called and clause 5 is silent; every other text is still judged.
   kind = "wide"   a score tensor of a size TLC cannot enumerate: more than 255 / 1024 / 4096 / 32767 / 65535 frames or
           classes.  The arg-max path of line i is recorded run-length encoded: run k is the symbol syms[i][k] on the frames
           ends[i][k-1]+1 .. ends[i][k] (ends[i][0] = 0, last end = T); the driver expands the runs, renders the tensor and
           runs the same real functions.  Nothing is precomputed in Python: TLC derives the expected text from the runs,
           WideCollapse(syms[i]) - the collapse of a path equals the collapse of its sequence of run symbols because every
           run is non-empty (WellFormedWide, asserted) - written without recursion so that tens of thousands of runs can be
           evaluated, and tied to the recursive definition Collapse of Greedy.tla by the ASSUME below.                    *)
EXTENDS Greedy, TraceKit
VARIABLES tid, verdict

Tr == Traces[tid]
NL == Len(Tr.paths)
TextsOK(x) == /\ DOMAIN x = 1..NL
              /\ \A i \in 1..NL : x[i] = Collapse(Tr.paths[i])

\* ---------------------------------------------------------------- kind = "wide" (scale)
\* Collapse without recursion: keep position i iff its symbol is not the blank and differs from its left neighbour
WideCollapse(s) ==
  LET kept == SelectSeq([i \in 1..Len(s) |-> i], LAMBDA i : s[i] # Blank /\ (i = 1 \/ s[i - 1] # s[i]))
  IN  [j \in 1..Len(kept) |-> s[kept[j]]]
\* the two formulations of the definition agree (every sequence of up to 5 symbols over two classes and the blank)
ASSUME \A len \in 0..5 : \A p \in [1..len -> {0, 1, Blank}] : WideCollapse(p) = Collapse(p)
\* and expanding runs does not change the collapse (every run-length encoding with up to 3 runs of 1..3 frames)
Expand(s, e) == [f \in 1..e[Len(e)] |-> s[CHOOSE k \in 1..Len(e) : f <= e[k] /\ (k = 1 \/ f > e[k - 1])]]
ASSUME \A len \in 1..3 : \A s \in [1..len -> {0, 1, Blank}] : \A d \in [1..len -> 1..3] :
          LET e == [k \in 1..len |-> IF k = 1 THEN d[1] ELSE IF k = 2 THEN d[1] + d[2] ELSE d[1] + d[2] + d[3]]
          IN  Collapse(Expand(s, e)) = WideCollapse(s)

WellFormedWide ==
  /\ Tr.nc = C /\ DOMAIN Tr.syms = 1..Len(Tr.syms) /\ DOMAIN Tr.ends = 1..Len(Tr.syms) /\ Len(Tr.syms) >= 1
  /\ \A i \in 1..Len(Tr.syms) :
        LET s == Tr.syms[i]
            e == Tr.ends[i]
        IN  /\ Len(s) >= 1 /\ Len(e) = Len(s) /\ e[Len(e)] = Tr.T
            /\ \A k \in 1..Len(s) : s[k] \in 0..(C - 1) /\ e[k] > (IF k = 1 THEN 0 ELSE e[k - 1])
WideOK(x) == /\ DOMAIN x = 1..Len(Tr.syms)
             /\ \A i \in 1..Len(Tr.syms) : x[i] = WideCollapse(Tr.syms[i])
JudgeWide == IF ~Assert(WellFormedWide, <<"malformed wide trace (driver error)", tid>>) THEN 1
             ELSE IF Tr.outcome # "ok" THEN 1
             ELSE IF ~WideOK(Tr.eng) THEN 2
             ELSE IF ~WideOK(Tr.alone) THEN 3
             ELSE IF ~WideOK(Tr.ocr) THEN 4
             ELSE IF ~WideOK(Tr.filt) THEN 5
             ELSE IF ~WideOK(Tr.raw) THEN 6
             ELSE 0

\* ---------------------------------------------------------------- kind = "batch"
JudgeBatch == IF Tr.outcome # "ok" THEN 1
              ELSE IF ~TextsOK(Tr.eng) THEN 2
              ELSE IF ~TextsOK(Tr.alone) THEN 3
              ELSE IF ~TextsOK(Tr.ocr) THEN 4
              ELSE IF ~Tr.nofilt /\ ~TextsOK(Tr.filt) THEN 5
              ELSE IF ~TextsOK(Tr.raw) THEN 6
              ELSE 0
Judge == IF Tr.kind = "wide" THEN JudgeWide ELSE JudgeBatch

TInit == /\ tid \in 1..NTraces
         /\ paths = (IF Traces[tid].kind = "wide" THEN <<>> ELSE Traces[tid].paths)
         /\ n = 1 /\ t = 0 /\ prev = NoSym /\ cur = <<>> /\ scanout = <<>> /\ vecout = <<>>
         /\ verdict = Judge

TNext == UNCHANGED <<vars, tid, verdict>>

TAccept == TKMark(tid, verdict, verdict = 0)
TPost == TKPost
ASSUME TKReset
=============================================================================
