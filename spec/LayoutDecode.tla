---------------------------- MODULE LayoutDecode ----------------------------
(* C18 - detection-map decoding (pero_ocr/layout_engines/cnn_layout_engine.py), PARTIAL model.

   Two discrete skeletons are modelled (DESIGN.md section 4 C18, section 5, Appendix A.18):

   Mode = "pixels":  np.rot90(image, k) as a pixel bijection Rot90 on an H x W grid and LayoutEngine.rotate_layout
       (RotateLayout) applied to a point found in the rotated image; for EVERY pixel of every page up to MaxH x MaxW
       (non-square included) and k = 0..3 the round trip ends within one pixel of the original pixel.

   Mode = "ridges":  the ridge abstraction of LayoutEngine.detect(image, rot = k): the network's maps of the ROTATED
       image hold up to three horizontal ridges (map row, x-extent, ascender/descender height in half map pixels);
       Parse = ideal decoding (one line per ridge, end points / row / heights multiplied by the down-sampling factor
       Ds), Rotate = rotate_layout on every returned point.  TLC checks one line per ridge, the scaling, that every
       returned point is within one pixel of the original-image pixel that np.rot90 moved onto the ridge point, and
       that it lies on the original page.

   NOT modelled: smoothing, non-maxima suppression, thresholding, component labelling and percentiles on arbitrary
   real-valued maps; sloped ridges; clustering into regions (continuous image processing / geometry).

   Several engines in one process (round 9):  PageParser builds one LayoutEngine per LAYOUT_PARSER section, so engines with
   DIFFERENT constructor parameters live side by side and parse pages alternately.  A configuration carries `hist`
   (constant Hists): which other engine (OtherEngines[hist]) was constructed and parsed a page just before the DEFAULT
   engine decodes the configuration's maps.  Parse works with the decoding engine's OWN parameters (Eff), so the
   properties hold for every hist; under the seeded defect "shared" it works with the parameters the other engine left
   behind in class-level / module-level state and ridges 16 rows apart merge (range 35) or vanish (threshold 0.9).

   `Variant` selects seeded defects for the sharpness self-tests:  "shape1" (rot 1 subtracts from shape[1] instead of
   shape[0]), "flip3" (rot 3 without the axis flip), "nods" (heights not multiplied by Ds), "shared" (above).        *)
EXTENDS Integers, Sequences, FiniteSets, TLC

CONSTANTS Mode,        \* "pixels" | "ridges"
          Variant,     \* "ok" | "shape1" | "flip3" | "nods" | "shared"
          MaxH, MaxW,  \* pixels mode: page sizes 1..MaxH x 1..MaxW
          MapH, MapW,  \* ridges mode: size of the network's maps (of the rotated image)
          Dss,         \* down-sampling factors
          Rows,        \* ridge slots: set of map rows (at least 15 apart)
          X0s, Lens,   \* first map column and length of a ridge; length 0 stands for the shortest admissible ridge
          Dys,         \* rises of a ridge from its first to its last column (0 = flat); all ridges of a configuration are parallel
          Hists        \* what ANOTHER LayoutEngine of the same process did before the decode: 0 = there is no other engine,
                       \* h > 0 = an engine with the constructor parameters OtherEngines[h] was built and parsed a page

Abs(a) == IF a < 0 THEN -a ELSE a
Max2(a, b) == IF a > b THEN a ELSE b

\* np.rot90(image, k): where does pixel (x, y) of an H x W image land in the rotated image?
Rot90(k, H, W, x, y) == CASE k = 0 -> <<x, y>>
                          [] k = 1 -> <<y, W - 1 - x>>
                          [] k = 2 -> <<W - 1 - x, H - 1 - y>>
                          [] k = 3 -> <<H - 1 - y, x>>
\* its inverse: the original pixel that lands on pixel q of the rotated image
InvRot(k, H, W, q) == CASE k = 0 -> q
                        [] k = 1 -> <<W - 1 - q[2], q[1]>>
                        [] k = 2 -> <<W - 1 - q[1], H - 1 - q[2]>>
                        [] k = 3 -> <<q[2], H - 1 - q[1]>>
RotShape(k, H, W) == IF k \in {1, 3} THEN <<W, H>> ELSE <<H, W>>        \* (rows, cols) of the rotated image
\* LayoutEngine.rotate_layout applied to a point p = <<x, y>> of the rotated image; shape = rotated image shape
RotateLayout(k, shape, p) ==
    CASE k = 0 -> p
      [] k = 1 -> IF Variant = "shape1" THEN <<shape[2] - p[2], p[1]>>
                  ELSE <<shape[1] - p[2], p[1]>>                            \* flip, then x = shape[0] - x
      [] k = 2 -> <<shape[2] - p[1], shape[1] - p[2]>>
      [] k = 3 -> IF Variant = "flip3" THEN <<p[1], shape[2] - p[2]>>
                  ELSE <<p[2], shape[2] - p[1]>>                            \* flip, then y = shape[1] - y

VARIABLES cfg,     \* pixels: [H, W, k, x, y]; ridges: [k, ds, ep, ridges (sequence of [y, x0, x1, a2, d2])]
          pc,      \* "maps" -> "parsed" -> "rotated"   (pixels mode: "pixel")
          lines    \* sequence of [p0, p1, ha2, hd2]: end points in image pixels, heights in half pixels
vars == <<cfg, pc, lines>>

\* ---------------------------------------------------------------------- pixels mode
PixelInit == /\ Mode = "pixels"
             /\ \E H \in 1..MaxH, W \in 1..MaxW, k \in 0..3 : \E x \in 0..(W - 1), y \in 0..(H - 1) :
                    cfg = [H |-> H, W |-> W, k |-> k, x |-> x, y |-> y]
             /\ pc = "pixel" /\ lines = <<>>
BackWithinOnePixel ==
    Mode = "pixels" =>
       LET q == RotateLayout(cfg.k, RotShape(cfg.k, cfg.H, cfg.W), Rot90(cfg.k, cfg.H, cfg.W, cfg.x, cfg.y))
       IN Abs(q[1] - cfg.x) <= 1 /\ Abs(q[2] - cfg.y) <= 1
RotIsBijection ==
    Mode = "pixels" =>
       LET s == RotShape(cfg.k, cfg.H, cfg.W)
           q == Rot90(cfg.k, cfg.H, cfg.W, cfg.x, cfg.y)
       IN /\ q[1] >= 0 /\ q[1] < s[2] /\ q[2] >= 0 /\ q[2] < s[1]
          /\ InvRot(cfg.k, cfg.H, cfg.W, q) = <<cfg.x, cfg.y>>

\* ---------------------------------------------------------------------- ridges mode
ShortLen(ep) == IF ep THEN 10 ELSE 6          \* end-point responses erase two ridge pixels at each end
Options == (X0s \X Lens) \cup {<<0, 0>>}      \* <<0, 0>> = slot empty  (X0s holds no 0)
\* heights (half map pixels) of the ridge in a slot: a fixed function of the row, the driver uses the same formula
Asc2(row) == 4 + 2 * (row % 4)
Desc2(row) == 2 + (row % 3)
RidgeLen(o, ep) == IF o[2] = 0 THEN ShortLen(ep) ELSE o[2]
RECURSIVE Build(_, _, _)
Build(rows, ch, ep) ==                        \* ridges in increasing row order
    IF rows = {} THEN <<>>
    ELSE LET y == CHOOSE m \in rows : \A o \in rows : m <= o
             rest == Build(rows \ {y}, ch, ep)
         IN IF ch[y] = <<0, 0>> THEN rest
            ELSE <<[y |-> y, x0 |-> ch[y][1], x1 |-> ch[y][1] + RidgeLen(ch[y], ep) - 1,
                    a2 |-> Asc2(y), d2 |-> Desc2(y), dy |-> 0]>> \o rest
RidgeInit == /\ Mode = "ridges"
             /\ \E k \in 0..3, ds \in Dss, ep \in BOOLEAN, rm \in BOOLEAN, dy \in Dys, hist \in Hists, ch \in [Rows -> Options] :
                   /\ \E y \in Rows : ch[y] # <<0, 0>>
                   /\ \A y \in Rows : ch[y] # <<0, 0>> => ch[y][1] + RidgeLen(ch[y], ep) - 1 <= MapW - 1
                   \* a sloped ridge stays inside the maps and is long enough to be "gently" sloped
                   /\ (dy # 0) => \A y \in Rows : ch[y] # <<0, 0>> => (y + dy <= MapH - 4 /\ RidgeLen(ch[y], ep) >= 2 * dy)
                   /\ cfg = [k |-> k, ds |-> ds, ep |-> ep, rm |-> rm, hist |-> hist,
                             ridges |-> [i \in 1..Len(Build(Rows, ch, ep)) |-> [Build(Rows, ch, ep)[i] EXCEPT !.dy = dy]]]
             /\ pc = "maps" /\ lines = <<>>

\* shapes: the maps belong to the rotated image
\* ... whose size need not be a multiple of the down-sampling factor (cfg.rm: page with remainders ds-1 and ds \div 2);
\* un-rotation must use the image's real size, not map size x ds
\* (a configuration may carry its own map size - fields mh, mw: the sampled tall / wide pages of LayoutDecode_Trace, kind "scale")
MapHOf == IF "mh" \in DOMAIN cfg THEN cfg.mh ELSE MapH
MapWOf == IF "mw" \in DOMAIN cfg THEN cfg.mw ELSE MapW
RotH == MapHOf * cfg.ds + (IF cfg.rm THEN cfg.ds - 1 ELSE 0)
RotW == MapWOf * cfg.ds + (IF cfg.rm THEN cfg.ds \div 2 ELSE 0)
OrigH == IF cfg.k \in {1, 3} THEN RotW ELSE RotH
OrigW == IF cfg.k \in {1, 3} THEN RotH ELSE RotW

\* ---- the engine objects of one process
\* constructor parameters of LayoutEngine that parse() reads (thresholds in 1/1000): the engine of the statement (defaults of
\* __init__ = what PageParser passes for a section without these keys) and the other engines a configuration may build next to it
DefaultEngine == [range |-> 5, smooth |-> TRUE, lew |-> 1000, thr |-> 200]
OtherEngines == <<[range |-> 35, smooth |-> FALSE, lew |-> 0, thr |-> 200],       \* broken rules: wide connection range, raw maps
                  [range |-> 5, smooth |-> TRUE, lew |-> 1000, thr |-> 900],      \* a strict detection threshold
                  [range |-> 21, smooth |-> TRUE, lew |-> 2500, thr |-> 100]>>
HistOf == IF "hist" \in DOMAIN cfg THEN cfg.hist ELSE 0
\* the parameters parse() of the decoding (default) engine works with: its own, whatever another engine did before
Eff == IF Variant = "shared" /\ HistOf # 0 THEN OtherEngines[HistOf] ELSE DefaultEngine
\* a rendered ridge (Gaussian profile, peak 1) after the 3 x 3 smoothing: (1 + 2 exp(-1/2)) / 3
Peak(e) == IF e.smooth THEN 738 ELSE 1000
\* binary dilation by `range` rows + labelling: ridge pixels at most `range` rows apart end up in one component = one line
\* (reported here by its topmost ridge); no recursion - the sampled pages of kind "scale" have thousands of ridges
Components(rs, e) ==
    LET heads == {i \in 1..Len(rs) : i = 1 \/ rs[i].y - rs[i - 1].y > e.range}
    IN IF Cardinality(heads) = Len(rs) THEN rs
       ELSE [j \in 1..Cardinality(heads) |-> rs[CHOOSE i \in heads : Cardinality({m \in heads : m < i}) = j - 1]]
Decoded == IF Peak(Eff) > Eff.thr THEN Components(cfg.ridges, Eff) ELSE <<>>

\* LayoutEngine.parse: one line per ridge, map coordinates times the down-sampling factor
Parse == /\ pc = "maps"
         /\ lines' = [i \in 1..Len(Decoded) |->
                         LET r == Decoded[i]
                             hs == IF Variant = "nods" THEN 1 ELSE cfg.ds
                         IN [p0 |-> <<cfg.ds * r.x0, cfg.ds * r.y>>, p1 |-> <<cfg.ds * r.x1, cfg.ds * (r.y + r.dy)>>,
                             ha2 |-> hs * r.a2, hd2 |-> hs * r.d2]]
         /\ pc' = "parsed" /\ UNCHANGED cfg
\* LayoutEngine.rotate_layout on every point
Rotate == /\ pc = "parsed"
          /\ lines' = [i \in 1..Len(lines) |->
                          [lines[i] EXCEPT !.p0 = RotateLayout(cfg.k, <<RotH, RotW>>, lines[i].p0),
                                           !.p1 = RotateLayout(cfg.k, <<RotH, RotW>>, lines[i].p1)]]
          /\ pc' = "rotated" /\ UNCHANGED cfg
Done == pc \in {"rotated", "pixel"} /\ UNCHANGED vars

Init == PixelInit \/ RidgeInit
Next == Parse \/ Rotate \/ Done
Spec == Init /\ [][Next]_vars

\* expected position in the ORIGINAL image of a point q of the rotated image: the pixel np.rot90 moved there
Expected(q) == InvRot(cfg.k, OrigH, OrigW, q)
Within(p, e, tx, ty) == Abs(p[1] - e[1]) <= tx /\ Abs(p[2] - e[2]) <= ty

\* ======================================== properties ================================================
OnePerRidge == (Mode = "ridges" /\ pc # "maps") =>
                  /\ Len(lines) = Len(cfg.ridges)
                  /\ \A i, j \in 1..Len(lines) : i # j => lines[i] # lines[j]
ScaledByDs == (Mode = "ridges" /\ pc = "parsed") =>
                 \A i \in 1..Len(lines) :
                    LET r == cfg.ridges[i] IN
                    /\ lines[i].ha2 = cfg.ds * r.a2 /\ lines[i].hd2 = cfg.ds * r.d2
                    /\ lines[i].p0 = <<cfg.ds * r.x0, cfg.ds * r.y>> /\ lines[i].p1 = <<cfg.ds * r.x1, cfg.ds * (r.y + r.dy)>>
BackToOriginal == (Mode = "ridges" /\ pc = "rotated") =>
                     \A i \in 1..Len(lines) :
                        LET r == cfg.ridges[i] IN
                        /\ Within(lines[i].p0, Expected(<<cfg.ds * r.x0, cfg.ds * r.y>>), 1, 1)
                        /\ Within(lines[i].p1, Expected(<<cfg.ds * r.x1, cfg.ds * (r.y + r.dy)>>), 1, 1)
InsideOriginal == (Mode = "ridges" /\ pc = "rotated") =>
                     \A i \in 1..Len(lines) :
                        /\ lines[i].p0[1] >= 0 /\ lines[i].p0[1] <= OrigW /\ lines[i].p0[2] >= 0 /\ lines[i].p0[2] <= OrigH
                        /\ lines[i].p1[1] >= 0 /\ lines[i].p1[1] <= OrigW /\ lines[i].p1[2] >= 0 /\ lines[i].p1[2] <= OrigH
=============================================================================
