---------------------------- MODULE RegionAssign ----------------------------
(* C11 - lines are assigned to the regions they lie in, clipped, with unique ids.

   Part A (INIT AInit, NEXT ANext): one call of layout_helpers.assign_lines_to_regions on a rectilinear grid.
   Pixels are the unit; a cell <<i, j>> is the square [2i, 2i+2] x [2j, 2j+2].  A region is a set of cells
   (rectangle, nested rectangle, concave U and L, overlapping rectangle, a self-touching pair of bars).
   A detected line is horizontal: baseline at y = 2j+1 from x = 2a+1 to x = 2b+1 (cell centres), heights (1, 1),
   so its outline is exactly row j between the two end points.  For every candidate pair (bounding-box filter)
   mask_textline_by_region keeps the longest maximal run of the baseline inside the region if it is longer than
   2 px; the id is region id + position of the line in the detected list.
   A self-touching region is taken as the point set of its cells (what the proposed repair with make_valid does);
   the current tree clips such a region with its convex hull, which a cell grid cannot express: that defect has no
   Legacy variant here and is found by conformance checking only.

   Part B (INIT BInit, NEXT BNext): LayoutExtractor.process_page as a small machine over the option set
   (DETECT_REGIONS, DETECT_LINES, MERGE_LINES, MULTI_ORIENTATION): clear step, one step per orientation
   (stub detector returns the same regions and lines for every orientation), one step per iteration of the
   merge loop.  Line ids are records [rid, n, tag]; Legacy = TRUE drops the orientation tag, which is what the
   current tree does: with supplied regions, line detection, three orientations and no merging the same id is
   handed out three times.

   Property layer: PieceInside, WhollyInsideKept, DisjointNeverPlaced, LongestPiece, FilterHarmless,
   IdsDistinct, WithinAcceptance (Part A); PageIdsDistinct, OnlyThatCombination (Part B).
   Allowed / Mandatory are shared with the trace layer (RegionAssign_Trace): property-level acceptance of a real
   execution is Mandatory \subseteq observed \subseteq Allowed.                                              *)
EXTENDS Integers, Sequences, FiniteSets, TLC

CONSTANTS Shapes,      \* set of records [name, cells, valid]  (valid = FALSE: the ring touches itself)
          NCols, NRows, MaxRegs, MaxLines,
          Legacy,      \* TRUE: line ids without the orientation tag (current tree)
          CRegSets,    \* Part C: set of sets of rectangles [name, x0, y0, x1, y1] (px)
          CLineSet,    \* Part C: set of tilted baselines [slot, di, a, d, n, ks, h]
          CMaxLines,   \* Part C: at most that many baselines on a page
          MergeBackSame, \* TRUE (self-test only): merge_lines rotates "back" by the SAME angle as forth (seeded slip C11-A8)
          CEdits,      \* Part C: in-place edits [f, dx, dy] of the region polygons between two passes (scale by f, then shift)
          StaleOutline \* TRUE (self-test only): the clipping outline is kept with the region object and reused by later calls
                       \* although region.polygon was edited in place (seeded slip C11-A9)

VARIABLES regs,        \* set of shapes on the page / returned by the stub detector
          lines,       \* sequence of detected lines [j, a, b]
          placed,      \* Part A: set of placed lines
          opt, page, oi, mi, phase    \* Part B

vars == <<regs, lines, placed, opt, page, oi, mi, phase>>

Cols == 0..(NCols - 1)
Rows == 0..(NRows - 1)
Lines == {l \in [j : Rows, a : Cols, b : Cols] : l.a < l.b}
LineLists == UNION {[1..n -> Lines] : n \in 0..MaxLines}
RegSets == {s \in SUBSET Shapes : Cardinality(s) <= MaxRegs}

-----------------------------------------------------------------------------
(* geometry of one (region, line) pair *)
X0(l) == 2 * l.a + 1
X1(l) == 2 * l.b + 1
Y(l) == 2 * l.j + 1
Inside(r, i, j) == <<i, j>> \in r.cells
MinOf(S) == CHOOSE m \in S : \A o \in S : m <= o
MaxOf(S) == CHOOSE m \in S : \A o \in S : m >= o
\* assign_lines_to_regions: a pair is skipped only when the bounding boxes are separated in x AND in y
\* (the baseline is horizontal: min y = max y)
RegX0(r) == 2 * MinOf({c[1] : c \in r.cells})
RegX1(r) == 2 * MaxOf({c[1] : c \in r.cells}) + 2
RegY0(r) == 2 * MinOf({c[2] : c \in r.cells})
RegY1(r) == 2 * MaxOf({c[2] : c \in r.cells}) + 2
Candidate(r, l) == ~ ( /\ (Y(l) <= RegY0(r) \/ Y(l) >= RegY1(r))
                       /\ (X1(l) <= RegX0(r) \/ X0(l) >= RegX1(r)) )
\* maximal runs of consecutive columns of row l.j, within the baseline's span, that lie in the region
Runs(r, l) == {run \in (l.a..l.b) \X (l.a..l.b) :
                 /\ run[1] <= run[2] /\ \A i \in run[1]..run[2] : Inside(r, i, l.j)
                 /\ (run[1] = l.a \/ ~Inside(r, run[1] - 1, l.j)) /\ (run[2] = l.b \/ ~Inside(r, run[2] + 1, l.j))}
PieceX0(l, run) == IF run[1] = l.a THEN X0(l) ELSE 2 * run[1]
PieceX1(l, run) == IF run[2] = l.b THEN X1(l) ELSE 2 * run[2] + 2
PieceLen(l, run) == PieceX1(l, run) - PieceX0(l, run)
\* mask_textline_by_region: the longest piece (any of them on ties), only if longer than 2 px
Mask(r, l) == LET rs == Runs(r, l)
              IN IF rs = {} THEN {}
                 ELSE LET best == MaxOf({PieceLen(l, x) : x \in rs})
                      IN {run \in rs : PieceLen(l, run) = best /\ best > 2}
Assign(r, l) == IF Candidate(r, l) THEN Mask(r, l) ELSE {}
WhollyInside(r, l) == X1(l) - X0(l) > 2 /\ \A i \in l.a..l.b : Inside(r, i, l.j)
Touches(r, l) == \E i \in l.a..l.b : Inside(r, i, l.j)

(* what the statement allows and what it demands for a page (rs = set of shapes, ls = sequence of lines):
   tuples <<region name, line number, x0, x1>> *)
Allowed(rs, ls) == UNION {{<<rn[1].name, rn[2], PieceX0(ls[rn[2]], run), PieceX1(ls[rn[2]], run)>> : run \in Mask(rn[1], ls[rn[2]])} :
                            rn \in rs \X (1..Len(ls))}
Mandatory(rs, ls) == {<<rn[1].name, rn[2], X0(ls[rn[2]]), X1(ls[rn[2]])>> :
                         rn \in {rn \in rs \X (1..Len(ls)) : WhollyInside(rn[1], ls[rn[2]])}}
Distinct(s) == \A a, b \in 1..Len(s) : a # b => s[a] # s[b]

-----------------------------------------------------------------------------
(* Part A: one call *)
AInit == /\ regs \in RegSets /\ lines \in LineLists
         /\ placed = {}
         /\ opt = [dr |-> FALSE, dl |-> FALSE, merge |-> FALSE, multi |-> FALSE]
         /\ page = <<>> /\ oi = 1 /\ mi = 1 /\ phase = "call"
Pairs == {rn \in regs \X (1..Len(lines)) : Assign(rn[1], lines[rn[2]]) # {}}
\* pairs with several longest pieces: the choice among them is left open (one branch per combination)
TiePairs == {rn \in Pairs : Cardinality(Assign(rn[1], lines[rn[2]])) > 1}
TheRun(rn) == CHOOSE run \in Assign(rn[1], lines[rn[2]]) : TRUE
\* every (line, region) candidate pair in turn; id = region id + number of the line in the detected list
AssignAll == /\ phase = "call"
             /\ \E f \in [TiePairs -> UNION {Assign(rn[1], lines[rn[2]]) : rn \in TiePairs}] :
                  /\ \A rn \in TiePairs : f[rn] \in Assign(rn[1], lines[rn[2]])
                  /\ placed' = {LET run == IF rn \in TiePairs THEN f[rn] ELSE TheRun(rn)
                                 IN [id |-> <<rn[1].name, rn[2]>>, region |-> rn[1].name, line |-> rn[2],
                                     x0 |-> PieceX0(lines[rn[2]], run), x1 |-> PieceX1(lines[rn[2]], run)] : rn \in Pairs}
             /\ phase' = "returned"
             /\ UNCHANGED <<regs, lines, opt, page, oi, mi>>

Reg(name) == CHOOSE r \in regs : r.name = name
PieceInside == \A p \in placed : LET l == lines[p.line]
                                     r == Reg(p.region)
                                 IN /\ X0(l) <= p.x0 /\ p.x1 <= X1(l) /\ p.x1 - p.x0 > 2
                                    /\ \A i \in Cols : (2 * i + 2 > p.x0 /\ 2 * i < p.x1) => Inside(r, i, l.j)
WhollyInsideKept == phase = "returned" => \A r \in regs, n \in 1..Len(lines) :
                      WhollyInside(r, lines[n])
                         => \E p \in placed : p.region = r.name /\ p.line = n /\ p.x0 = X0(lines[n]) /\ p.x1 = X1(lines[n])
DisjointNeverPlaced == \A p \in placed : Touches(Reg(p.region), lines[p.line])
LongestPiece == \A p \in placed : \A run \in Runs(Reg(p.region), lines[p.line]) : PieceLen(lines[p.line], run) <= p.x1 - p.x0
IdsDistinct == \A p, q \in placed : p.id = q.id => p = q
\* the bounding-box filter never drops a pair that mask_textline_by_region would place
FilterHarmless == \A r \in regs, n \in 1..Len(lines) : ~Candidate(r, lines[n]) => Mask(r, lines[n]) = {}
\* the detailed model satisfies the acceptance condition used for real executions
WithinAcceptance == phase = "returned" =>
                      LET obs == {<<p.region, p.line, p.x0, p.x1>> : p \in placed}
                      IN Mandatory(regs, lines) \subseteq obs /\ obs \subseteq Allowed(regs, lines)

-----------------------------------------------------------------------------
(* Part B: LayoutExtractor.process_page *)
Orients == IF opt.multi THEN <<0, 1, 3>> ELSE <<0>>
Tag(rot) == IF rot = 0 THEN "0" ELSE IF rot = 1 THEN "1" ELSE "3"
\* region ids: supplied regions keep their own id; detected ones are r<k> for rot 0 and r<k>_<rot> otherwise
SuppliedId(name) == [name |-> name, src |-> "supplied"]
DetectedId(name, rot) == [name |-> name, src |-> Tag(rot)]
\* line id = region id + number in the detected list (+ orientation tag when repaired)
LineId(rid, n, rot) == [rid |-> rid, n |-> n, tag |-> IF Legacy THEN "0" ELSE Tag(rot)]
RECURSIVE SeqOfSet(_)
SeqOfSet(S) == IF S = {} THEN <<>> ELSE LET m == MinOf(S) IN <<m>> \o SeqOfSet(S \ {m})
Names == {r.name : r \in regs}
RECURSIVE SeqOfNames(_)
SeqOfNames(S) == IF S = {} THEN <<>> ELSE LET m == CHOOSE x \in S : TRUE IN <<m>> \o SeqOfNames(S \ {m})
ShapeOf(name) == CHOOSE r \in Shapes : r.name = name
\* pairs (region name, line number) the statement allows / demands
AllowedPairs == {<<t[1], t[2]>> : t \in Allowed(regs, lines)}
MandPairs == {<<t[1], t[2]>> : t \in Mandatory(regs, lines)}
LinesFor(name, rid, P, rot) == LET ns == SeqOfSet({n \in 1..Len(lines) : <<name, n>> \in P})
                               IN [k \in 1..Len(ns) |-> LineId(rid, ns[k], rot)]

BInit == /\ regs \in RegSets /\ lines \in LineLists
         /\ placed = {}
         /\ opt \in [dr : BOOLEAN, dl : BOOLEAN, merge : BOOLEAN, multi : BOOLEAN]
         \* the page comes with the supplied regions and the lines of an earlier plain run
         /\ page = LET nm == SeqOfNames(Names)
                   IN [k \in 1..Len(nm) |-> [id |-> SuppliedId(nm[k]), name |-> nm[k],
                                             lines |-> LinesFor(nm[k], SuppliedId(nm[k]), AllowedPairs, 0)]]
         /\ oi = 1 /\ mi = 1 /\ phase = "clear"
NoAssign == UNCHANGED <<regs, lines, placed, opt>>
\* if detect_regions: page.regions = [];  if detect_lines: region.lines = [] for the remaining regions
Clear == /\ phase = "clear"
         /\ page' = IF opt.dr THEN <<>>
                    ELSE IF opt.dl THEN [k \in 1..Len(page) |-> [page[k] EXCEPT !.lines = <<>>]]
                    ELSE page
         /\ phase' = IF opt.dr \/ opt.dl THEN "orient" ELSE IF opt.merge THEN "merge" ELSE "done"
         /\ UNCHANGED <<oi, mi>> /\ NoAssign
\* one iteration of `for rot in orientations`: detect, build regions, assign lines, extend the page
Orient == /\ phase = "orient" /\ oi <= Len(Orients)
          /\ LET rot == Orients[oi]
                 nm == SeqOfNames(Names)
             IN \E P \in SUBSET AllowedPairs :
                  /\ MandPairs \subseteq P
                  /\ LET fresh == [k \in 1..Len(nm) |->
                                     [id |-> DetectedId(nm[k], rot), name |-> nm[k],
                                      lines |-> IF opt.dl THEN LinesFor(nm[k], DetectedId(nm[k], rot), P, rot) ELSE <<>>]]
                         grown == [k \in 1..Len(page) |->
                                     [page[k] EXCEPT !.lines = page[k].lines \o LinesFor(page[k].name, page[k].id, P, rot)]]
                     IN page' = IF opt.dr THEN page \o fresh ELSE IF opt.dl THEN grown ELSE page
          /\ oi' = oi + 1
          /\ UNCHANGED <<mi, phase>> /\ NoAssign
OrientDone == /\ phase = "orient" /\ oi > Len(Orients)
              /\ phase' = IF opt.merge THEN "merge" ELSE "done"
              /\ UNCHANGED <<page, oi, mi>> /\ NoAssign
\* one iteration of the merge loop of region mi: merge_lines returns m <= c lines, they are assigned to the region
\* again (ids regenerated from 1); the loop ends when the number of lines did not change
MergeIter == /\ phase = "merge" /\ mi <= Len(page)
             /\ LET c == Len(page[mi].lines)
                IN \E m \in 0..c :
                     /\ page' = [page EXCEPT ![mi].lines = [n \in 1..m |-> LineId(page[mi].id, n, 0)]]
                     /\ mi' = IF m = c THEN mi + 1 ELSE mi
             /\ UNCHANGED <<oi, phase>> /\ NoAssign
MergeDone == /\ phase = "merge" /\ mi > Len(page)
             /\ phase' = "done"
             /\ UNCHANGED <<page, oi, mi>> /\ NoAssign

-----------------------------------------------------------------------------
(* Part C (INIT CInit, NEXT CNext): tilted baselines (a skewed page) in rectangular regions, through the orientation
   loop and the merge loop of LayoutExtractor.process_page (DETECT_LINES on, MERGE_LINES on / off).
   A rectangle is [name, x0, y0, x1, y1] in px.  A detected baseline is [slot, di, a, d, n, ks, h]: points a + ks[m] * d with
   d = <<dx, dy>> a Pythagorean direction, dx^2 + dy^2 = n^2 (rotations by the tilt are then exact in integers), h = <<ascender,
   descender>>, slot = number of its row, di = number of its direction (all baselines of a page share one direction: the page skew).
   merge_lines(baselines of ONE region): rotation = mean tilt of the LONGER HALF of the lines (none for fewer than two lines),
   all baselines are de-skewed by a rotation about the ORIGIN, merges are decided on the de-skewed lines (rows that overlap
   by more than 0.7 of the smaller height ...), and the result is rotated BACK by the opposite angle; the lines are then assigned
   to the region again.  Lines in rows that do not overlap are not mergeable: for them the two rotations cancel and the line is
   placed as it was detected - which is what the statement says about every line wholly inside a region.  Points are kept as
   integer numerators: after the merge step every coordinate is scaled by s = n^2.
   Pieces of baselines that cross a rectangle's border are not modelled here (left to the trace layer: any piece).
   History (round 9): after the first pass the caller may edit the polygons of the SAME region objects in place (CEdit: scale by f
   together with the detected lines = the page at another resolution, or shift the regions only) and run a second pass (oi = 2).
   assign_lines_to_regions keeps no state: every call clips with the polygon as it is THEN.  StaleOutline = TRUE models an outline
   cached with the region object (page = the cached rectangles), which the second pass would reuse.                           *)
CAbs(x) == IF x < 0 THEN -x ELSE x
CPts(l) == [m \in 1..Len(l.ks) |-> <<l.a[1] + l.ks[m] * l.d[1], l.a[2] + l.ks[m] * l.d[2]>>]
CScale(pts, s) == [m \in 1..Len(pts) |-> <<s * pts[m][1], s * pts[m][2]>>]
CInRect(r, p, s) == s * r.x0 < p[1] /\ p[1] < s * r.x1 /\ s * r.y0 < p[2] /\ p[2] < s * r.y1
CWhollyIn(r, l) == \A m \in 1..Len(l.ks) : CInRect(r, CPts(l)[m], 1)
\* rotation about the origin by the tilt of direction d; the result is |d| times the rotated point.  RotF de-skews (d itself goes
\* to <<|d|^2, 0>>), RotB is the opposite rotation: RotB(RotF(p, d), d) = |d|^2 * p
RotF(p, d) == <<d[1] * p[1] + d[2] * p[2], d[1] * p[2] - d[2] * p[1]>>
RotB(p, d) == <<d[1] * p[1] - d[2] * p[2], d[1] * p[2] + d[2] * p[1]>>
CListsOver(S) == {s \in UNION {[1..n -> S] : n \in 0..CMaxLines} : \A i, j \in DOMAIN s : i < j => s[i].slot < s[j].slot}
CLineLists == UNION {CListsOver({l \in CLineSet : l.di = k}) : k \in {l.di : l \in CLineSet}}
CN == IF Len(lines) = 0 THEN 1 ELSE lines[1].n
CDir == IF Len(lines) = 0 THEN <<1, 0>> ELSE lines[1].d
CRect(name) == CHOOSE r \in regs : r.name = name

CInit == /\ regs \in CRegSets /\ lines \in CLineLists
         /\ placed = {}
         /\ opt \in [dr : {FALSE}, dl : {TRUE}, merge : BOOLEAN, multi : {FALSE}]
         /\ page = <<>> /\ oi = 1 /\ mi = 1 /\ phase = "c-detect"
\* orientation loop (one orientation): every baseline wholly inside a rectangle is placed there unchanged
\* the rectangle a region is clipped with: its polygon as it is now (StaleOutline: the outline cached by an earlier call)
COutline(r) == IF StaleOutline /\ \E k \in 1..Len(page) : page[k].name = r.name
               THEN page[CHOOSE k \in 1..Len(page) : page[k].name = r.name] ELSE r
RECURSIVE CSeqOfRects(_)
CSeqOfRects(S) == IF S = {} THEN <<>> ELSE LET r == CHOOSE x \in S : TRUE IN <<r>> \o CSeqOfRects(S \ {r})
CAssign == /\ phase = "c-detect"
           /\ placed' = {[region |-> rn[1].name, line |-> rn[2], pts |-> CPts(lines[rn[2]]), s |-> 1] :
                            rn \in {x \in regs \X (1..Len(lines)) : CWhollyIn(COutline(x[1]), lines[x[2]])}}
           /\ page' = IF StaleOutline THEN CSeqOfRects({COutline(r) : r \in regs}) ELSE page
           /\ phase' = IF opt.merge THEN "c-merge" ELSE "done"
           /\ UNCHANGED <<regs, lines, opt, oi, mi>>
CRegLines(name) == {p \in placed : p.region = name}
\* get_rotation: lines_info[0 : int(len / 2)] - no rotation for fewer than two lines (<<CN, 0>> = angle 0 at the same scale)
CTilt(name) == IF Cardinality(CRegLines(name)) < 2 THEN <<CN, 0>> ELSE CDir
\* de-skewed row of a placed line: from its highest point minus the ascender to its lowest point plus the descender (times CN)
CRowLo(p) == LET ys == {RotF(p.pts[m], CTilt(p.region))[2] : m \in DOMAIN p.pts} IN MinOf(ys) - CN * lines[p.line].h[1]
CRowHi(p) == LET ys == {RotF(p.pts[m], CTilt(p.region))[2] : m \in DOMAIN p.pts} IN MaxOf(ys) + CN * lines[p.line].h[2]
CUnmergeable == \A p, q \in placed : (p # q /\ p.region = q.region) => (CRowHi(p) <= CRowLo(q) \/ CRowHi(q) <= CRowLo(p))
CBack(q, d) == IF MergeBackSame THEN RotF(q, d) ELSE RotB(q, d)
\* merge loop, all regions: de-skew, (nothing to merge), rotate back, assign to the region again
CMerge == /\ phase = "c-merge" /\ CUnmergeable
          /\ LET moved == {[p EXCEPT !.pts = [m \in DOMAIN p.pts |-> CBack(RotF(p.pts[m], CTilt(p.region)), CTilt(p.region))],
                                     !.s = CN * CN] : p \in placed}
             IN placed' = {q \in moved : \A m \in DOMAIN q.pts : CInRect(COutline(CRect(q.region)), q.pts[m], q.s)}
          /\ phase' = "done"
          /\ UNCHANGED <<regs, lines, opt, page, oi, mi>>
\* between two passes the caller edits region.polygon IN PLACE (same region objects, same array objects): scale by e.f (the page
\* at another resolution: the detected lines scale with it) and / or shift the regions; DETECT_LINES empties the regions again
CEditRect(r, e) == [r EXCEPT !.x0 = e.f * r.x0 + e.dx, !.x1 = e.f * r.x1 + e.dx, !.y0 = e.f * r.y0 + e.dy, !.y1 = e.f * r.y1 + e.dy]
CEditLine(l, e) == [l EXCEPT !.a = <<e.f * l.a[1], e.f * l.a[2]>>, !.ks = [m \in 1..Len(l.ks) |-> e.f * l.ks[m]],
                             !.h = <<e.f * l.h[1], e.f * l.h[2]>>]
CEdit == /\ phase = "done" /\ oi = 1
         /\ \E e \in CEdits : /\ regs' = {CEditRect(r, e) : r \in regs}
                               /\ lines' = [n \in 1..Len(lines) |-> CEditLine(lines[n], e)]
         /\ placed' = {} /\ oi' = 2 /\ phase' = "c-detect"
         /\ UNCHANGED <<opt, page, mi>>
CNext == CAssign \/ CMerge \/ CEdit

CPieceOfDetected == \A p \in placed : /\ p.pts = CScale(CPts(lines[p.line]), p.s)
                                      /\ \A m \in DOMAIN p.pts : CInRect(CRect(p.region), p.pts[m], p.s)
CWhollyInsideKept == phase = "done" => \A r \in regs, n \in 1..Len(lines) :
                        CWhollyIn(r, lines[n]) => \E p \in placed : /\ p.region = r.name /\ p.line = n
                                                                    /\ p.pts = CScale(CPts(lines[n]), p.s)
\* the cases of the family are un-mergeable (else CMerge would not be enabled and "done" never reached)
CMergeEnabled == phase = "c-merge" => CUnmergeable

\* machines over the same variables: TLC runs Part A with INIT AInit / NEXT ANext and Part B with INIT BInit / NEXT BNext
ANext == AssignAll
BNext == Clear \/ Orient \/ OrientDone \/ MergeIter \/ MergeDone
Init == AInit \/ BInit \/ CInit
Next == ANext \/ BNext \/ CNext

RECURSIVE Flat(_)
Flat(ss) == IF ss = <<>> THEN <<>> ELSE Head(ss) \o Flat(Tail(ss))
PageLineIds == Flat([k \in 1..Len(page) |-> page[k].lines])
\* all line ids on the page are distinct, for every option combination
PageIdsDistinct == phase = "done" => Distinct(PageLineIds)
RegionIdsDistinct == Distinct([k \in 1..Len(page) |-> page[k].id])
\* (holds for both values of Legacy) the only combination that can hand out an id twice
OnlyThatCombination == (phase = "done" /\ ~Distinct(PageLineIds)) => (~opt.dr /\ opt.dl /\ opt.multi /\ ~opt.merge)
=============================================================================
