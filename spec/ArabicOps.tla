----------------------------- MODULE ArabicOps -----------------------------
(* Pure operators shared by ArabicOrder (C06, order conversion) and AltoExport (C06, export):
   text is a sequence of character-class tokens (DESIGN.md 2.2).

     "A" "B"   Arabic letters            (in ArabicHelper.forward_mapping / _backward_mapping, U+0600..U+06FF)
     "C"       Arabic delimiter          (ArabicHelper.arabic_delimiters, e.g. the Arabic comma U+060C)
     "s"       U+0020                    (member of ArabicHelper.delimiters, white space)
     "d"       Latin delimiter           (the other members of ArabicHelper.delimiters:  , - . " :)
     "w"       any other white space     (tab, NBSP, thin space, ideographic space: str.isspace() but not U+0020)
     "a" "b"   Latin letters of the engine charset
     "n"       digit
     "x"       a character outside the engine charset (accented letter, markup character, astral character)

   RunsOf / Rev transcribe ArabicHelper._reverse (pero_ocr/core/arabic_helper.py:247-321) character by
   character: the text is cut into runs that are Arabic (Arabic letters/delimiters plus embedded Latin
   delimiters) or not; when an Arabic character follows a non-Arabic run, the trailing delimiters of that run
   are handed over to the new Arabic run; the same hand-over happens at the end of the text; Arabic runs
   are reversed character-wise and the order of the runs is reversed.                                  *)
EXTENDS Naturals, Sequences, FiniteSets

IsAr(c)    == c \in {"A", "B", "C"}
IsDelim(c) == c \in {"s", "d"}
IsWs(c)    == c \in {"s", "w"}           \* str.isspace() / the separators of str.split()
InArabicRange(c) == c \in {"A", "B", "C"}  \* ArabicHelper._arabic_chars_pattern
IsArLetter(c) == c \in {"A", "B"}

RECURSIVE Reverse(_)
Reverse(s) == IF s = <<>> THEN <<>> ELSE Append(Reverse(Tail(s)), Head(s))

RECURSIVE TrailDelims(_)
TrailDelims(s) == IF s = <<>> THEN 0
                  ELSE IF IsDelim(s[Len(s)]) THEN 1 + TrailDelims(SubSeq(s, 1, Len(s) - 1)) ELSE 0

Run(chars, arabic) == [chars |-> chars, arabic |-> arabic]
RunState0 == [seqs |-> <<>>, cur |-> Run(<<>>, TRUE)]

\* one iteration of the  for c in text  loop
RunStep(st, c) ==
  LET cur == st.cur
      n == Len(cur.chars)
  IN  IF IsAr(c)
      THEN IF ~cur.arabic /\ n > 0
           THEN LET k == TrailDelims(cur.chars)
                IN  [seqs |-> Append(st.seqs, Run(SubSeq(cur.chars, 1, n - k), FALSE)),
                     cur  |-> Run(Append(SubSeq(cur.chars, n - k + 1, n), c), TRUE)]
           ELSE [seqs |-> st.seqs, cur |-> Run(Append(cur.chars, c), TRUE)]
      ELSE IF ~IsDelim(c)
      THEN IF cur.arabic /\ n > 0
           THEN [seqs |-> Append(st.seqs, cur), cur |-> Run(<<c>>, FALSE)]
           ELSE [seqs |-> st.seqs, cur |-> Run(Append(cur.chars, c), FALSE)]
      ELSE [seqs |-> st.seqs, cur |-> Run(Append(cur.chars, c), cur.arabic)]

\* the block after the loop: the last run is closed, its trailing delimiters become an Arabic run of their own
RunClose(st) ==
  LET cur == st.cur
      n == Len(cur.chars)
      k == TrailDelims(cur.chars)
  IN  IF n = 0 THEN st.seqs
      ELSE Append(st.seqs, Run(SubSeq(cur.chars, 1, n - k), cur.arabic))
           \o (IF k > 0 THEN <<Run(SubSeq(cur.chars, n - k + 1, n), TRUE)>> ELSE <<>>)

\* Arabic runs reversed, run order reversed, concatenated
RECURSIVE RunEmit(_)
RunEmit(seqs) == IF seqs = <<>> THEN <<>>
                 ELSE LET r == seqs[Len(seqs)]
                      IN  (IF r.arabic THEN Reverse(r.chars) ELSE r.chars) \o RunEmit(SubSeq(seqs, 1, Len(seqs) - 1))

RECURSIVE RunScan(_, _)
RunScan(st, t) == IF t = <<>> THEN st ELSE RunScan(RunStep(st, Head(t)), Tail(t))

\* ArabicHelper._reverse = string_to_label_form = label_form_to_string
Rev(t) == RunEmit(RunClose(RunScan(RunState0, t)))

\* ---- vocabulary of the property -------------------------------------------------------------------
CountOf(s, c) == Cardinality({i \in 1..Len(s) : s[i] = c})
SameChars(s, t) == /\ Len(s) = Len(t)
                   /\ \A i \in 1..Len(s) : CountOf(s, s[i]) = CountOf(t, s[i])
=============================================================================
