"""C18 - detection-map decoding (PARTIAL: rotation bijection + ridge abstraction, DESIGN.md section 4 C18 / section 5).

1. TLC checks spec/LayoutDecode.tla: Mode "pixels" = every pixel of every page up to MaxH x MaxW, k = 0..3
   (RotIsBijection, BackWithinOnePixel); Mode "ridges" = every ridge configuration of the bounded space (OnePerRidge,
   ScaledByDs, BackToOriginal, InsideOriginal).  Self-tests: the seeded variants shape1 / flip3 / nods must violate.
2. The same pages / configurations are run through the real code: np.rot90 as applied by LayoutEngine.detect +
   LayoutEngine.rotate_layout for every pixel; LayoutEngine.detect (engine built with __new__, stub network rendering the
   ridges into the maps of the rotated image).  TLC validates every recorded execution against LayoutDecode_Trace.
3. Scale + history (kind "scale" of LayoutDecode_Trace): a few sampled pages beyond the bounded spaces (300 / 523 / 1040 ridges in one
   column, map rows / columns > 32767 and > 65535, coordinates > 65535, heights > 255 map px) through ONE long-lived LayoutEngine, some after a
   call that raises half-way, the first page once more at the end; TLC judges every ridge of every page by the same LineMatches.
4. Several engines in one process (round 9, constant Hists of LayoutDecode.tla): the sloped-ridges space is also explored with
   hist > 0 = ANOTHER LayoutEngine with other constructor parameters (LayoutDecode!OtherEngines; wide connection range, strict threshold,
   ...) is built by the real constructor next to the default engine and parses a page first, in a process whose first parse() this is
   (K.run_history_cases, forked before the driver executes any other pero_ocr code); the verdict clauses do not depend on hist.
   Self-test: Variant "shared" (parse() works with what the other engine left behind) must violate OnePerRidge.
NOT covered: smoothing / NMS / percentiles on arbitrary real-valued maps, sloped ridges, clustering (see notes/C18.md).
"""
import os
import re
import sys
import time

from .. import layoutdecode_common as K
from ..core import pmap, MachineryFailure

LEVEL = "model_checking"

PIX_CLAUSES = {1: "exception", 2: "rot90-not-the-modelled-bijection", 3: "regions-not-within-1px", 4: "baselines-not-within-1px",
               5: "outlines-not-within-1px", 6: "exact-rotate-layout"}
RIDGE_CLAUSES = {7: "detect-vs-repeated-parse-of-same-maps-not-within-1px", 9: "history-binding", 1: "exception", 2: "line-count", 3: "line-position-or-heights", 4: "regions", 5: "exact-network-saw-rotated-page",
                 6: "exact-end-points"}


SCALE_CLAUSES = {1: "exception", 2: "line-count", 3: "line-position-or-heights", 4: "regions",
                 7: "detect-vs-parse-of-same-maps-not-within-1px"}


def _init_count(res):
    m = re.search(r"Finished computing initial states: (\d+) (?:distinct states? generated|states generated, with (\d+) of them distinct)",
                  res["out"])
    return int(m.group(2) or m.group(1)) if m else -1


def sizes(tier):
    return (6, 9) if tier == "thorough" else (5, 7)


def ridge_space(tier):
    if tier == "thorough":
        return K.ridge_bounds(Dss=[1, 2, 3, 4, 8], X0s=[3, 12, 27], Lens=[0, 17, 30])
    return K.ridge_bounds()


def selftests(ctx, mh, mw, rb):
    small = dict(rb, Dss=[2], Rows=[8, 24], X0s=[3], Lens=[0, 30])
    ctx.tlc("LayoutDecode", constants=K.tla_constants(rb, "pixels", "shape1", mh, mw), invariants=["BackWithinOnePixel"], workers=2,
            expect_violation="BackWithinOnePixel", label="LayoutDecode pixels Variant=shape1", coverage=False)
    ctx.tlc("LayoutDecode", constants=K.tla_constants(rb, "pixels", "flip3", mh, mw), invariants=["BackWithinOnePixel"], workers=2,
            expect_violation="BackWithinOnePixel", label="LayoutDecode pixels Variant=flip3", coverage=False)
    ctx.tlc("LayoutDecode", constants=K.tla_constants(small, "ridges", "shape1"), invariants=["BackToOriginal"], workers=2,
            expect_violation="BackToOriginal", label="LayoutDecode ridges Variant=shape1", coverage=False)
    ctx.tlc("LayoutDecode", constants=K.tla_constants(small, "ridges", "nods"), invariants=["ScaledByDs"], workers=2,
            expect_violation="ScaledByDs", label="LayoutDecode ridges Variant=nods", coverage=False)
    shared = dict(rb, Dss=[2], Rows=[8, 24], X0s=[3], Lens=[30], Hists=[0, 1, 2, 3])
    ctx.tlc("LayoutDecode", constants=K.tla_constants(shared, "ridges", "shared"), invariants=["OnePerRidge"], workers=2,
            expect_violation="OnePerRidge", label="LayoutDecode ridges Variant=shared", coverage=False)


def signature(tr, prog):
    table = PIX_CLAUSES if tr["mode"] == "pixels" else (SCALE_CLAUSES if tr["mode"] == "scale" else RIDGE_CLAUSES)
    name = table.get(prog - 10, "step%d" % prog)
    if tr["outcome"] != "ok":
        name = tr["outcome"]
    if tr.get("hist", 0):            # another engine (constructor parameters OtherEngines[hist]) parsed before in the same process
        return "%s:%s:after-engine-%d" % (tr["mode"], name, tr["hist"])
    if tr["mode"] == "scale":        # class of the page: through detect or parse alone, more than 255 ridges or a long / tall one
        return "scale:%s:%s:%s" % (name, tr["via"], "many-ridges" if len(tr["ridges"]) > 255 else "few-large-ridges")
    return "%s:%s:rot%d" % (tr["mode"], name, tr["k"])


def describe(tr):
    if tr["mode"] == "pixels":
        return "page %dx%d (HxW) rot=%d" % (tr["H"], tr["W"], tr["k"])
    if tr["mode"] == "scale":
        return "%s%s rot=%d ds=%d endpoints=%s maps %dx%d with %d ridges (rows %d..%d, columns %d..%d) on a long-lived engine -> %d lines %s" % (
            tr["via"], " (page decoded a second time)" if tr.get("again") else "", tr["k"], tr["ds"], tr["ep"], tr["mh"], tr["mw"],
            len(tr["ridges"]), tr["ridges"][0]["y"], tr["ridges"][-1]["y"], min(r["x0"] for r in tr["ridges"]),
            max(r["x1"] for r in tr["ridges"]), len(tr["lines"]), [(l["pts"][0], l["pts"][-1], l["h"]) for l in tr["lines"]][:2])
    return "%srot=%d ds=%d endpoints=%s ridges=%s -> %d lines %s" % (
        ("default LayoutEngine after another engine of the same process (%s) parsed a page: " % (tr.get("other"),)) if tr.get("hist", 0) else "",
        tr["k"], tr["ds"], tr["ep"], [(r["y"], r["x0"], r["x1"], r.get("dy", 0)) for r in tr["ridges"]], len(tr["lines"]),
        [(l["pts"][0], l["pts"][-1], l["h"]) for l in tr["lines"]][:3])


def judge(ctx, name, consts, cases, traces, exact=True):
    sh = max(1, min(5, len(traces) // 800)) if exact else min(3, len(traces))
    acc, rej = ctx.validate("LayoutDecode_Trace", traces, constants=dict(consts, Level="property"), shards=sh,
                            label="LayoutDecode_Trace %s property" % name)
    rejected = {i for i, _ in rej}
    for i, prog in rej:
        if traces[i]["mode"] == "scale" and prog == 19:
            raise MachineryFailure("C18 scale: the sampled page %r is outside the scope of the statement (ScaleInScope)" % (cases[i],))
        if traces[i]["mode"] == "ridges" and prog == 19:
            raise MachineryFailure("C18 ridges: the other engine of %r is not LayoutDecode!OtherEngines[hist] (HistBound)" % (cases[i],))
        ctx.violation({"space": name, "consts": _plain(consts), "case": cases[i]}, signature(traces[i], prog),
                      "clause %s fails; %s" % (signature(traces[i], prog), describe(traces[i])))
    if not exact:                      # (no detailed model of the sampled large pages)
        return rej
    before = ctx.traces_validated
    _, rej2 = ctx.validate("LayoutDecode_Trace", traces, constants=dict(consts, Level="exact"), shards=sh,
                           label="LayoutDecode_Trace %s exact" % name)
    ctx.traces_validated = before
    for i, prog in rej2:
        if i not in rejected:
            ctx.model_drift("%s:%s" % (name, signature(traces[i], prog)), 1, describe(traces[i]))
    return rej


def _plain(consts):
    return {k: (sorted(v) if isinstance(v, (set, frozenset)) else v) for k, v in consts.items()}


def _consts(d):
    return {k: (set(v) if isinstance(v, list) else v) for k, v in d.items()}


def run(ctx):
    mh, mw = sizes(ctx.tier)
    rb = ridge_space(ctx.tier)
    ctx.rule = ("every pixel of every page up to %dx%d for k=0..3 through np.rot90 (inside detect) and rotate_layout; every ridge "
                "configuration of the bounded space (rotation x down-sampling x end-point responses x up to three ridges) through "
                "LayoutEngine.detect with a stub network; non-trivial = non-square page with k>0, or a rotated ridge configuration" % (mh, mw))
    ctx.exhaustive = True
    ctx.assume("PARTIAL: decoding of arbitrary real-valued maps (smoothing, non-maxima suppression, percentiles), curved ridges and the "
               "clustering of lines into regions are NOT covered; ridges are straight (flat, or parallel with a rise of 18 map px over 58), Gaussian profile",
               "ridge length >= 6 map px without end-point responses, >= 10 with them (the responses erase two pixels at each end)",
               "tolerances: end points 3 map px + 1 px, row 1 map px + 1 px, heights 1 % of a map pixel, regions 6 px",
               "scale: sampled pages only (6 pages + 1 repeated in the quick tier), ridges flat, one column; one LayoutEngine object for all of them",
               "LayoutEngine built with __new__ and the constructor's default parameters; np.random seeded (tie-breaker of the left-to-right sort)",
               "several engines in one process: sloped-ridges space only; the default engine and one other engine (LayoutDecode!OtherEngines) from "
               "the real constructor with PageParser's keyword arguments (network class stubbed); only the DEFAULT engine's result is judged; "
               "an engine whose attributes are changed after construction is not exercised (outside the statement)")
    selftests(ctx, mh, mw, rb)
    # ---- several engines in one process: the configurations of the sloped-ridges space with hist > 0, executed FIRST (forked children of
    # a process that has not run any pero_ocr code yet, one per value of hist); judged below together with the rest of that space
    sloped = K.ridge_bounds(Dss=[1, 2] if ctx.tier == "quick" else [1, 2, 4], Rows=[8, 24], X0s=[3], Lens=[0, 58], Dys=[0, 18],
                            Hists=[0, 1, 2] if ctx.tier == "quick" else [0, 1, 2, 3])
    sloped_cases = K.enumerate_ridge_cases(sloped)
    hist_idx = [i for i, c in enumerate(sloped_cases) if c["hist"] > 0]
    t_hist = time.time()
    hist_traces = dict(zip(hist_idx, K.run_history_cases([sloped_cases[i] for i in hist_idx])))
    ctx.notes["several_engines"] = "%d configurations with another engine in the process, executed in %.1f s" % (len(hist_idx), time.time() - t_hist)
    # ---- pixels
    pc = K.tla_constants(rb, "pixels", "ok", mh, mw)
    res = ctx.tlc("LayoutDecode", constants=pc, invariants=["RotIsBijection", "BackWithinOnePixel"], workers=4, label="LayoutDecode pixels",
                  coverage=False)
    cases = K.enumerate_pixel_cases(mh, mw)
    traces = [K.run_case(c) for c in cases]
    if _init_count(res) != sum(c["H"] * c["W"] for c in cases):
        raise MachineryFailure("C18 pixels: TLC explored %d pixels, the driver %d" % (_init_count(res), sum(c["H"] * c["W"] for c in cases)))
    rej = judge(ctx, "pixels", pc, cases, traces)
    for c in cases:
        ctx.count(c["H"] * c["W"], ("px", c["H"], c["W"], c["k"]) if c["H"] != c["W"] and c["k"] > 0 else None)
    ctx.sample({"space": "pixels", "trace": traces[len(traces) // 2]}, limit=2)
    good = next((t for i, t in enumerate(traces) if i not in {j for j, _ in rej} and t["H"] == 3 and t["W"] == mw and t["k"] == 1), None)
    if good is not None:
        def corrupt(tr):
            tr["px"][4][6] += 2000            # one returned baseline point lands two pixels away
            return tr
        ctx.selftest_corrupt("LayoutDecode_Trace", good, corrupt, constants=dict(pc, Level="property"))
    # ---- ridges: flat ridges of the main space, then long parallel SLOPED ridges whose rise (18 map px) exceeds the spacing of
    # the rows (16), so that the bounding boxes of neighbouring ridges overlap
    for sname, space in (("ridges", rb), ("sloped-ridges", sloped)):
        rc = K.tla_constants(space, "ridges", "ok")
        res = ctx.tlc("LayoutDecode", constants=rc, invariants=["OnePerRidge", "ScaledByDs", "BackToOriginal", "InsideOriginal"], workers=4,
                      label="LayoutDecode " + sname)
        cases = K.enumerate_ridge_cases(space) if space is not sloped else sloped_cases
        if _init_count(res) != len(cases):
            raise MachineryFailure("C18 %s: TLC explored %d configurations, the driver %d" % (sname, _init_count(res), len(cases)))
        plain = [i for i, c in enumerate(cases) if c["hist"] == 0]
        traces = [None] * len(cases)
        for i, tr in zip(plain, pmap(K.run_case, [cases[i] for i in plain], procs=6)):
            traces[i] = tr
        if space is sloped:
            for i, tr in hist_traces.items():
                traces[i] = tr
        judge(ctx, sname, rc, cases, traces)
        for c in cases:
            ctx.count(1, (sname, c["k"], c["ds"], c["ep"], c["rm"], c["hist"], tuple((r["y"], r["x0"], r["x1"], r["dy"]) for r in c["ridges"]))
                      if c["k"] > 0 or c["hist"] > 0 else None)
    rc = K.tla_constants(rb, "ridges", "ok")
    run_scale(ctx, rc)
    ctx.sample({"space": "ridges", "trace": traces[len(traces) // 2]}, limit=4)
    if os.environ.get("C18_TIMING"):
        sys.stderr.write("%s\n%s\n" % (ctx.notes["several_engines"], "\n".join("%6.1f s  %s" % (r.get("wall_s", -1), r.get("label")) for r in ctx.tlc_runs)))
    ctx.notes["explanation"] = ("TLC exhaustive on LayoutDecode.tla (pixels: RotIsBijection, BackWithinOnePixel; ridges: OnePerRidge, ScaledByDs, "
                                "BackToOriginal, InsideOriginal); the same pages and ridge configurations executed by np.rot90 inside "
                                "LayoutEngine.detect, LayoutEngine.rotate_layout and LayoutEngine.detect with a stub network, validated by "
                                "LayoutDecode_Trace (property level; exact level reported as drift)")


def run_scale(ctx, rc, seq=None, only=None):
    """sampled pages beyond the bounded spaces, all through one long-lived engine (K.run_scale_sequence); a case = the sequence of
    page parameters + the index of the page, so that a replay re-creates the history of the engine"""
    seq = seq if seq is not None else K.scale_sequence(ctx.tier, ctx.seed)
    traces = K.run_scale_sequence(seq, upto=only)
    idx = list(range(len(traces))) if only is None else [only]
    cases = [{"mode": "scale", "seq": seq, "index": i} for i in idx]
    rej = judge(ctx, "scale", rc, cases, [traces[i] for i in idx], exact=False)
    if only is None and 0 not in {i for i, _ in rej}:
        def corrupt(tr):                      # line 256 of the page gets the position of line 1 (two ridges share a line, one has none)
            tr["lines"][255] = dict(tr["lines"][255], pts=tr["lines"][0]["pts"], tl=tr["lines"][0]["tl"])
            return tr
        ctx.selftest_corrupt("LayoutDecode_Trace", traces[0], corrupt, constants=dict(rc, Level="property"))
    for i in idx:
        ctx.count(1, ("scale", i, seq[i]["n"], seq[i]["mw"], seq[i]["ds"], seq[i]["k"], seq[i]["via"]))
    if only is None:
        ctx.sample({"space": "scale", "page": seq[0], "lines": len(traces[0]["lines"])}, limit=1)


def replay(ctx, case):
    c = case["case"]
    if c.get("mode") == "scale":
        run_scale(ctx, _consts(case["consts"]), seq=c["seq"], only=c["index"])
        return
    tr = K.run_case(c)
    judge(ctx, case["space"], _consts(case["consts"]), [c], [tr])
    ctx.count(1, None)
