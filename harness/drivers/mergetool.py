"""MERGETOOL - growth beyond the listed properties (DESIGN.md sections 8 and 12.5): the folder-level behaviour of the tool
user_scripts/merge_ocr_results.py main().

1. Design: TLC checks spec/MergeTool.tla (intended variant Legacy = FALSE: all invariants, action properties WriteOnce / InputKept,
   liveness Terminates) for every input of a handful of small configurations (engine directories x pages x lines x file states x
   confidence levels x id variants x extensions x --filter-list x --min-confidence x --fix-arabic-order); Legacy = TRUE (the code
   as it is) must violate OnlyDocumentedErrors / NoPageLost (IndexError when every engine fails for a page; NameError of
   --fix-arabic-order) and Consistent (logit_coords are not copied with the logits).
2. Cases: the SAME initial states (enumerated from the same bounds; the numbers are compared with TLC's count of initial states)
   are realised as real directories under ctx.workdir - PAGE XML and .logits files written with the library, files removed or
   overwritten with garbage - and the REAL main() is run on them in-process (sys.argv, stdout / stderr captured; exit(-1) and
   every exception are observations).  The output directory is read back with PageLayout(file=..) + load_logits and projected to
   provenance tokens (which input cell a line's transcription / logits / characters / logit_coords / geometry equal).
3. Conformance: MergeTool_Trace with Legacy = TRUE; TLC searches an order of the pages (os.listdir order is unspecified) that
   ends in the recorded result.  A rejected run prints MERGETOOL-MISMATCH (not a VIOLATION line: not a listed property).
4. Thorough: larger exhaustive configurations + sampled cases of 3 engines x 3 pages x up to 3 lines with every option.
"""
import concurrent.futures
import contextlib
import importlib.util
import io
import itertools
import os
import shutil
import sys
import tempfile
import time

import numpy as np
import scipy.sparse as sp

from ..core import pmap, REPO, MachineryFailure

LEVEL = "model_checking"
INVS = ["TypeOK", "OnlyDocumentedErrors", "PagesWritten", "NoPageLost", "GeometryFirstLoaded", "Consistent", "ConsistentButCoords",
        "WinnerBest", "LinesKept", "LogitsLoadable"]
PROPS = ["Terminates", "WriteOnce", "InputKept"]
LEGACY_INVS = ["TypeOK", "PagesWritten", "GeometryFirstLoaded", "ConsistentButCoords", "WinnerBest", "LinesKept", "LogitsLoadable"]
# deviations of spec/MergeTool.tla (L1 IndexError when every engine fails, L2 logit_coords not copied, L3 NameError of
# --fix-arabic-order) that the tree under test no longer has: none today.  The recorded runs are validated with Legacy = TRUE minus these.
REPAIRED = ()
D = 8
MAXP, MAXL = 3, 3
ALL_STATS = ("ok", "noxml", "badxml", "nolg", "badlg")
FIELDS = ("NEng", "NPages", "NLs", "Confs", "Stats", "IdVars", "XConfs", "TNs", "Exts", "WithFilter", "MinConfs", "FixArs")
WIDE = {"NEng": 3, "NPages": 3, "NLs": {0, 1, 2, 3}, "Confs": {0, 4, 6, 8}, "Stats": set(ALL_STATS), "IdVars": {0, 1}, "XConfs": {0, 3, 9},
        "TNs": {False, True}, "Exts": {"xml", "XML", "txt"}, "WithFilter": True, "MinConfs": {0, 5, 7}, "FixArs": {False, True}}


def _cfg(name, **kw):
    c = {"name": name, "NEng": 2, "NPages": 1, "NLs": {1}, "Confs": {4, 6}, "Stats": {"ok", "noxml"}, "IdVars": {0}, "XConfs": {3},
         "TNs": {False}, "Exts": {"xml"}, "WithFilter": False, "MinConfs": {0}, "FixArs": {False}, "legacy": ()}
    c.update(kw)
    return c


# (invariant Legacy = TRUE must violate, constants overridden for that run, the deviation it isolates)
L1 = (("OnlyDocumentedErrors", {}, "IndexError when every engine fails for a page"),
      ("NoPageLost", {}, "the IndexError stops the run and loses the pages not yet processed"))
L2 = (("Consistent", {}, "logit_coords stay those of the first loaded engine"),)
L3 = (("OnlyDocumentedErrors", {"Stats": {"ok"}, "FixArs": {True}}, "NameError of --fix-arabic-order"),)


def configs(tier):
    """the bounded spaces: every one is checked by TLC and executed exhaustively; "legacy" = invariants Legacy = TRUE must violate"""
    if tier == "quick":
        return [
            _cfg("folders", NEng=2, NPages=2, Stats={"ok", "noxml", "badlg"}, WithFilter=True,
                 legacy=L1),
            _cfg("three-engines", NEng=3, Confs={0, 4, 6}, Stats={"ok", "nolg"}, XConfs={3, 9}, MinConfs={0, 5}, legacy=L2),
            _cfg("zip", NEng=2, NLs={0, 1, 2}, Confs={0, 4, 6}, Stats={"ok", "badxml"}, IdVars={0, 1}, MinConfs={0, 5}),
            _cfg("extensions", NEng=2, NPages=2, NLs={0, 1}, Confs={4}, Exts={"xml", "XML", "txt"}, FixArs={False, True},
                 legacy=L3),
            _cfg("one-engine", NEng=1, NLs={0, 1, 2}, Confs={0, 4, 6}, Stats=set(ALL_STATS), XConfs={0, 3, 9}, TNs={False, True},
                 WithFilter=True, MinConfs={0, 5}),
        ]
    return configs("quick") + [
        _cfg("folders-3x2", NEng=3, NPages=2, Confs={6}, Stats={"ok", "noxml", "badlg"}, WithFilter=True, legacy=L1),
        _cfg("three-engines-wide", NEng=3, Confs={0, 4, 6, 8}, Stats={"ok", "nolg"}, IdVars={0, 1}, XConfs={3, 9}, MinConfs={0, 5},
             legacy=L2),
        _cfg("zip-wide", NEng=2, NLs={0, 1, 2}, Confs={0, 4, 6}, Stats={"ok", "badxml"}, IdVars={0, 1}, XConfs={3, 9}, MinConfs={0, 5}),
        _cfg("extensions-wide", NEng=2, NPages=2, NLs={0, 1}, Confs={4}, Stats={"ok", "noxml", "nolg"}, Exts={"xml", "XML", "txt"},
             FixArs={False, True}, legacy=L3),
        _cfg("one-engine-2-pages", NEng=1, NPages=2, NLs={0, 1, 2}, Confs={0, 4, 6}, Stats=set(ALL_STATS), XConfs={0, 9}, WithFilter=True,
             MinConfs={0, 5}),
        _cfg("three-pages", NEng=2, NPages=3, Confs={6}, Stats={"ok", "nolg"}, IdVars={0, 1}, WithFilter=True, legacy=L1),
        _cfg("no-transcription", NEng=2, NLs={1, 2}, Confs={0, 6}, Stats={"ok", "badlg"}, XConfs={0, 9}, TNs={False, True}, MinConfs={0, 5}),
    ]


def consts_of(c, legacy, repaired=()):
    k = {f: c[f] for f in FIELDS}
    k["Legacy"] = bool(legacy)
    k["Repaired"] = set(repaired)
    return k


# ------------------------------------------------------------------------------------------------ the bounded input space
def _cells(c):
    out = [{"st": st, "cf": [], "idv": 0, "xc": 0, "tn": False} for st in sorted(c["Stats"]) if st != "ok"]
    for n in sorted(c["NLs"]):
        for cf in itertools.product(sorted(c["Confs"]), repeat=n):
            for idv in sorted(c["IdVars"]):
                for xc in sorted(c["XConfs"]):
                    for tn in sorted(c["TNs"]):
                        out.append({"st": "ok", "cf": list(cf), "idv": idv, "xc": xc, "tn": tn})
    return out


def _filters(c):
    fl = [{"on": False, "ids": []}]
    if c["WithFilter"]:
        pages = list(range(1, c["NPages"] + 1))
        for r in range(len(pages) + 1):
            fl += [{"on": True, "ids": list(s)} for s in itertools.combinations(pages, r)]
    return fl


def n_cases(c):
    return (len(_cells(c)) ** (c["NEng"] * c["NPages"]) * len(c["Exts"]) ** c["NPages"] * len(_filters(c)) * len(c["MinConfs"])
            * len(c["FixArs"]))


def cases_of(c, rng):
    ne, npg = c["NEng"], c["NPages"]
    cells = _cells(c)
    for grid in itertools.product(cells, repeat=ne * npg):
        cell = [[grid[e * npg + p] for p in range(npg)] for e in range(ne)]
        for ext in itertools.product(sorted(c["Exts"]), repeat=npg):
            for flt in _filters(c):
                for minc in sorted(c["MinConfs"]):
                    for fixar in sorted(c["FixArs"]):
                        yield {"cfg": c["name"], "cell": cell, "ext": list(ext), "flt": flt, "minc": minc, "fixar": fixar,
                               "vseed": rng.randrange(1 << 16)}


def sampled_cases(n, rng):
    """beyond the exhaustive bounds: 3 engines x 3 pages x up to 3 lines, every file state / option (constants WIDE)"""
    out = []
    for _ in range(n):
        pfail = rng.choice((0.1, 0.3, 0.6))
        pmis = rng.choice((0.0, 0.0, 0.15))
        nmax = rng.choice((1, 2, 3, 3))
        cell = []
        for e in range(3):
            row = []
            for p in range(3):
                if rng.random() < pfail:
                    row.append({"st": rng.choice(ALL_STATS[1:]), "cf": [], "idv": 0, "xc": 0, "tn": False})
                else:
                    nl = nmax if rng.random() < 0.7 else rng.randrange(0, nmax + 1)
                    row.append({"st": "ok", "cf": [rng.choice((0, 4, 4, 6, 6, 8)) for _ in range(nl)], "idv": int(rng.random() < pmis),
                                "xc": rng.choice((0, 3, 9)), "tn": rng.random() < 0.3})
            cell.append(row)
        flt = {"on": False, "ids": []}
        if rng.random() < 0.4:
            flt = {"on": True, "ids": [p for p in (1, 2, 3) if rng.random() < 0.6]}
        out.append({"cfg": "sampled", "cell": cell, "ext": [rng.choice(("xml", "xml", "XML", "txt")) for _ in range(3)], "flt": flt,
                    "minc": rng.choice((0, 0, 5, 7)), "fixar": rng.random() < 0.1, "vseed": rng.randrange(1 << 16)})
    return out


# ------------------------------------------------------------------------------------------------ realisation as real files
_MG = None
_WORK = None
_CACHE = {}
DEFAULT_CELL = {"st": "ok", "cf": [4], "idv": 0, "xc": 3, "tn": False}          # what the files of a failing cell would have held
COMPUTED = {"%.3f" % ((lv - 2) / 8.0): lv for lv in (4, 6, 8)}


def load_merge():
    path = os.path.join(REPO, "user_scripts", "merge_ocr_results.py")
    spec = importlib.util.spec_from_file_location("verif_mergetool_script", path)
    mod = importlib.util.module_from_spec(spec)
    spec.loader.exec_module(mod)
    return mod


def xval(level, e):
    return {3: 0.1, 9: 0.96}[level] + 0.001 * e


def min_conf_value(minc):
    return (minc - 2) / 8.0          # 5 -> 0.375 (between the levels 0.25 and 0.5), 7 -> 0.625


def stem(p):
    return "pg%d" % p


def line_id(k, idv):
    return "l%d%s" % (k, "x" if idv else "")


def build_cell(e, p, cell, variants):
    """engine e's PAGE XML + logits for page p.  Every line's content is unique to (e, p, k): own letters, a character table (and a
    logit matrix) of its own width - the extra columns are absent entries, which do not change a single bit of the soft-max, so equal
    levels are exactly equal floats in every engine -, own logit_coords, own geometry."""
    key = (e, p, tuple(cell["cf"]), cell["idv"], cell["xc"], cell["tn"], tuple(variants[:len(cell["cf"])]))
    if key in _CACHE:
        return _CACHE[key]
    from pero_ocr.core.layout import PageLayout, RegionLayout, TextLine
    page = PageLayout(id="%s@e%d" % (stem(p), e), page_size=(100 + e, 200 + p))
    regs = [RegionLayout("r1", np.array([[0, 0], [60 + e, 0], [60 + e, 45], [0, 45]])),
            RegionLayout("r2", np.array([[0, 50], [60 + e, 50], [60 + e, 99 + p], [0, 99 + p]]))]
    page.regions = regs
    meta = {"geo": (page.id, tuple(page.page_size), [(r.id, r.polygon.tolist()) for r in regs]), "lines": {}}
    for k, level in enumerate(cell["cf"], start=1):
        idx = ((e - 1) * MAXP + (p - 1)) * MAXL + (k - 1)
        c1, c2 = chr(0x100 + 2 * idx), chr(0x101 + 2 * idx)
        chars = [c1, c2, "z"] + [chr(0x3041 + j) for j in range(idx)] + ["~"]
        nc = len(chars)
        y = 10 * k if k == 1 else 50 + 10 * k
        x1 = 50 + e + 10 * p
        line = TextLine(id=line_id(k, cell["idv"]), baseline=np.array([[0, y + e], [x1, y]]),
                        polygon=np.array([[0, y - 5 - e], [x1, y - 5], [x1, y + 2], [0, y + 2 + e]]), heights=[5.0 + e, 2.0 + 0.5 * e],
                        characters=chars)
        line.index = k - 1
        if level == 0:
            line.transcription = None if cell["tn"] else ""
            rows = np.full((2, nc), 1.0)
        else:
            a = level - 2
            spec = [a] if variants[k - 1] == 0 else [a + 1, a - 1]
            line.transcription = (c1 + c2)[:len(spec)]
            rows = np.zeros((len(spec), nc))
            for i, w in enumerate(spec):
                rows[i, i] = w
                rows[i, nc - 1] = D - w
        with np.errstate(divide="ignore"):
            lg = np.log(rows / D) + 1.5          # unnormalised; zero weight = absent entry of the sparse matrix (floor -80)
        lg[rows == 0] = 0.0
        line.logits = sp.csc_matrix(lg)
        line.logit_coords = [idx, 100 + idx]
        if cell["xc"] and line.transcription is not None:
            line.transcription_confidence = xval(cell["xc"], e)
        regs[0 if k == 1 else 1].lines.append(line)
        meta["lines"][k] = {"text": line.transcription, "logits": line.logits, "chars": chars, "coords": list(line.logit_coords),
                            "geo": (regs[0 if k == 1 else 1].id, line.baseline.tolist(), line.polygon.tolist(), list(line.heights))}
    res = (page.to_pagexml_string(), page.save_logits_bytes(), meta)
    _CACHE[key] = res
    return res


def same_logits(a, b):
    return a is not None and b is not None and a.shape == b.shape and (a != b).nnz == 0


def _write(path, data):
    with open(path, "wb") as fh:
        fh.write(data if isinstance(data, bytes) else data.encode("utf-8"))


def run_main(argv):
    old = sys.argv
    sys.argv = ["merge_ocr_results.py"] + argv
    so, se = io.StringIO(), io.StringIO()
    try:
        with contextlib.redirect_stdout(so), contextlib.redirect_stderr(se):
            _MG.main()
        return "ok"
    except BaseException as ex:          # exit(-1) of the script included: part of the observation
        if isinstance(ex, KeyboardInterrupt):
            raise
        return type(ex).__name__
    finally:
        sys.argv = old


def execute(case):
    """one run of the real tool; returns the trace (input + projected observation)"""
    from pero_ocr.core.layout import PageLayout
    ne, npg = len(case["cell"]), len(case["cell"][0])
    variants = [(case["vseed"] >> k) & 1 for k in range(MAXL)]
    root = tempfile.mkdtemp(prefix="case_", dir=_WORK)
    tr = {f: case[f] for f in ("cfg", "cell", "ext", "flt", "minc", "fixar", "vseed")}
    try:
        metas = {}
        dirs = []
        for e in range(1, ne + 1):
            d = os.path.join(root, "engine%d" % e)
            os.makedirs(d)
            dirs.append(d)
            for p in range(1, npg + 1):
                cell = case["cell"][e - 1][p - 1]
                st = cell["st"]
                xml, lgb, meta = build_cell(e, p, cell if st == "ok" else DEFAULT_CELL, variants)
                metas[(e, p)] = meta
                xname = os.path.join(d, "%s.%s" % (stem(p), case["ext"][p - 1]))
                lname = os.path.join(d, stem(p) + ".logits")
                if st != "noxml":
                    _write(xname, "<PcGts><Page imageFilename=" if st == "badxml" else xml)
                if st != "nolg":
                    _write(lname, b"this is not a pickle" if st == "badlg" else lgb)
        outdir = os.path.join(root, "merged")
        argv = ["--output-path", outdir]
        if case["flt"]["on"]:
            fl = os.path.join(root, "filter.txt")
            _write(fl, "\n".join([stem(p) for p in case["flt"]["ids"]] + ["no-such-page"]) + "\n")
            argv += ["--filter-list", fl]
        if case["minc"]:
            argv += ["--min-confidence", repr(min_conf_value(case["minc"]))]
        if case["fixar"]:
            argv.append("--fix-arabic-order")
        tr["outcome"] = run_main(argv + dirs)
        # ---- observation: the output directory
        present = set(os.listdir(outdir)) if os.path.isdir(outdir) else set()
        expected_names = set()
        tr["out"] = []
        for p in range(1, npg + 1):
            xn = "%s.%s" % (stem(p), case["ext"][p - 1])
            ln = stem(p) + ".logits"
            expected_names |= {xn, ln}
            o = {"xml": xn in present, "lgt": ln in present, "loads": False, "geo": [0, 0], "lines": []}
            if o["xml"]:
                try:
                    page = PageLayout(file=os.path.join(outdir, xn))
                    if o["lgt"]:
                        try:
                            page.load_logits(os.path.join(outdir, ln))
                            o["loads"] = all(l.logits is not None and l.characters is not None and l.logit_coords is not None
                                             for l in page.lines_iterator())
                        except Exception:
                            o["loads"] = False
                    _project(page, metas, o)
                except Exception:
                    o["geo"] = [0, 0]
                    o["lines"] = [{"k": 0, "idv": 0, "ge": [0, 0, 0], "tx": [], "lg": [], "ch": [], "co": [], "src": "o", "lvl": 0, "xe": 0}]
            tr["out"].append(o)
        tr["stray"] = len(present - expected_names)
    finally:
        shutil.rmtree(root, ignore_errors=True)
    return tr


def _project(page, metas, o):
    pgeo = (page.id, tuple(page.page_size), [(r.id, r.polygon.tolist()) for r in page.regions])
    for (e, p), m in metas.items():
        if m["geo"] == pgeo:
            o["geo"] = [e, p]
    for region in page.regions:
        for line in region.lines:
            lid = line.id or ""
            idv = 1 if lid.endswith("x") else 0
            core = lid[1:-1] if idv else lid[1:]
            k = int(core) if lid[:1] == "l" and core.isdigit() else 0
            rec = {"k": k, "idv": idv, "ge": [0, 0, 0], "tx": [], "lg": [], "ch": [], "co": [], "src": "o", "lvl": 0, "xe": 0}
            lgeo = (region.id, np.asarray(line.baseline).tolist() if line.baseline is not None else None,
                    np.asarray(line.polygon).tolist() if line.polygon is not None else None,
                    [float(h) for h in line.heights] if line.heights is not None else None)
            for (e, p), m in sorted(metas.items()):
                for kk, lm in sorted(m["lines"].items()):
                    tok = [e, p, kk]
                    if lm["geo"] == lgeo:
                        rec["ge"] = tok
                    if lm["text"] == line.transcription:
                        rec["tx"].append(tok)
                    if same_logits(lm["logits"], line.logits):
                        rec["lg"].append(tok)
                    if line.characters is not None and lm["chars"] == list(line.characters):
                        rec["ch"].append(tok)
                    if line.logit_coords is not None and lm["coords"] == list(line.logit_coords):
                        rec["co"].append(tok)
            c = line.transcription_confidence
            if c is None:
                rec["src"] = "n"
            else:
                s = "%.3f" % c
                if s in COMPUTED:
                    rec["src"], rec["lvl"] = "c", COMPUTED[s]
                else:
                    for e in range(1, 4):
                        for lv in (3, 9):
                            if s == "%.3f" % xval(lv, e):
                                rec["src"], rec["lvl"], rec["xe"] = "x", lv, e
            o["lines"].append(rec)


def run_cases(ctx, cases):
    global _MG, _WORK
    if _MG is None:
        _MG = load_merge()
    _WORK = ctx.workdir
    execute(cases[0])          # imports and caches warm before forking
    return pmap(execute, cases, procs=6)


def _nontrivial(tr):
    """a page was written although an engine failed for it, or from more than one engine, or the run ended in an exception"""
    if tr["outcome"] != "ok":
        return True
    for p, o in enumerate(tr["out"]):
        if o["xml"]:
            sts = [row[p]["st"] for row in tr["cell"]]
            if any(s != "ok" for s in sts) or sum(s == "ok" for s in sts) > 1:
                return True
    return False


def judge(ctx, traces, consts, label):
    acc, rej = ctx.validate("MergeTool_Trace", traces, constants=consts, shards=max(1, min(2, len(traces) // 1500)), label=label)
    for i, tr in enumerate(traces):
        ctx.count(1, "%s/%d" % (label, i) if _nontrivial(tr) else None)
    for n, (idx, prog) in enumerate(rej):
        tr = traces[idx]
        if n < 5:          # every rejected run counts, the first few of a batch are printed in full
            print("MERGETOOL-MISMATCH progress=%d case=%s" % (prog, {k: tr[k] for k in ("cfg", "cell", "ext", "flt", "minc", "fixar", "vseed",
                                                                                       "outcome", "out", "stray")}))
        elif n == 5:
            print("MERGETOOL-MISMATCH ... %d more rejected runs in %s" % (len(rej) - 5, label))
        ctx.violations.append({"signature": "mergetool", "what": "run is not a behaviour of MergeTool.tla (Legacy = TRUE)", "replay": None})
    return acc, rej


def _label(c):
    return "%s: %d engines x %d pages, lines %s, levels %s, states %s" % (c["name"], c["NEng"], c["NPages"], sorted(c["NLs"]),
                                                                          sorted(c["Confs"]), sorted(c["Stats"]))


def design(ctx, c):
    """TLC on the design module for one configuration: intended variant (all invariants and properties, coverage), must-violate runs of
    the legacy variant, and - thorough tier - the legacy variant against everything it does satisfy.  Runs in a background thread:
    the state counts are returned and added up by the main thread."""
    want = n_cases(c)
    res = ctx.tlc("MergeTool", constants=consts_of(c, False), invariants=INVS, properties=PROPS, spec="Spec", workers=1, timeout=1800,
                  count=False, label="MergeTool intended " + _label(c))
    if res["init"] != want:
        raise MachineryFailure("MergeTool %s: TLC has %d initial states, the driver enumerates %d" % (c["name"], res["init"], want))
    for inv, over, why in c["legacy"]:
        ctx.tlc("MergeTool", constants=consts_of(dict(c, **over), True), invariants=[inv], spec="Spec", workers=1, timeout=900,
                coverage=False, expect_violation=inv, label="MergeTool legacy must violate %s: %s (%s)" % (inv, why, c["name"]))
    if ctx.tier == "thorough":          # the code as it is satisfies everything else
        ctx.tlc("MergeTool", constants=consts_of(c, True), invariants=LEGACY_INVS, properties=["WriteOnce", "InputKept"], spec="Spec",
                workers=1, timeout=1800, coverage=False, count=False, label="MergeTool legacy, remaining invariants " + _label(c))
    return res["distinct"], res["generated"]


def run(ctx):
    ctx.rule = ("every input of each bounded configuration (engine directories x pages x lines; per engine and page: files ok / xml missing / "
                "xml unreadable / logits missing / logits unreadable, a confidence level per line, id variant, XML-carried confidence; page "
                "extension xml / XML / txt; --filter-list; --min-confidence; --fix-arabic-order) = the initial states of the TLC runs, realised "
                "as real directories and merged by the real main(); non-trivial = a page written although an engine failed for it or from "
                "several engines, or a run that ended in an exception")
    ctx.assume("the order in which os.listdir yields the pages is unspecified: any order that explains the recorded result is accepted",
               "equal confidence levels are bitwise-equal floats in every engine (same realisation, extra table columns are absent entries)",
               "level 2 (mean confidence exactly 0.0) is not driven: both readings of a non-positive maximum (DESIGN.md Appendix D) behave alike "
               "on the levels used; the per-line choice itself is property C19",
               "messages printed by the tool are not part of the model")
    ctx.exhaustive = True
    cfgs = configs(ctx.tier)
    # 1. the real executions of every configuration (fork-based pool: before any thread is started)
    t0 = time.time()
    per_cfg = []
    for c in cfgs:
        cs = list(cases_of(c, ctx.rng))
        if len(cs) != n_cases(c):
            raise MachineryFailure("MergeTool %s: %d cases enumerated, %d expected" % (c["name"], len(cs), n_cases(c)))
        per_cfg.append(cs)
    sam = sampled_cases(4000, ctx.rng) if ctx.tier == "thorough" else []
    flat = run_cases(ctx, [x for cs in per_cfg for x in cs] + sam)
    t1 = time.time()
    # 2. the design runs (two background threads, one TLC worker each) while the main thread validates the recorded runs (<= 2 shards)
    with concurrent.futures.ThreadPoolExecutor(max_workers=2) as pool:
        futs = [pool.submit(design, ctx, c) for c in cfgs]
        try:
            first_ok, pos = None, 0
            for c, cs in zip(cfgs, per_cfg):
                traces = flat[pos:pos + len(cs)]
                pos += len(cs)
                acc, rej = judge(ctx, traces, consts_of(c, True, REPAIRED), "MergeTool_Trace " + c["name"])
                ctx.sample(traces[len(traces) // 2])
                if first_ok is None and not rej:
                    first_ok = (c, next((t for t in traces if any(o["lgt"] and o["lines"] for o in t["out"])), None))
            if first_ok is not None and first_ok[1] is not None:
                def corrupt(t):
                    for o in t["out"]:
                        if o["lgt"] and o["lines"]:
                            ln = o["lines"][0]          # the logits of the first output line come from another engine than recorded
                            ln["lg"] = [[(ln["lg"][0][0] % 3) + 1, ln["lg"][0][1], ln["lg"][0][2]]] if ln["lg"] else [[1, 1, 1]]
                            break
                    return t
                ctx.selftest_corrupt("MergeTool_Trace", first_ok[1], corrupt, constants=consts_of(first_ok[0], True, REPAIRED))
            if sam:
                traces = flat[pos:]
                judge(ctx, traces, dict(WIDE, Legacy=True, Repaired=set(REPAIRED)), "MergeTool_Trace sampled 3 engines x 3 pages x <= 3 lines")
                ctx.sample(traces[0])
        finally:
            for f in futs:          # a design failure is a machinery failure (exit 2)
                distinct, generated = f.result()
                ctx.states += distinct
                ctx.transitions += generated
    ctx.notes["phase_wall_s"] = {"real executions": round(t1 - t0, 1), "TLC design runs || trace validation": round(time.time() - t1, 1)}
    ctx.notes["explanation"] = ("TLC exhaustive on MergeTool.tla per configuration (intended variant: %s + %s; Legacy = TRUE must violate "
                                "OnlyDocumentedErrors / NoPageLost / Consistent); every initial state realised as real engine directories and "
                                "merged by user_scripts/merge_ocr_results.main(); output directory read back and judged by TLC in MergeTool_Trace "
                                "with Legacy = TRUE (current behaviour)" % (INVS, PROPS))
    ctx.notes["configurations"] = [_label(c) for c in cfgs]


def replay(ctx, case):
    traces = run_cases(ctx, [case])
    wide = dict(WIDE, Legacy=True, Repaired=set(REPAIRED))
    wide["NEng"], wide["NPages"] = len(case["cell"]), len(case["cell"][0])
    judge(ctx, traces, wide, "MergeTool_Trace replay")
