"""C06 - ALTO export never loses, reorders or invents text and never fails; Arabic order conversion is a permutation and
an involution (DESIGN.md section 4 C06, Appendix A.13, Appendix D).

1. ArabicOrder.tla: TLC runs the run-splitting machine of ArabicHelper._reverse twice on every class string up to MaxLen
   (Permutation, Involution).  The same strings, instantiated with real code points, go through the real
   string_to_label_form / label_form_to_string; ArabicOrder_Trace judges every recorded pair.
2. AltoExport.tla: TLC explores every page of four bounded families (one line over all strings x alignment situations;
   Arabic-script lines; multi-block / multi-line pages x confidence thresholds; block rectangles on a grid) and proves the
   clauses of the statement on the repaired export; Legacy = {"cut"}/{"ps"}/{"arabic"}/{"attr"} must each violate one.
   Every initial state of those runs is built as a real PageLayout, exported with to_altoxml_string, parsed, re-imported
   with from_altoxml_string; AltoExport_Trace runs the machine on the recorded input and judges the recorded file.
"""
import json
import os
import random
import subprocess
import sys
import tempfile

from .. import alto_common as A
from ..core import pmap, MachineryFailure

LEVEL = "model_checking"
PROCS = int(os.environ.get("C06_PROCS", "8"))
SHARDS = int(os.environ.get("C06_SHARDS", "8"))
TLC_WORKERS = int(os.environ.get("C06_TLC_WORKERS", "4"))
UNIT = 40               # pixels per grid unit

ARABIC_INVS = ["Permutation", "Permutation2", "Involution", "MachineIsRev", "ScanKeepsAll", "RunShape"]
ALTO_INVS = ["NeverFails", "LinesOnceInOrder", "TextPreserved", "SegmentationsAgree", "WordsNonEmptyNoWhite",
             "PrintSpaceIsBBox", "MarginsCover", "MarginsTidy", "ImportSame", "ItemShapes"]
CLAUSES = {1: "export-raises", 2: "blocks", 4: "lines-once-in-order", 8: "words", 16: "geometry-not-integer",
           32: "word-confidence-range", 64: "printspace-bbox", 128: "margins-cover", 256: "reimport-words"}
CLAUSE_TEXT = {
    1: "to_altoxml_string / to_altoxml raised (or the file written by to_altoxml is not the well-formed XML file it declares to be)",
    2: "TextBlock elements do not match the regions (count / order)",
    4: "a non-blank line at or above the requested confidence is missing, or a line appears twice / out of layout order",
    8: "String contents differ from the whitespace-separated words of the transcription (converted to logical order on "
       "Arabic-script lines)",
    16: "a geometry attribute is not an integer literal",
    32: "a WC attribute lies outside [0, 1]",
    64: "PrintSpace is not the bounding box of the text blocks",
    128: "PrintSpace and the four margins do not cover the page",
    256: "from_altoxml_string / from_altoxml failed or returned other words than the exported ones",
}

# ---- round 9: the same pages in the forms and environments real use brings them in (every variant is recorded in the ordinary trace
# format and judged by the unchanged clauses of AltoExport_Trace)
#   gen = 2         export -> import -> EXPORT: the page from_altoxml_string rebuilt (region outlines are nested lists, lines without
#                   posteriors) is exported, parsed and re-imported as a page of its own
#   geom = reglist  region outlines as nested lists (the form from_altoxml gives them) around lines WITH posteriors: a layout read
#                   from ALTO whose lines were then recognised
#   via = file      the file variant to_altoxml(path) / from_altoxml(path): the trace is read off the bytes of the written file
#   env = C-ascii   ... in a child process whose locale encoding is ASCII (LC_ALL=C, UTF-8 mode off: a legacy POSIX locale; the
#                   situation of any process whose preferred encoding is not UTF-8, e.g. a Windows code page)
#   env = posix-utf8mode   ... in a child process with LC_ALL=POSIX and Python's UTF-8 mode switched on (thorough tier)
STRIDE_GEN2, STRIDE_REGLIST, STRIDE_FILE = 7, 17, 31          # primes: co-prime with the number of situations / thresholds
CHILD_ENVS = {"C-ascii": {"LC_ALL": "C", "PYTHONUTF8": "0", "PYTHONCOERCECLOCALE": "0"},
              "posix-utf8mode": {"LC_ALL": "POSIX", "PYTHONUTF8": "1"}}


def variant_cases(cases):
    out = []
    nfile = 0
    for i, c in enumerate(cases):
        if i % STRIDE_GEN2 == 3:
            out.append(dict(c, gen=2))
        if i % STRIDE_REGLIST == 5:
            out.append(dict(c, geom="reglist"))
        if c["minconf"] == 0:
            nfile += 1
            if nfile % STRIDE_FILE == 11:
                out.append(dict(c, via="file"))
    return out


def _non_ascii(case):
    return any(ord(ch) > 127 for blk in case["blocks"] for ln in blk["lines"] for ch in ln["concrete"])


def _spread(items, n):
    if len(items) <= n:
        return list(items)
    return [items[(2 * k + 1) * len(items) // (2 * n)] for k in range(n)]


def child_selection(pool, env, n_non_ascii, n_ascii):
    """file-variant cases for a child process: pages of the families above with non-ASCII transcriptions (Arabic letters, accented /
    astral characters, NBSP / thin / ideographic space) and a few pure-ASCII ones, evenly spread over the pool"""
    pool = [c for c in pool if c["minconf"] == 0 and any(ln["concrete"].strip() for blk in c["blocks"] for ln in blk["lines"])]
    sel = _spread([c for c in pool if _non_ascii(c)], n_non_ascii) + _spread([c for c in pool if not _non_ascii(c)], n_ascii)
    return [dict(c, via="file", env=env) for c in sel]


def run_child(ctx, cases, env_name):
    """executes the cases in a fresh interpreter started in the process environment `env_name`; returns (traces, environment
    the child reported)"""
    wd = tempfile.mkdtemp(prefix="child_", dir=ctx.workdir)
    inp, outp = os.path.join(wd, "cases.json"), os.path.join(wd, "traces.json")
    with open(inp, "w", encoding="utf-8") as fh:
        json.dump(cases, fh)
    env = {k: v for k, v in os.environ.items()
           if not (k.startswith("LC_") or k in ("LANG", "LANGUAGE", "PYTHONUTF8", "PYTHONIOENCODING", "PYTHONCOERCECLOCALE"))}
    env.update(CHILD_ENVS[env_name])
    cmd = [sys.executable, "-W", "ignore", "-c", "from harness import alto_common as A; A.child_main()", inp, outp, wd]
    try:
        res = subprocess.run(cmd, env=env, stdout=subprocess.PIPE, stderr=subprocess.STDOUT, timeout=900 + len(cases))
    except subprocess.TimeoutExpired:
        raise MachineryFailure("child process (%s) did not finish %d file exports in time" % (env_name, len(cases)))
    if res.returncode != 0 or not os.path.exists(outp):
        raise MachineryFailure("child process (%s) failed with exit %s: %s" % (
            env_name, res.returncode, res.stdout.decode("utf-8", "replace")[-1500:]))
    with open(outp, encoding="utf-8") as fh:
        rep = json.load(fh)
    return rep["traces"], {k: rep[k] for k in ("encoding", "utf8_mode", "fs_encoding")}


def execute(ctx, cases):
    """real executions for a list of cases (in-process, in parallel; cases with "env" in a child process of that environment).
    Returns the (case, trace) pairs that were recorded - a second-generation case whose first generation left no rebuilt page
    records nothing, its first generation is judged as the case of its own that it is."""
    A.SCRATCH = ctx.workdir
    traces = [None] * len(cases)
    local = [i for i, c in enumerate(cases) if not c.get("env")]
    for i, t in zip(local, pmap(_alto_one, [cases[i] for i in local], procs=PROCS)):
        traces[i] = t
    for env_name in sorted({c["env"] for c in cases if c.get("env")}):
        idx = [i for i, c in enumerate(cases) if c.get("env") == env_name]
        got, found = run_child(ctx, [cases[i] for i in idx], env_name)
        ctx.notes.setdefault("child_environments", {})[env_name] = dict(found, cases=len(idx))
        if env_name == "C-ascii" and found["encoding"].lower().replace("-", "") in ("utf8", "utf_8"):
            ctx.assume("the child process started with LC_ALL=C and UTF-8 mode off still reported the preferred encoding %s: the "
                       "non-UTF-8 environment could not be established on this machine" % found["encoding"])
        for i, t in zip(idx, got):
            traces[i] = t
    keep = [i for i, t in enumerate(traces) if t is not None]
    ctx.notes["second_generation_not_recorded"] = ctx.notes.get("second_generation_not_recorded", 0) + len(cases) - len(keep)
    return [cases[i] for i in keep], [traces[i] for i in keep]


# ================================================================================================ Arabic order
def arabic_cfgs(ctx):
    full = ["A", "B", "C", "a", "n", "s", "d"]
    if ctx.tier == "quick":
        return [{"name": "ao7x5", "Classes": full, "MaxLen": 5, "variety": 0}]
    return [{"name": "ao7x6", "Classes": full, "MaxLen": 6, "variety": 1},
            {"name": "ao9x4", "Classes": full + ["w", "x"], "MaxLen": 4, "variety": 1}]


def _arabic_one(concrete):
    return A.arabic_trace(concrete)


PILOT = 120


def arabic_judge(ctx, cfg, traces, label, pending=None):
    consts = {"Classes": set(cfg["Classes"]), "MaxLen": 0, "Level": "model"}
    acc, rej = ctx.validate("ArabicOrder_Trace", traces, constants=consts, shards=SHARDS, label="ArabicOrder_Trace " + label)
    names = {1: "raises", 2: "permutation", 3: "permutation-second-call", 4: "involution"}
    for idx, clause in rej:
        tr = traces[idx]
        if clause == 5:
            ctx.model_drift("ArabicOrder: _reverse differs from the run-splitting transcription (still a permutation and an "
                            "involution)", 1, {"text": tr["concrete"], "r1": tr["r1"]})
            continue
        sig = "arabic-order/" + names.get(clause, "clause%d" % clause)
        item = ({"kind": "arabic", "cfg": cfg, "concrete": tr["concrete"], "trace": tr}, sig,
                "ArabicHelper conversion of %r (classes %s): outcome %s, first call -> %s, second call -> %s" % (
                    tr["concrete"], "".join(tr["text"]), tr["outcome"], "".join(tr["r1"]), "".join(tr["r2"])))
        if pending is None:
            ctx.violation(*item)
        else:
            pending.append(item)
    return acc, rej


def arabic_part(ctx, pending):
    for cfg in arabic_cfgs(ctx):
        res = ctx.tlc("ArabicOrder", constants={"Classes": set(cfg["Classes"]), "MaxLen": cfg["MaxLen"]},
                      invariants=ARABIC_INVS, workers=TLC_WORKERS, timeout=3000, label="ArabicOrder " + cfg["name"])
        toks = list(A.strings(cfg["Classes"], cfg["MaxLen"]))
        if res["init"] != len(toks):
            raise MachineryFailure("ArabicOrder %s: TLC explored %d strings, the driver enumerates %d" % (
                cfg["name"], res["init"], len(toks)))
        concrete = [A.instantiate(t) for t in toks]
        for v in range(cfg["variety"]):
            rng = random.Random(ctx.seed * 1000 + v)
            concrete += [A.instantiate(t, rng) for t in toks if t]
        # a small pilot batch is executed and judged first: a changed implementation that degrades with every call (state
        # growing across calls until the workers run out of memory) is then reported by its first rejected executions, before the
        # bulk of the cases could take the harness down
        pilot = concrete[:PILOT]
        ptraces = [A.arabic_trace(c) for c in pilot] if len(pilot) < 32 else pmap(_arabic_one, pilot, procs=2)
        arabic_judge(ctx, cfg, ptraces, cfg["name"] + " (pilot)", None)
        traces = ptraces + pmap(_arabic_one, concrete[PILOT:], procs=PROCS)
        ctx.traces_validated -= len(ptraces)          # the pilot traces are validated again with the whole batch below
        for t in traces:
            ctx.count(1, t["concrete"] if len(set(t["text"])) > 1 and t["r1"] != t["text"] else None)
        ctx.sample({"module": "ArabicOrder", "trace": traces[len(traces) // 2]}, limit=2)
        acc, rej = arabic_judge(ctx, cfg, traces, cfg["name"], pending)
        if not rej and "ao_selftest" not in ctx.notes:
            good = next(t for t in traces if t["text"][:3] == ["A", "B", "a"])
            ctx.notes["ao_selftest"] = True

            def corrupt(tr):
                tr["r1"][0], tr["r1"][-1] = "?", tr["r1"][0]      # a character of the result is replaced
                return tr
            ctx.selftest_corrupt("ArabicOrder_Trace", good, corrupt,
                                 constants={"Classes": set(cfg["Classes"]), "MaxLen": 0, "Level": "model"})


# ================================================================================================ ALTO export
LATIN = ["a", "b", "s", "w", "x"]
ARAB = ["A", "B", "a", "s", "C"]


def alto_cfgs(ctx):
    base = {"MaxBlocks": 1, "MaxLines": 1, "GridW": 3, "GridH": 3, "minconfs": [0], "variety": 0}
    if ctx.tier == "quick":
        cfgs = [
            dict(base, name="line", Mode="line", Classes=LATIN, MaxLen=4,
                 Situations=[x for x in A.SITUATIONS if x not in ("mid", "window")], variety=1,
                 variety_sits=["peaky", "nochars"]),
            dict(base, name="arabic", Mode="line", Classes=ARAB, MaxLen=4, Situations=["peaky", "short", "nochars"]),
            dict(base, name="page", Mode="page", Classes=["a", "s"], MaxLen=1, Situations=["mid", "nocoords"], MaxBlocks=2,
                 MaxLines=2, minconfs=[0, 500000, 1000000]),
            # two lines in ONE block, Arabic and Latin script mixed, Latin delimiters: per-line state of the export
            dict(base, name="page-mixed-script", Mode="page", Classes=["A", "a", "d"], MaxLen=2, Situations=["peaky", "short"],
                 MaxBlocks=1, MaxLines=2),
            # runs of several Latin words inside an Arabic-script line (word-wise vs line-wise order conversion)
            dict(base, name="arabic-latin-run", Mode="line", Classes=["A", "a", "b", "s"], MaxLen=5, Situations=["peaky", "short"]),
            dict(base, name="blocks", Mode="blocks", Classes=["a"], MaxLen=1, Situations=["nochars"], MaxBlocks=2),
        ]
    else:
        cfgs = [
            dict(base, name="line5", Mode="line", Classes=LATIN, MaxLen=5, Situations=A.SITUATIONS, variety=1,
                 variety_sits=["peaky", "nochars"]),
            dict(base, name="line6", Mode="line", Classes=["a", "s", "w", "x"], MaxLen=6, Situations=["peaky", "short"]),
            dict(base, name="line-delims", Mode="line", Classes=["a", "d", "n", "s", "w", "x"], MaxLen=4,
                 Situations=["peaky", "tight", "short", "nologits"], variety=1, variety_sits=["peaky", "short"]),
            dict(base, name="arabic", Mode="line", Classes=["A", "B", "C", "a", "n", "s", "d", "w"], MaxLen=4,
                 Situations=["peaky", "tight", "short", "nochars"], variety=1, variety_sits=["peaky", "nochars"]),
            dict(base, name="arabic5", Mode="line", Classes=ARAB, MaxLen=5, Situations=["peaky", "short"]),
            dict(base, name="arabic-latin-run", Mode="line", Classes=["A", "a", "b", "s"], MaxLen=6, Situations=["peaky", "short"]),
            dict(base, name="page", Mode="page", Classes=["a", "s"], MaxLen=1, Situations=["peaky", "mid", "nocoords"],
                 MaxBlocks=2, MaxLines=2, minconfs=[0, 500000, 1000000]),
            # two lines in ONE block, Arabic and Latin script mixed, Latin delimiters: per-line state of the export
            dict(base, name="page-mixed-script", Mode="page", Classes=["A", "a", "d"], MaxLen=3, Situations=["peaky", "short"],
                 MaxBlocks=1, MaxLines=2),
            dict(base, name="page3", Mode="page", Classes=["a", "s"], MaxLen=2, Situations=["mid", "nologits"],
                 MaxBlocks=3, MaxLines=1, minconfs=[0, 700000], coverage=False),
            dict(base, name="blocks", Mode="blocks", Classes=["a"], MaxLen=1, Situations=["nochars"], MaxBlocks=3,
                 shapes=True, sample=8000),
            dict(base, name="blocks4x3", Mode="blocks", Classes=["a"], MaxLen=1, Situations=["nochars"], MaxBlocks=2,
                 GridW=4, GridH=3),
        ]
    return cfgs


def design_constants(cfg, legacy=()):
    return {"Mode": cfg["Mode"], "Classes": set(cfg["Classes"]), "MaxLen": cfg["MaxLen"], "Situations": set(cfg["Situations"]),
            "MaxBlocks": cfg["MaxBlocks"], "MaxLines": cfg["MaxLines"], "GridW": cfg["GridW"], "GridH": cfg["GridH"],
            "ConfLevels": {0, 1, 2}, "MinConfs": set(range(len(cfg["minconfs"]))), "Legacy": set(legacy)}


TRACE_CONSTS = {"Mode": "line", "Classes": {"a"}, "MaxLen": 0, "Situations": {"nochars"}, "MaxBlocks": 1, "MaxLines": 1,
                "GridW": 1, "GridH": 1, "ConfLevels": {0}, "MinConfs": {0}, "Legacy": set(), "Level": "model"}


def _seqs(items, lo, hi):
    import itertools
    for n in range(lo, hi + 1):
        for t in itertools.product(items, repeat=n):
            yield list(t)


def enumerate_cases(cfg, rng=None, sits=None):
    """the Python image of AltoExport!Pages x MinConfs (same order of magnitude is checked against TLC's count)"""
    u = UNIT
    gw, gh = cfg["GridW"], cfg["GridH"]
    sits = sits or sorted(cfg["Situations"])
    kinds = [(t, s) for t in A.strings(cfg["Classes"], cfg["MaxLen"]) for s in sits]

    def line(kind):
        return {"concrete": A.instantiate(kind[0], rng), "sit": kind[1]}
    pages = []
    if cfg["Mode"] == "line":
        for kd in kinds:
            pages.append({"W": gw * u, "H": gh * u, "blocks": [{"rect": [0, 0, gw * u, gh * u], "lines": [line(kd)]}]})
    elif cfg["Mode"] == "page":
        per_block = list(_seqs(kinds, 0, cfg["MaxLines"]))
        for n in range(1, cfg["MaxBlocks"] + 1):
            for ls in _seqs(per_block, n, n):
                pages.append({"W": gw * u, "H": n * gh * u,
                              "blocks": [{"rect": [0, (k - 1) * gh * u, gw * u, k * gh * u], "lines": [line(kd) for kd in ls[k - 1]]}
                                         for k in range(1, n + 1)]})
    else:
        rects = [[x1 * u, y1 * u, x2 * u, y2 * u] for x1 in range(gw + 1) for x2 in range(x1 + 1, gw + 1)
                 for y1 in range(gh + 1) for y2 in range(y1 + 1, gh + 1)]
        for rs in _seqs(rects, 1, cfg["MaxBlocks"]):
            pages.append({"W": gw * u, "H": gh * u,
                          "blocks": [{"rect": r, "lines": [{"concrete": "a", "sit": "nochars"}],
                                      "shape": "hexagon" if cfg.get("shapes") and (i + len(rs)) % 2 == 0 else "rect"}
                                     for i, r in enumerate(rs)]})
    return [dict(p, minconf=mc, cfg=cfg["name"]) for p in pages for mc in cfg["minconfs"]]


def _alto_one(case):
    import logging
    logging.getLogger("pero_ocr.core.layout").setLevel(logging.ERROR)
    return A.alto_trace(case)


def _flags(case):
    toks = [tok for blk in case["blocks"] for ln in blk["lines"] for tok in A.tokens_of(ln["concrete"])]
    sits = {ln["sit"] for blk in case["blocks"] for ln in blk["lines"]}
    return {"ws": "w" in toks, "arabic": any(t in ("A", "B", "C") for t in toks), "nologits": "nologits" in sits}


def signature(case, trace, bit):
    f = _flags(case)
    pre = ("reexport/" if case.get("gen") == 2 else "") + ("file-" if case.get("via") == "file" else "")
    post = ("/list-outline" if case.get("geom") == "reglist" else "") + ("/locale-" + case["env"] if case.get("env") else "")
    if bit == 1:
        kind, exc = (trace["outcome"].split(":", 1) + [""])[:2]
        sig = ("export-unreadable-" if kind == "unreadable" else "export-raises-") + exc
        if exc == "IndexError" and f["ws"]:
            sig += "/white-space-other-than-U+0020"
        if exc == "AttributeError" and f["nologits"] and case.get("gen") != 2:
            sig += "/chars-without-logits"
        return pre + sig + post
    sig = CLAUSES[bit]
    if bit == 8:
        if f["arabic"]:
            sig += "/arabic-line"
        if f["ws"]:
            sig += "/white-space-other-than-U+0020"
    return pre + sig + post


def describe(case, trace):
    lines = ["%r[%s%s]" % (ln["concrete"], ln["sit"], ", %d frames" % ln["frames"] if ln.get("frames") else "")
             for blk in case["blocks"] for ln in blk["lines"]]
    got = [["".join(it["c"]) if it["k"] == "S" else "<SP>" for it in ln["items"]] for blk in trace["obs"]["blocks"] for ln in blk["lines"]]
    how = ""
    if case.get("geom") == "reglist":
        how += " [region outlines given as nested lists]"
    if case.get("via") == "file":
        how += " [file variant to_altoxml(path) / from_altoxml(path)%s]" % (
            " in a child process with %s" % " ".join("%s=%s" % kv for kv in sorted(CHILD_ENVS[case["env"]].items()))
            if case.get("env") else "")
    if case.get("gen") == 2:
        how += " [SECOND export: of the page from_altoxml_string rebuilt from the first export (region outline: %s), texts %r]" % (
            trace.get("gen2", {}).get("region_outline"), trace.get("gen2", {}).get("texts"))
    return "page %dx%d, block rects %s, lines %s, min_line_confidence %.2f%s -> outcome %s, exported %s, print space %s, re-import %s" % (
        case["W"], case["H"], [blk["rect"] for blk in case["blocks"]], lines, trace["minconf"] / 1e6, how, trace["outcome"], got,
        trace["obs"]["geo"]["ps"], trace["imp_outcome"])


def alto_judge(ctx, cases, traces, label, pending=None):
    """pending: list collecting (case, signature, what) so that the caller can emit them balanced over the signatures
    (the context writes replay files for the first 50 violations only); None = emit at once"""
    acc, rej = ctx.validate("AltoExport_Trace", traces, constants=TRACE_CONSTS, shards=SHARDS, label="AltoExport_Trace " + label)
    nviol = 0
    for idx, mask in rej:
        case, tr = cases[idx], traces[idx]
        if mask == 512:
            ctx.model_drift("AltoExport[%s]: exported file differs from the detailed model where the statement is silent "
                            "(SP elements, blank/dropped lines, block rectangles, fallback confidence, spec conversion)" % label,
                            1, {"case": case, "obs": tr["obs"], "confs": tr["confs"]})
            continue
        if mask == 0:
            raise MachineryFailure("AltoExport_Trace: the machine did not reach its final state for %s" % case)
        for bit in sorted(CLAUSES):
            if mask & bit:
                nviol += 1
                item = ({"kind": "alto", "case": case, "bit": bit}, signature(case, tr, bit),
                        "%s: %s" % (CLAUSE_TEXT[bit], describe(case, tr)))
                if pending is None:
                    ctx.violation(*item)
                else:
                    pending.append(item)
    return acc, rej, nviol


def emit_balanced(ctx, pending):
    """smallest cases of every signature first, round-robin over the signatures"""
    by_sig = {}
    for item in pending:
        by_sig.setdefault(item[1], []).append(item)
    for items in by_sig.values():
        items.sort(key=lambda it: (len(it[2]), it[2]))
    rank = 0
    while any(by_sig.values()):
        for sig in sorted(by_sig):
            if rank < len(by_sig[sig]):
                ctx.violation(*by_sig[sig][rank])
        rank += 1
        if all(rank >= len(v) for v in by_sig.values()):
            break
    hist = {sig: len(v) for sig, v in by_sig.items()}
    if hist:
        ctx.notes["violation_signatures"] = hist
        for sig in sorted(hist):
            print("  C06 signature %s: %d rejected executions" % (sig, hist[sig]))


def _nontrivial(case):
    n = sum(len(ln["concrete"].split()) for blk in case["blocks"] for ln in blk["lines"])
    if n >= 2 or len(case["blocks"]) >= 2:
        return (case["cfg"], case["minconf"], case.get("gen", 1), case.get("geom", ""), case.get("via", ""), case.get("env", ""),
                tuple((tuple(blk["rect"]), tuple((ln["concrete"], ln["sit"]) for ln in blk["lines"])) for blk in case["blocks"]))
    return None


def alto_part(ctx, pending):
    cfgs = alto_cfgs(ctx)
    child_pool = []
    for cfg in cfgs:
        # the "blocks" families exist for the print-space clauses: their single line takes the fallback branch, so the
        # aligned-branch actions are never taken there (covered by the line / page families) - no vacuity report for them;
        # likewise page3 (multi-block pages with the logits-None situation) has no line whose alignment fails
        res = ctx.tlc("AltoExport", constants=design_constants(cfg), invariants=ALTO_INVS, workers=TLC_WORKERS, timeout=3000,
                      label="AltoExport " + cfg["name"], coverage=cfg.get("coverage", cfg["Mode"] != "blocks"))
        cases = enumerate_cases(cfg)
        if res["init"] != len(cases):
            raise MachineryFailure("AltoExport %s: TLC explored %d initial states, the driver enumerates %d cases" % (
                cfg["name"], res["init"], len(cases)))
        if cfg.get("sample") and len(cases) > cfg["sample"]:
            # TLC explored the whole family; only a seeded sample of it is executed (all one- and two-block pages are kept)
            small = [c for c in cases if len(c["blocks"]) < cfg["MaxBlocks"]]
            big = [c for c in cases if len(c["blocks"]) == cfg["MaxBlocks"]]
            cases = small + random.Random(ctx.seed + 17).sample(big, max(0, cfg["sample"] - len(small)))
            ctx.exhaustive = False
            ctx.assume("family %s: %d of %d pages executed (seeded sample of the %d-block pages), all explored by TLC" % (
                cfg["name"], len(cases), res["init"], cfg["MaxBlocks"]))
        for v in range(cfg["variety"]):
            cases += enumerate_cases(cfg, random.Random(ctx.seed * 7919 + v), sits=cfg.get("variety_sits"))
        child_pool += cases
        cases = cases + variant_cases(cases)
        cases, traces = execute(ctx, cases)
        for c in cases:
            ctx.count(1, _nontrivial(c))
        ctx.sample({"module": "AltoExport", "config": cfg["name"], "case": cases[len(cases) // 2],
                    "trace": traces[len(cases) // 2]}, limit=5)
        acc, rej, nviol = alto_judge(ctx, cases, traces, cfg["name"], pending)
        if "alto_selftest" not in ctx.notes:
            good = [i for i in range(len(cases)) if i not in {r[0] for r in rej}
                    and any(len(ln["items"]) >= 3 for blk in traces[i]["obs"]["blocks"] for ln in blk["lines"])]
            if good:
                ctx.notes["alto_selftest"] = True

                def corrupt(tr):
                    for blk in tr["obs"]["blocks"]:
                        for ln in blk["lines"]:
                            if len(ln["items"]) >= 3:
                                ln["items"][0]["c"] = ln["items"][0]["c"] + ["a"]     # a character is invented
                                return tr
                    return tr
                ctx.selftest_corrupt("AltoExport_Trace", traces[good[0]], corrupt, constants=TRACE_CONSTS)
    # scale: lines recognised from very wide crops - more than 1000 frames of posteriors, the characters spread over all of them
    # (sampled; the page machine of AltoExport does not depend on the number of frames, the trace layer judges them like any
    # alignable peaky line)
    texts = ["ab ab a", "a", "ba", "a b", "ab  ba", "b a b a b"]
    long_cases = [{"W": 120, "H": 120, "minconf": mc, "cfg": "long-lines",
                   "blocks": [{"rect": [0, 0, 120, 120], "lines": [{"concrete": t, "sit": "peaky", "frames": fr}]}]}
                  for fr in ((1001, 1100, 1500, 2500, 4100) if ctx.tier == "quick" else (1001, 1100, 1300, 1500, 2000, 2500, 4100, 9000, 33000))
                  for t in texts for mc in (0, 500000)]
    ltraces = [_alto_one(c) for c in long_cases]
    for c in long_cases:
        ctx.count(1, ("long", c["blocks"][0]["lines"][0]["frames"], c["blocks"][0]["lines"][0]["concrete"], c["minconf"]))
    # environment: the file variant of the export in a process whose locale encoding is not UTF-8 (sampled from the families above:
    # the page machine does not depend on the process environment, the trace layer judges the written file like any other export)
    quick = ctx.tier == "quick"
    child_cases = child_selection(child_pool, "C-ascii", 160 if quick else 600, 40 if quick else 100)
    if not quick:
        child_cases += child_selection(child_pool[::3], "posix-utf8mode", 200, 40)
    child_cases, ctraces = execute(ctx, child_cases)
    for c in child_cases:
        ctx.count(1, _nontrivial(c) or ("file", c["env"], json.dumps(c["blocks"], sort_keys=True)))
    ctx.sample({"module": "AltoExport", "config": "file export in a child process", "case": child_cases[0], "trace": ctraces[0]},
               limit=6)
    alto_judge(ctx, long_cases + child_cases, ltraces + ctraces,
               "long lines (> 1000 frames) + file export in another process environment", pending)
    # Legacy self-tests: each defect of the original tree must be visible to TLC on the smallest suitable family
    small_line = dict(cfgs[0], Mode="line", Classes=["a", "s", "w"], MaxLen=3, Situations=["peaky", "nochars", "nologits"],
                      MaxBlocks=1, MaxLines=1, minconfs=[0], GridW=3, GridH=3)
    small_ar = dict(small_line, Classes=["A", "B", "s"], Situations=["peaky", "short"])
    small_bl = dict(small_line, Mode="blocks", Classes=["a"], MaxLen=1, Situations=["nochars"], MaxBlocks=1)
    for cfg, leg, inv in ((small_line, "cut", "NeverFails"), (small_line, "cut", "TextPreserved"), (small_bl, "ps", "PrintSpaceIsBBox"),
                          (small_ar, "arabic", "TextPreserved"), (small_line, "attr", "NeverFails")):
        ctx.tlc("AltoExport", constants=design_constants(cfg, legacy=[leg]), invariants=[inv], workers=2, timeout=900,
                expect_violation=inv, label="AltoExport Legacy=%s" % leg, coverage=False)


def run(ctx):
    ctx.rule = ("ArabicOrder: every string of length <= MaxLen over 7 (9) character classes through the real string_to_label_form / "
                "label_form_to_string; AltoExport: every TLC initial state (page = blocks x lines x class string x alignment "
                "situation x requested confidence) built as a real PageLayout, exported, parsed and re-imported; non-trivial = "
                "order conversion changes the string / page has >= 2 words or >= 2 blocks")
    ctx.exhaustive = True
    ctx.assume("class strings of bounded length (quick: ALTO <= 4, order conversion <= 5; thorough: <= 6), one code point per class "
               "plus seeded variety (NBSP, tab, thin, ideographic space; markup / astral / accented characters)",
               "pages of <= 3 blocks on a grid of 40-pixel units, <= 2 lines per block, well-formed baselines / polygons / heights",
               "line confidences are compared with the requested threshold on the millionth grid (floor), which is exact for the "
               "thresholds used (0, 0.5, 0.7, 1.0)",
               "characters that cannot be written to XML (control characters) are outside the quantifier",
               "variants (round 9): every %dth case exported a second time after export -> import, every %dth with region outlines as "
               "nested lists, every %dth threshold-0 case through the file variant to_altoxml / from_altoxml; 200 (thorough: 700 + "
               "240) file exports in a child process with LC_ALL=C and UTF-8 mode off (thorough also LC_ALL=POSIX with UTF-8 mode "
               "on); file names are ASCII" % (STRIDE_GEN2, STRIDE_REGLIST, STRIDE_FILE))
    pending = []
    arabic_part(ctx, pending)
    alto_part(ctx, pending)
    emit_balanced(ctx, pending)
    ctx.notes["explanation"] = (
        "TLC exhaustive on ArabicOrder (invariants %s) and AltoExport (invariants %s) for each bounded family, Legacy self-tests for the "
        "four defects; every initial state executed on pero_ocr.core.layout.PageLayout.to_altoxml_string / from_altoxml_string and "
        "pero_ocr.core.arabic_helper.ArabicHelper, each recorded execution judged by TLC (AltoExport_Trace runs the machine on the "
        "recorded input and evaluates clauses 1..9 of the statement on the recorded file; clause 10 = exact equality with the model is "
        "reported as MODEL-DRIFT only)" % (ARABIC_INVS, ALTO_INVS))


def replay(ctx, case):
    if case.get("kind") == "arabic":
        tr = A.arabic_trace(case["concrete"])
        arabic_judge(ctx, case["cfg"], [tr], "replay")
        ctx.count(1, case["concrete"])
        return
    cases, traces = execute(ctx, [case["case"]])
    ctx.count(1, "replay")
    alto_judge(ctx, cases, traces, "replay")
