------------------------------ MODULE Greedy ------------------------------
(* Greedy CTC transcription (property C04): both decoders of pero-ocr against the definition.

   The input is abstracted to the per-frame arg-max symbols of a batch: paths[n][f] \in 0..C-1 for N lines of the same
   number of frames (a score tensor N x C x T with a unique arg-max in every frame); the blank is the LAST class, C-1.

   Definition (the statement):  Collapse(p) = drop blanks (merge adjacent repeats (p)).

   Implementation-shaped part
     Scan     one element of the itertools.groupby scan of GreedyDecoder.__call__ (pero_ocr/decoding/decoders.py) for
              the current line; EndLine closes the line and moves to the next one (the stand-alone decoder is called per line)
     VecStep  greedy_decode_ctc (pero_ocr/ocr_engine/pytorch_ocr_engine.py), vectorised over the whole batch in one step:
              prepend a frame whose arg-max is forced to the blank, shift class ids by +1, zero the positions equal to
              their left neighbour, zero the blanks, shift back by -1 and keep the non-negative entries.
   Mut seeds the defects of DESIGN.md Appendix B inside the model to show that the invariants are sharp.         *)
EXTENDS Naturals, Sequences, FiniteSets, TLC, SequencesExt
CONSTANTS C,        \* classes 0..C-1, blank = C-1
          MaxT,     \* batches of 1..MaxT frames
          N,        \* lines per batch
          Mut       \* "none" | "no_mask" | "blank_cmp" | "no_forced_blank"

Blank == C - 1
NoSym == C + 7
VARIABLES paths,    \* the batch: N sequences of equal length over 0..C-1
          n, t,     \* stand-alone decoder: current line and frames consumed
          prev,     \* last group key seen by the scan
          cur,      \* text of the current line so far
          scanout,  \* texts of the finished lines (stand-alone decoder)
          vecout    \* <<>> until the engine's decoder has run, then the N texts
vars == <<paths, n, t, prev, cur, scanout, vecout>>

\* ---------------------------------------------------------------- definition
RECURSIVE Merge(_)
Merge(p) == IF Len(p) <= 1 THEN p ELSE IF p[1] = p[2] THEN Merge(Tail(p)) ELSE <<p[1]>> \o Merge(Tail(p))
Collapse(p) == SelectSeq(Merge(p), LAMBDA s : s # Blank)

\* ---------------------------------------------------------------- the engine's vectorised algorithm, one line of the batch
Vec(p) ==
  LET len == Len(p)
      first == IF Mut = "no_forced_blank" THEN p[1] ELSE Blank          \* arg-max of the prepended frame
      best == <<first + 1>> \o [i \in 1..len |-> p[i] + 1]               \* torch.argmax(scores, 1) + 1   (len + 1 entries)
      mask == [i \in 1..len |-> Mut # "no_mask" /\ best[i] = best[i+1]]  \* best[:, :-1] == best[:, 1:]
      b1 == [i \in 1..len |-> IF mask[i] THEN 0 ELSE best[i+1]]          \* best = best[:, 1:]; best[mask] = 0
      blk == IF Mut = "blank_cmp" THEN C - 1 ELSE C                      \* scores_probs.shape[1]
      b2 == [i \in 1..len |-> IF b1[i] = blk THEN 0 ELSE b1[i]]          \* best[best == shape[1]] = 0
      kept == SelectSeq(b2, LAMBDA x : x > 0)                            \* (x - 1) >= 0
  IN  [i \in 1..Len(kept) |-> kept[i] - 1]

\* ---------------------------------------------------------------- behaviour
Batches == UNION {[1..N -> [1..len -> 0..(C-1)]] : len \in 1..MaxT}
Init == /\ paths \in Batches
        /\ n = 1 /\ t = 0 /\ prev = NoSym /\ cur = <<>> /\ scanout = <<>> /\ vecout = <<>>

Scan == /\ n <= Len(paths) /\ t < Len(paths[n])
        /\ LET s == paths[n][t + 1]
           IN  /\ cur' = IF s # prev /\ s # Blank THEN Append(cur, s) ELSE cur     \* new group, not the blank
               /\ prev' = s
        /\ t' = t + 1
        /\ UNCHANGED <<paths, n, scanout, vecout>>

EndLine == /\ n <= Len(paths) /\ t = Len(paths[n])
           /\ scanout' = Append(scanout, cur)
           /\ n' = n + 1 /\ t' = 0 /\ prev' = NoSym /\ cur' = <<>>
           /\ UNCHANGED <<paths, vecout>>

VecStep == /\ n = Len(paths) + 1 /\ vecout = <<>>
           /\ vecout' = [i \in 1..Len(paths) |-> Vec(paths[i])]
           /\ UNCHANGED <<paths, n, t, prev, cur, scanout>>

Next == Scan \/ EndLine \/ VecStep
Spec == Init /\ [][Next]_vars

\* ======================================== properties (C04) =========================================
ScanIsCollapse == \A i \in 1..Len(scanout) : scanout[i] = Collapse(paths[i])
VecIsCollapse == vecout # <<>> => \A i \in 1..Len(paths) : vecout[i] = Collapse(paths[i])
\* the two decoders agree on every line of every batch
DecodersAgree == vecout # <<>> => vecout = scanout
=============================================================================
