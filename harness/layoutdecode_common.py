"""C18 helper: bounded configuration spaces of spec/LayoutDecode.tla, the stub network that renders the ridges of a
configuration into the maps of the rotated image, and the recorders for the two trace kinds of LayoutDecode_Trace
(pixel round trip through np.rot90 + LayoutEngine.rotate_layout; LayoutEngine.detect on synthetic ridges)."""
import contextlib
import io
import itertools
import warnings

import numpy as np

from pero_ocr.layout_engines.cnn_layout_engine import LayoutEngine

U = 1000


def asc2(row):
    return 4 + 2 * (row % 4)


def desc2(row):
    return 2 + (row % 3)


def short_len(ep):
    return 10 if ep else 6


def make_engine():
    """LayoutEngine without a model: __new__ + the attributes __init__ would set (defaults of the constructor)"""
    eng = LayoutEngine.__new__(LayoutEngine)
    eng.line_end_weight = 1.0
    eng.vertical_line_connection_range = 5
    eng.smooth_line_predictions = True
    eng.line_detection_threshold = 0.2
    eng.adaptive_downsample = True
    eng.paragraph_line_threshold = 0.3
    return eng


# --------------------------------------------------------------------------------------------- ridges
def ridge_bounds(**kw):
    b = {"MapH": 46, "MapW": 64, "Dss": [1, 2, 4], "Rows": [8, 24, 39], "X0s": [3, 12], "Lens": [0, 30], "Dys": [0]}
    b.update(kw)
    return b


def tla_constants(b=None, mode="ridges", variant="ok", max_h=5, max_w=7):
    b = b or ridge_bounds()
    return {"Mode": mode, "Variant": variant, "MaxH": max_h, "MaxW": max_w, "MapH": b["MapH"], "MapW": b["MapW"],
            "Dss": set(b["Dss"]), "Rows": set(b["Rows"]), "X0s": set(b["X0s"]), "Lens": set(b["Lens"]), "Dys": set(b.get("Dys", [0]))}


def enumerate_ridge_cases(b):
    """mirror of LayoutDecode!RidgeInit"""
    rows = sorted(b["Rows"])
    options = [(0, 0)] + [(x0, ln) for x0 in b["X0s"] for ln in b["Lens"]]
    out = []
    for k, ds, ep, rm, dy in itertools.product(range(4), b["Dss"], (False, True), (False, True), b.get("Dys", [0])):
        for ch in itertools.product(options, repeat=len(rows)):
            if all(o == (0, 0) for o in ch):
                continue
            ridges, ok = [], True
            for y, o in zip(rows, ch):
                if o == (0, 0):
                    continue
                ln = short_len(ep) if o[1] == 0 else o[1]
                if o[0] + ln - 1 > b["MapW"] - 1:
                    ok = False
                if dy != 0 and not (y + dy <= b["MapH"] - 4 and ln >= 2 * dy):
                    ok = False
                ridges.append({"y": y, "x0": o[0], "x1": o[0] + ln - 1, "a2": asc2(y), "d2": desc2(y), "dy": dy})
            if ok:
                out.append({"mode": "ridges", "k": k, "ds": ds, "ep": ep, "rm": rm, "ridges": ridges, "mh": b["MapH"], "mw": b["MapW"]})
    return out


def render(mh, mw, ridges, ep):
    """maps with channels (ascender, descender, baseline, end points, region separators): Gaussian-profile ridges"""
    m = np.zeros((mh, mw, 5), np.float32)
    yy = np.arange(mh)[:, None].astype(np.float64)
    for r in ridges:
        y, x0, x1, dy = r["y"], r["x0"], r["x1"], r.get("dy", 0)
        xs = np.arange(x0, x1 + 1)
        yc = y + (xs - x0) * (dy / float(max(1, x1 - x0)))           # ridge centre per column (flat ridge: dy = 0)
        prof = np.exp(-0.5 * (yy - yc[None, :]) ** 2.0).astype(np.float32)
        m[:, x0:x1 + 1, 2] = np.maximum(m[:, x0:x1 + 1, 2], prof)
        band = np.abs(yy - yc[None, :]) <= 3
        m[:, x0:x1 + 1, 0] = np.where(band, r["a2"] / 2.0, m[:, x0:x1 + 1, 0])
        m[:, x0:x1 + 1, 1] = np.where(band, r["d2"] / 2.0, m[:, x0:x1 + 1, 1])
        if ep:
            for xe, ye in ((x0, y), (x1, y + dy)):
                m[max(0, ye - 2):ye + 3, max(0, xe - 1):xe + 2, 3] = 1.0
    return m


class StubNet:
    def __init__(self, case):
        self.case = case
        self.seen = [0, 0]

    def get_maps_with_optimal_resolution(self, image):
        c = self.case
        self.seen = [int(image.shape[0]), int(image.shape[1])]
        return render(c["mh"], c["mw"], c["ridges"], c["ep"]), c["ds"]


def _milli(v):
    v = float(v)
    if not np.isfinite(v) or abs(v) > 2e6:
        return -999999
    return int(round(v * U))


def _bbox(arr):
    a = np.asarray(arr, dtype=float).reshape(-1, 2)
    return [_milli(a[:, 0].min()), _milli(a[:, 1].min()), _milli(a[:, 0].max()), _milli(a[:, 1].max())]


def run_ridge_case(case):
    eng = make_engine()
    net = StubNet(case)
    eng.parsenet = net
    k, ds = case["k"], case["ds"]
    # the page need not be a multiple of the down-sampling factor (LayoutDecode!RotH / RotW)
    rot_h = case["mh"] * ds + (ds - 1 if case.get("rm") else 0)
    rot_w = case["mw"] * ds + (ds // 2 if case.get("rm") else 0)
    orig = (rot_w, rot_h) if k in (1, 3) else (rot_h, rot_w)
    img = np.zeros(orig + (3,), np.uint8)
    rec = {"mode": "ridges", "k": k, "ds": ds, "ep": bool(case["ep"]), "rm": bool(case.get("rm", False)), "ridges": case["ridges"], "outcome": "ok",
           "seen": [0, 0], "lines": [], "plines": [], "reg": [], "nreg": 0}
    np.random.seed(12345)            # parse() breaks ties of the left-to-right sort with np.random.rand()
    try:
        with contextlib.redirect_stdout(io.StringIO()), warnings.catch_warnings(), np.errstate(all="ignore"):
            warnings.simplefilter("ignore")
            p_list, b_list, h_list, t_list = eng.detect(img, rot=k)
        rec["seen"] = net.seen
        # the same maps decoded without any rotation handling: the lines in the frame of the rotated image
        np.random.seed(12345)
        with contextlib.redirect_stdout(io.StringIO()), warnings.catch_warnings(), np.errstate(all="ignore"):
            warnings.simplefilter("ignore")
            # (decoded five times from the SAME array: decoding must not depend on what the array went through in an earlier decode)
            same_maps = render(case["mh"], case["mw"], case["ridges"], case["ep"])
            for _ in range(5):        # (an in-place blur of a strong synthetic ridge needs a few passes to move an end point)
                np.random.seed(12345)
                pb, _, _ = eng.parse(same_maps, ds)
        rec["plines"] = [{"pts": [[_milli(x), _milli(y)] for x, y in np.asarray(b, dtype=float)]} for b in pb]
        for b, h, t in zip(b_list, h_list, t_list):
            b = np.asarray(b, dtype=float)
            rec["lines"].append({"pts": [[_milli(x), _milli(y)] for x, y in b], "h": [_milli(h[0]), _milli(h[1])],
                                 "tl": _bbox(t)})
        if not (len(b_list) == len(h_list) == len(t_list)):
            rec["outcome"] = "exception:ListLengths"
        rec["nreg"] = len(p_list)
        if len(p_list):
            rec["reg"] = _bbox(np.concatenate([np.asarray(p, dtype=float).reshape(-1, 2) for p in p_list], axis=0))
    except Exception as ex:          # part of the observation
        rec["outcome"] = "exception:" + type(ex).__name__
    return rec


# --------------------------------------------------------------------------------------------- pixels
class _CaptureNet:
    image = None

    def get_maps_with_optimal_resolution(self, image):
        self.image = np.array(image)
        return np.zeros((12, 12, 5), np.float32), 1          # nothing to detect: detect() returns after parse()


def run_pixel_case(case):
    """every pixel of an H x W page through the real np.rot90 (as detect() applies it) and the real rotate_layout"""
    h, w, k = case["H"], case["W"], case["k"]
    rec = {"mode": "pixels", "H": h, "W": w, "k": k, "outcome": "ok", "shape": [0, 0], "px": []}
    try:
        idx = np.arange(h * w).reshape(h, w, 1)
        eng = make_engine()
        cap = _CaptureNet()
        eng.parsenet = cap                                   # the page as the network sees it inside the real detect()
        with contextlib.redirect_stdout(io.StringIO()), warnings.catch_warnings(), np.errstate(all="ignore"):
            warnings.simplefilter("ignore")
            eng.detect(idx, rot=k)
        rot = cap.image[:, :, 0]
        rec["shape"] = [int(rot.shape[0]), int(rot.shape[1])]
        where = {}
        for ry in range(rot.shape[0]):
            for rx in range(rot.shape[1]):
                where[int(rot[ry, rx])] = (rx, ry)
        pts = np.array([where[y * w + x] for y in range(h) for x in range(w)], dtype=float)
        # one array per list, as detect() passes them (regions, baselines, outlines)
        p_list, b_list, t_list = eng.rotate_layout([pts.copy()], [pts.copy()], [pts.copy()], k, rot.shape + (3,))
        p, b, t = np.asarray(p_list[0]), np.asarray(b_list[0]), np.asarray(t_list[0])
        i = 0
        for y in range(h):
            for x in range(w):
                rx, ry = where[y * w + x]
                rec["px"].append([x, y, rx, ry, _milli(p[i, 0]), _milli(p[i, 1]), _milli(b[i, 0]), _milli(b[i, 1]),
                                  _milli(t[i, 0]), _milli(t[i, 1])])
                i += 1
    except Exception as ex:
        rec["outcome"] = "exception:" + type(ex).__name__
    return rec


def run_case(case):
    return run_pixel_case(case) if case["mode"] == "pixels" else run_ridge_case(case)


def enumerate_pixel_cases(max_h, max_w):
    return [{"mode": "pixels", "H": h, "W": w, "k": k} for h in range(1, max_h + 1) for w in range(1, max_w + 1) for k in range(4)]
