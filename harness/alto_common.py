"""Shared by the C06 driver: instantiate class-token strings (spec/ArabicOps.tla) with concrete code points, build real
TextLine / PageLayout objects for every alignment situation of spec/AltoExport.tla, run the real
to_altoxml_string / from_altoxml_string / ArabicHelper conversions and project the results back to tokens and
integers (the trace formats of AltoExport_Trace / ArabicOrder_Trace).  No verdict is taken here."""
import itertools
import json
import math
import os
import re
import sys

import numpy as np
import scipy.sparse
import lxml.etree as ET

from pero_ocr.core.layout import PageLayout, RegionLayout, TextLine
from pero_ocr.core.arabic_helper import ArabicHelper

# ---------------------------------------------------------------------------------------------- tokens
# first entry = canonical instantiation; the others are used by the seeded variety runs
CANDIDATES = {
    "A": ["\u0628", "\u0633", "\ufe8f"],            # beh, seen, beh isolated form (backward mapping)
    "B": ["\u0644", "\u0645", "\ufedd"],            # lam, meem, lam isolated form
    "C": ["\u060c", "\u064b", "\u0651"],            # Arabic comma, fathatan, shadda (ArabicHelper.arabic_delimiters)
    "s": [" "],
    "d": [",", "-", ".", ":"],                      # ArabicHelper.delimiters other than the blank
    "w": ["\t", "\u00a0", "\u2009", "\u3000"],      # tab, NBSP, thin space, ideographic space
    "a": ["a", "Q"],
    "b": ["b", "z"],
    "n": ["0", "7"],
    "x": ["\u00e9", "<", "&", "\U0001d51e", ">", "'"],   # outside the charset: accented, markup, astral
}
# the engine character table used for every line: index = label; index 0 is never a label of an in-charset class,
# so out-of-charset characters (label 0) never coincide with a real character (AltoExport!LabelOf keeps the same
# equality structure: distinct in-charset classes <-> distinct labels)
IN_CHARSET = ["a", "b", "s", "d", "A", "B", "C", "n"]
CHARSET = ["#"] + [ch for tok in IN_CHARSET for ch in CANDIDATES[tok]]
REVMAP = {ch: tok for tok, chs in CANDIDATES.items() for ch in chs}
SITUATIONS = ["peaky", "mid", "diffuse", "window", "unkwin", "tight", "tightwin", "short", "nocoords", "charsnone", "nochars",
              "nologits"]
NONE_CONF = 2000000
LINE_STEP = 20          # line with layout position t has VPOS = LINE_STEP * t


def strings(classes, maxlen):
    classes = sorted(classes)
    for n in range(maxlen + 1):
        for t in itertools.product(classes, repeat=n):
            yield list(t)


def instantiate(tokens, rng=None):
    """one code point per class for the whole string (the label equality structure of the model relies on it), except
    the out-of-charset classes x / w which may vary per position"""
    pick = {}
    out = []
    for tok in tokens:
        cands = CANDIDATES[tok]
        if rng is None:
            ch = cands[0]
        elif tok in ("x", "w"):
            ch = rng.choice(cands)
        else:
            if tok not in pick:
                pick[tok] = rng.choice(cands)
            ch = pick[tok]
        out.append(ch)
    return "".join(out)


def tokens_of(s):
    return [REVMAP.get(ch, "?") for ch in s]


# ---------------------------------------------------------------------------------------------- Arabic order
_HELPER = None


def helper():
    global _HELPER
    if _HELPER is None:
        _HELPER = ArabicHelper()
    return _HELPER


class _RealCodeTimeout(Exception):
    pass


_TIMEOUTS = {"n": 0}


class guarded:
    """runs a call of the real code under a wall-clock limit and an address-space limit: a changed implementation that no longer
    terminates or keeps allocating is observed as an exception of that call, not as a dead harness"""

    def __init__(self, seconds=20, extra_gb=3):
        self.seconds, self.extra = seconds, extra_gb << 30

    def __enter__(self):
        import resource
        import signal

        def _alarm(signum, frame):
            raise _RealCodeTimeout()
        self.old_handler = signal.signal(signal.SIGALRM, _alarm)
        signal.setitimer(signal.ITIMER_REAL, self.seconds)
        self.old_limit = resource.getrlimit(resource.RLIMIT_AS)
        try:
            with open("/proc/self/statm") as fh:
                now = int(fh.read().split()[0]) * resource.getpagesize()
            hard = self.old_limit[1]
            soft = now + self.extra
            if hard != resource.RLIM_INFINITY:
                soft = min(soft, hard)
            resource.setrlimit(resource.RLIMIT_AS, (soft, hard))
        except Exception:
            pass
        return self

    def __exit__(self, et, ev, tb):
        import resource
        import signal
        signal.setitimer(signal.ITIMER_REAL, 0)
        signal.signal(signal.SIGALRM, self.old_handler)
        try:
            resource.setrlimit(resource.RLIMIT_AS, self.old_limit)
        except Exception:
            pass
        return False


def arabic_trace(concrete):
    rec = {"text": tokens_of(concrete), "r1": [], "r2": [], "outcome": "ok", "concrete": concrete}
    try:
        # three conversions in this process already ran into the time limit: the implementation degrades with every call, the
        # remaining cases of this process are recorded as the time-outs they would be instead of waiting for each of them
        if _TIMEOUTS["n"] >= 3:
            raise _RealCodeTimeout()
        try:
            with guarded(5):
                r1 = helper().string_to_label_form(concrete)
                r2 = helper().label_form_to_string(r1)
        except _RealCodeTimeout:
            _TIMEOUTS["n"] += 1
            raise
        # a result cannot be longer than its input: keep the record small whatever the code returned
        r1, r2 = r1[:len(concrete) + 4], r2[:len(concrete) + 4]
        rec["r1"], rec["r2"] = tokens_of(r1), tokens_of(r2)
        # a character that only changed inside its class (e.g. another Arabic letter) must not pass as a permutation
        if sorted(r1) != sorted(concrete) and sorted(rec["r1"]) == sorted(rec["text"]):
            rec["r1"] = rec["r1"] + ["?"]
        if r2 != concrete and rec["r2"] == rec["text"]:
            rec["r2"] = rec["r2"] + ["?"]
    except Exception as ex:  # part of the observation
        rec["outcome"] = "exception:" + type(ex).__name__
    return rec


# ---------------------------------------------------------------------------------------------- lines and pages
def _frame(nb, label=None, quality="peaky"):
    """one row of raw logits (log-probabilities up to a constant); never exactly 0 (sparse storage treats 0 as absent)"""
    row = np.full(nb + 1, -12.0)
    if quality == "diffuse":
        row[:] = -1.0
        return row
    if label is None:
        row[nb] = 4.0
        return row
    if quality == "mid":
        row[:] = math.log(0.02 / nb)
        row[label] = math.log(0.8)
        row[0 if label != 0 else 1] = math.log(0.1)
        row[nb] = math.log(0.08)
        return row
    row[label] = 4.0
    return row


def build_line(concrete, sit, tag, frames=None):
    n = len(concrete)
    y0 = LINE_STEP * tag
    line = TextLine(id="l%d" % tag, baseline=np.array([[10, y0 + 10], [150, y0 + 10]]),
                    polygon=np.array([[10, y0], [150, y0], [150, y0 + 15], [10, y0 + 15]]),
                    heights=np.array([10, 5]), transcription=concrete)
    if sit in ("nochars", "nologits"):
        if sit == "nologits":
            line.characters = list(CHARSET)
        line.logit_coords = [None, None]
        return line
    nb = len(CHARSET)
    labels = [CHARSET.index(c) if c in CHARSET else 0 for c in concrete]
    quality = sit if sit in ("mid", "diffuse") else "peaky"
    if sit == "short":
        rows = [_frame(nb)]
    elif sit in ("tight", "tightwin"):
        rows = [_frame(nb, lab, quality) for lab in labels]
    elif frames:
        # a LONG line: the characters spread evenly over `frames` frames (a wide crop), blank everywhere else
        rows = [_frame(nb, None, quality) for _ in range(frames)]
        for p, lab in zip(np.linspace(5, frames - 5, len(labels)).astype(int), labels):
            rows[p] = _frame(nb, lab, quality)
    else:
        rows = [_frame(nb, None, quality)]
        for lab in labels:
            rows += [_frame(nb, lab, quality), _frame(nb, None, quality)]
    t = len(rows)
    coords = [0, t]
    if sit in ("window", "tightwin"):
        rows = [_frame(nb)] * 2 + rows + [_frame(nb)] * 2
        coords = [2, 2 + t]
    elif sit == "unkwin":
        coords = [None, None]
    elif sit == "nocoords":
        coords = None
    line.logits = scipy.sparse.csc_matrix(np.array(rows))
    line.characters = None if sit == "charsnone" else list(CHARSET)
    line.logit_coords = coords
    return line


def build_page(case):
    """case = {"W","H" (pixels), "blocks": [{"rect":[x1,y1,x2,y2], "lines":[{"concrete": str, "sit": str}]}]};
    "geom": "reglist" = the region outlines are nested Python lists of int, the form PageLayout.from_altoxml itself gives them
    (a layout read from an ALTO file whose lines were then recognised: list outlines around lines with posteriors)"""
    page = PageLayout(id="verif_page", page_size=(case["H"], case["W"]))
    tag = 0
    lines = []
    for k, blk in enumerate(case["blocks"], 1):
        x1, y1, x2, y2 = blk["rect"]
        poly = np.array([[x1, y1], [x2, y1], [x2, y2], [x1, y2]])
        if blk.get("shape") == "hexagon" and x2 - x1 >= 4 and y2 - y1 >= 4:   # same bounding box, not a rectangle
            mx, my = (x1 + x2) // 2, (y1 + y2) // 2
            poly = np.array([[x1, my], [mx, y1], [x2, y1 + 1], [x2, my], [mx, y2], [x1, y2 - 1]])
        region = RegionLayout("r%d" % k, poly.tolist() if case.get("geom") == "reglist" else poly)
        for ln in blk["lines"]:
            tag += 1
            tl = build_line(ln["concrete"], ln["sit"], tag, ln.get("frames"))
            region.lines.append(tl)
            lines.append(tl)
        page.regions.append(region)
    return page, lines


_INT = re.compile(r"^-?\d+$")
_GEOM = ("HEIGHT", "WIDTH", "VPOS", "HPOS", "BASELINE")


def _rect(el, flags):
    vals = []
    for a in ("HPOS", "VPOS", "WIDTH", "HEIGHT"):
        v = el.get(a)
        if v is None or not _INT.match(v):
            flags["ints"] = False
            try:
                vals.append(int(round(float(v))))
            except (TypeError, ValueError, OverflowError):
                vals.append(0)
        else:
            vals.append(int(v))
    return vals


def _wc(v):
    try:
        f = float(v)
    except (TypeError, ValueError):
        return 9999
    if not math.isfinite(f) or abs(f) > 5:
        return 9999
    return int(round(f * 100)) + 1000


def conf_ppm(c):
    if c is None:
        return NONE_CONF
    c = float(c)
    if not math.isfinite(c):
        return NONE_CONF
    return max(-NONE_CONF, min(NONE_CONF - 1, int(math.floor(c * 1000000))))


def project_alto(xml, ids=None, vmap=None):
    """ALTO string (or the bytes of an ALTO file) -> obs record of AltoExport_Trace.
    ids: region ids of the exported page in layout order (default r1, r2, ...: a TextBlock "block_<id>" gets idx = position of
    <id>, 0 if unknown); vmap: VPOS of a line -> its layout position (default: VPOS = LINE_STEP * position)"""
    root = ET.fromstring(xml.encode("utf-8") if isinstance(xml, str) else xml)
    ns = root.tag[:root.tag.index("}") + 1] if root.tag.startswith("{") else ""
    flags = {"ints": True}
    page = root.find(ns + "Layout").find(ns + "Page")
    for el in page.iter():
        if not isinstance(el.tag, str):
            continue
        for a in _GEOM:
            v = el.get(a)
            if v is not None and not _INT.match(v):
                flags["ints"] = False
    geo = {}
    for name, key in (("PrintSpace", "ps"), ("TopMargin", "top"), ("LeftMargin", "left"), ("RightMargin", "right"),
                      ("BottomMargin", "bottom")):
        el = page.find(ns + name)
        geo[key] = _rect(el, flags) if el is not None else [0, 0, 0, 0]
    blocks = []
    ps = page.find(ns + "PrintSpace")
    for tb in (ps.iter(ns + "TextBlock") if ps is not None else []):
        if ids is None:
            m = re.match(r"^block_r(\d+)$", tb.get("ID") or "")
            idx = int(m.group(1)) if m else 0
        else:
            bid = tb.get("ID") or ""
            idx = ids.index(bid[6:]) + 1 if bid.startswith("block_") and bid[6:] in ids else 0
        blk = {"idx": idx, "rect": _rect(tb, flags), "lines": []}
        for tl in tb.iter(ns + "TextLine"):
            v = tl.get("VPOS") or ""
            if vmap is None:
                tag = int(v) // LINE_STEP if _INT.match(v) and int(v) % LINE_STEP == 0 and int(v) > 0 else 0
            else:
                tag = vmap.get(int(v), 0) if _INT.match(v) else 0
            items, wcs = [], []
            for el in tl:
                if el.tag == ns + "String":
                    items.append({"k": "S", "c": tokens_of(el.get("CONTENT") or "")})
                    if el.get("WC") is not None:
                        wcs.append(_wc(el.get("WC")))
                elif el.tag == ns + "SP":
                    items.append({"k": "SP", "c": []})
            blk["lines"].append({"tag": tag, "items": items, "wc": wcs})
        blocks.append(blk)
    return {"blocks": blocks, "geo": geo, "ints": flags["ints"]}


EMPTY_OBS = {"blocks": [], "geo": {k: [0, 0, 0, 0] for k in ("ps", "top", "left", "right", "bottom")}, "ints": True}


SCRATCH = None          # directory for the files written by the file variant of the export (the driver sets it to ctx.workdir)
_FILE_NO = {"n": 0}


def _history(case, page, lines):
    # History: for every other case the page object was exported once BEFORE, when its lines still held another transcription
    # (an uncorrected text with the words in another order and one word less) and the same logits; the text was then corrected in
    # place and the page is exported again - the recorded export.  It must speak about what the page holds now.
    if (case["W"] + case["minconf"] // 1000 + sum(len(ln["concrete"]) for blk in case["blocks"] for ln in blk["lines"])) % 2 == 0:
        final = [ln.transcription for ln in lines]
        for ln in lines:
            if ln.transcription:
                words = ln.transcription.split()
                ln.transcription = " ".join(reversed(words[:-1] if len(words) > 1 else words)) or ln.transcription
        try:
            with guarded(60):
                page.to_altoxml_string(min_line_confidence=0)
        except Exception:
            pass
        for ln, text in zip(lines, final):
            ln.transcription = text
            ln.transcription_confidence = None


def _export(page, lines, rec, minconf, via=None, ids=None, vmap=None):
    """the recorded execution: export (string variant, or the file variant to_altoxml + the bytes of the written file),
    projection of the result, re-import (from_altoxml_string, or from_altoxml on the written file).  Returns the re-imported page
    (None if there is none)."""
    rec["pre"] = [conf_ppm(ln.transcription_confidence) for ln in lines]
    xml = None
    path = None
    try:
        if via == "file":
            # PageLayout.to_altoxml(file_name): no min_line_confidence argument, the export runs with the default 0
            _FILE_NO["n"] += 1
            path = os.path.join(SCRATCH, "c06_%d_%d.xml" % (os.getpid(), _FILE_NO["n"]))
            with guarded(60):
                page.to_altoxml(path)
            with open(path, "rb") as fh:
                xml = fh.read()
            try:
                rec["obs"] = project_alto(xml, ids, vmap)
            except Exception as ex:   # the export returned, but what it wrote cannot be read as the XML file it declares to be
                rec["outcome"] = "unreadable:" + type(ex).__name__
                xml = None
        else:
            with guarded(60):
                xml = page.to_altoxml_string(min_line_confidence=minconf / 1000000.0)
            rec["obs"] = project_alto(xml, ids, vmap)
    except Exception as ex:  # the export failing is an observation (clause 1), never a harness crash
        rec["outcome"] = "exception:" + type(ex).__name__
        xml = None
    rec["confs"] = [conf_ppm(ln.transcription_confidence) for ln in lines]
    back = None
    if xml is not None:
        try:
            back = PageLayout()
            with guarded(60):
                if via == "file":
                    back.from_altoxml(path)
                else:
                    back.from_altoxml_string(xml)
            rec["imp"] = [[tokens_of_words(ln.transcription) for ln in reg.lines] for reg in back.regions]
            rec["imp_outcome"] = "ok"
        except Exception as ex:
            rec["imp_outcome"] = "exception:" + type(ex).__name__
            back = None
    if path is not None:
        try:
            os.remove(path)
        except OSError:
            pass
    return back


def _new_rec(W, H, minconf):
    return {"W": W, "H": H, "minconf": minconf, "blocks": [], "outcome": "ok",
            "obs": EMPTY_OBS, "imp_outcome": "none", "imp": [], "confs": [], "sure": [], "pre": []}


def _first_generation(case):
    """run the real export + re-import on one case (see build_page; plus "minconf" in millionths; "via": "file" = the file
    variant to_altoxml / from_altoxml(path) instead of the string variant)"""
    page, lines = build_page(case)
    via = case.get("via")
    rec = _new_rec(case["W"], case["H"], 0 if via == "file" else case["minconf"])
    _history(case, page, lines)
    # sure[tag] (millionths, -1 = nothing known): a lower bound of the line's confidence that holds by construction - alignable
    # posteriors with every character > 0.99 ("peaky", "window") or with label 0.8 against a strongest competitor 0.1 ("mid"):
    # a line whose bound is at or above the requested threshold must not be dropped.
    # Every second line carries a stale, low confidence from before the export (e.g. the value an earlier export stored when the
    # logits were not attached yet): the export decides on the confidence it computes, not on what the object happened to hold.
    tag = 0
    for blk in case["blocks"]:
        for ln in blk["lines"]:
            tag += 1
            txt = ln["concrete"]
            lb = 990000 if ln["sit"] in ("peaky", "window") else (600000 if ln["sit"] == "mid" else -1)
            if ln["sit"] in ("tight", "tightwin") and all(a != b for a, b in zip(txt, txt[1:])):
                lb = 990000        # one peaky frame per character, no repeated neighbour: alignable, every posterior > 0.99
            rec["sure"].append(lb if all(c in CHARSET for c in ln["concrete"]) else -1)
            if (tag + len(ln["concrete"])) % 2 == 0:
                lines[tag - 1].transcription_confidence = 0.0123457
    for blk in case["blocks"]:
        rec["blocks"].append({"rect": list(blk["rect"]),
                              "lines": [{"text": tokens_of(ln["concrete"]), "sit": ln["sit"],
                                         "conv": [tokens_of(helper().label_form_to_string(w)) for w in ln["concrete"].split()]}
                                        for ln in blk["lines"]]})
    # rec["pre"]: what the lines held before the export: the field counts as "the confidence the export computed" only if the
    # export wrote it
    back = _export(page, lines, rec, rec["minconf"], via)
    return rec, back


def _second_generation(case):
    """export -> import -> EXPORT: the page that from_altoxml_string rebuilt from the first export is a page of the statement as
    well (its lines have baseline, polygon, heights and a transcription; no posteriors; region outlines are nested lists).  It is
    exported, parsed and re-imported like any other page and recorded as a page of its own: W, H, block rectangles and texts are
    read off the rebuilt object, every line is in the situation "nochars", lines are identified by their position in the rebuilt
    page.  None when the first generation left no rebuilt page (its own trace is judged as the case without "gen")."""
    first = {k: v for k, v in case.items() if k != "gen"}
    rec1, back = _first_generation(first)
    if back is None or not back.regions:
        return None
    lines = [ln for reg in back.regions for ln in reg.lines]
    try:
        rec = _new_rec(int(back.page_size[1]), int(back.page_size[0]), 0)
        vmap, tag = {}, 0
        for reg in back.regions:
            xs = [int(p[0]) for p in reg.polygon]
            ys = [int(p[1]) for p in reg.polygon]
            blk = {"rect": [min(xs), min(ys), max(xs), max(ys)], "lines": []}
            for ln in reg.lines:
                tag += 1
                text = ln.transcription or ""
                vmap.setdefault(min(int(p[1]) for p in ln.polygon), tag)
                blk["lines"].append({"text": tokens_of(text), "sit": "nochars",
                                     "conv": [tokens_of(helper().label_form_to_string(w)) for w in text.split()]})
                rec["sure"].append(-1)
            rec["blocks"].append(blk)
        rec["gen2"] = {"region_outline": type(back.regions[0].polygon).__name__,
                       "texts": [ln.transcription or "" for ln in lines]}
        ids = [str(reg.id) for reg in back.regions]
    except Exception:
        return None            # the rebuilt page cannot even be described: the re-import clause of the first generation speaks
    _export(back, lines, rec, 0, None, ids, vmap)
    return rec


def alto_trace(case):
    """one recorded execution for one case; None = nothing to record (second generation of a failed first generation)"""
    if case.get("gen") == 2:
        return _second_generation(case)
    return _first_generation(case)[0]


def tokens_of_words(s):
    return [tokens_of(w) for w in (s or "").split()]


def child_main():
    """entry point of the child process the driver starts in a different process environment (locale):
         python -c "from harness import alto_common as A; A.child_main()" cases.json traces.json scratch_dir
    runs alto_trace on every case and reports the environment it found itself in"""
    import locale
    import logging
    global SCRATCH
    inp, outp, SCRATCH = sys.argv[1:4]
    logging.getLogger("pero_ocr.core.layout").setLevel(logging.ERROR)
    with open(inp, encoding="utf-8") as fh:
        cases = json.load(fh)
    traces = [alto_trace(c) for c in cases]
    with open(outp, "w", encoding="utf-8") as fh:
        json.dump({"encoding": locale.getpreferredencoding(False), "utf8_mode": int(sys.flags.utf8_mode),
                   "fs_encoding": sys.getfilesystemencoding(), "traces": traces}, fh)
