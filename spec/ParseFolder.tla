---------------------------- MODULE ParseFolder ----------------------------
(* C17 - resuming an interrupted batch (user_scripts/parse_folder.py, option -s/--skip-processed).

   The only persistent record of progress is the content of the output folders.  A batch run
     StartRun : lists the consulted output folders, derives the set of "already processed" stems and the
                to-do list (input ids in sorted order that are not in that set)        parse_folder.py:297-323
     Write    : one file write of Computator.__call__ for the page at the head of the to-do list, in the
                order of the real code                                                    parse_folder.py:175-199
     Finish   : the statistics line after the loop (divides by the length of the to-do list) parse_folder.py:358
     Crash    : the process is killed between two writes (before the first, after the last included).
   A page id and a file name are sequences of tokens ("a", ".b", ".xml", ".jpg", ".logits", "-", "1" ...); the
   real name is the concatenation.  This is what makes the file-name regex of load_already_processed_files
   (r"(.+?)(\.logits|\.xml|\.jpg)" with re.match: lazy, not anchored at the end) exactly expressible.

   The module describes the REPAIRED tool.  Four constants re-introduce the four defects of the unrepaired tree,
   one each (TLC must violate the named invariant with the flag TRUE and pass with all four FALSE):
     LegacyAlto  - the ALTO folder is not consulted                      -> AllOutputsAfterCleanRun
     LegacyStem  - lazy, unanchored stem instead of "strip the final extension"  -> AllOutputsAfterCleanRun / NeverRedoComplete
     LegacyOrder - line crops written after the files that mark completion      -> AllOutputsAfterCleanRun
     LegacyDiv   - division by the number of pages to do, unguarded              -> CleanExit
   Known open finding kept by the repaired model: with Kinds = {"lines"} no single-file output exists, nothing marks
   completion, complete pages are processed again (NeverRedoComplete fails; the other invariants hold).          *)
EXTENDS Naturals, Sequences, FiniteSets, TLC

CONSTANTS Order,        \* the input pages in the order the tool processes them (sorted image file names)
          Kinds,        \* requested output kinds
          NLines,       \* line crops per page
          LineIds,      \* the ids of the text lines of a page, as token sequences (<<"1">>, <<"2">> ... or <<"r", "001", "-", "l", "001">> ...):
                        \* the crop of line l of page p is the file <p>-<id of l>.jpg.  Line ids are unique within a page only, every
                        \* page of a batch has the same ones
          MaxCrashes,
          LegacyAlto, LegacyStem, LegacyOrder, LegacyDiv

Pages == {Order[i] : i \in 1..Len(Order)}
AllKinds == {"xml", "render", "logits", "alto", "lines"}
Ext(k) == CASE k = "xml" -> ".xml" [] k = "render" -> ".jpg" [] k = "logits" -> ".logits"
            [] k = "alto" -> ".xml" [] k = "lines" -> ".jpg"
ExtTokens == {".xml", ".jpg", ".logits"}

\* files of kind k written for page p (a file is <<kind = folder, name>>)
One(k, p) == IF k \notin Kinds THEN <<>>
             ELSE IF k = "lines" THEN [l \in 1..NLines |-> <<k, p \o <<"-">> \o LineIds[l] \o <<".jpg">> >>]
             ELSE << <<k, p \o <<Ext(k)>> >> >>
\* ... in the order Computator.__call__ writes them
Writes(p) == IF LegacyOrder
             THEN One("xml", p) \o One("render", p) \o One("logits", p) \o One("alto", p) \o One("lines", p)
             ELSE One("lines", p) \o One("xml", p) \o One("render", p) \o One("logits", p) \o One("alto", p)
FilesOf(p) == {Writes(p)[i] : i \in 1..Len(Writes(p))}

ASSUME /\ Kinds \subseteq AllKinds /\ Kinds # {}
       /\ NLines \in Nat /\ MaxCrashes \in Nat
       /\ Len(LineIds) = NLines /\ \A l, m \in 1..NLines : l # m => LineIds[l] # LineIds[m]
       /\ \A p \in Pages : Len(Writes(p)) >= 1
       /\ Cardinality(Pages) = Len(Order)
       \* input precondition: two pages never write the same file
       /\ \A p, q \in Pages : p # q => FilesOf(p) \cap FilesOf(q) = {}

VARIABLES disk,      \* set of files present
          phase,     \* "idle" (no process) | "running" | "done" (last process ended by itself)
          todo,      \* pages still to be processed by the running process
          w,         \* number of files already written for Head(todo)
          n0,        \* length of the to-do list when the process started
          crashes, status,
          skippedIncomplete, redoneComplete     \* ghosts, property only
vars == <<disk, phase, todo, w, n0, crashes, status, skippedIncomplete, redoneComplete>>

-----------------------------------------------------------------------------
(* property vocabulary - shared with ParseFolder_Trace, where it is evaluated on the observed folders *)
Complete(p, d) == FilesOf(p) \subseteq d
\* "pages whose outputs are all complete are not processed again"
PropRunStart(d, started) == \A i \in 1..Len(started) : ~Complete(started[i], d)
\* "ends with every requested output of every input page present", "exits cleanly"
PropRunEnd(st, d) == st = "ok" /\ \A p \in Pages : Complete(p, d)
-----------------------------------------------------------------------------
(* which pages the tool believes to be done *)
\* re.match(r"(.+?)(\.logits|\.xml|\.jpg)", name).group(1): shortest non-empty prefix followed by an extension
LazyStem(name) == LET idx == {i \in 2..Len(name) : name[i] \in ExtTokens}
                  IN IF idx = {} THEN <<>>
                     ELSE SubSeq(name, 1, (CHOOSE i \in idx : \A j \in idx : i <= j) - 1)
\* repaired: strip exactly the final extension
LastStem(name) == IF Len(name) >= 2 /\ name[Len(name)] \in ExtTokens THEN SubSeq(name, 1, Len(name) - 1) ELSE <<>>
Stem(name) == IF LegacyStem THEN LazyStem(name) ELSE LastStem(name)

Consulted == (IF LegacyAlto THEN {"xml", "logits", "render"} ELSE {"xml", "logits", "render", "alto"}) \cap Kinds
\* intersection over the consulted folders of the stems found there; no consulted folder: empty set
Processed(d) == IF Consulted = {} THEN {}
                ELSE LET stems(k) == {Stem(f[2]) : f \in {g \in d : g[1] = k}} \ {<<>>}
                     IN {s \in UNION {stems(k) : k \in Consulted} : \A k \in Consulted : s \in stems(k)}
TodoFor(d) == SelectSeq(Order, LAMBDA p : p \notin Processed(d))
-----------------------------------------------------------------------------
Init == /\ disk = {} /\ phase = "idle" /\ todo = <<>> /\ w = 0 /\ n0 = 0 /\ crashes = 0 /\ status = "none"
        /\ skippedIncomplete = FALSE /\ redoneComplete = FALSE

StartRun == /\ phase = "idle"
            /\ todo' = TodoFor(disk) /\ n0' = Len(todo')
            /\ skippedIncomplete' = (skippedIncomplete \/ \E p \in Pages \cap Processed(disk) : ~Complete(p, disk))
            /\ redoneComplete' = (redoneComplete \/ ~PropRunStart(disk, todo'))
            /\ phase' = "running" /\ w' = 0 /\ status' = "none"
            /\ UNCHANGED <<disk, crashes>>

Write == /\ phase = "running" /\ todo # <<>>
         /\ LET ws == Writes(Head(todo))
            IN /\ disk' = disk \cup {ws[w + 1]}
               /\ IF w + 1 = Len(ws) THEN todo' = Tail(todo) /\ w' = 0
                                     ELSE w' = w + 1 /\ UNCHANGED todo
         /\ UNCHANGED <<phase, n0, crashes, status, skippedIncomplete, redoneComplete>>

\* logger.info(f'AVERAGE PROCESSING TIME {(time.time() - t_start) / len(ids_to_process)}')
Finish == /\ phase = "running" /\ todo = <<>>
          /\ phase' = "done"
          /\ status' = IF LegacyDiv /\ n0 = 0 THEN "ZeroDivisionError" ELSE "ok"
          /\ UNCHANGED <<disk, todo, w, n0, crashes, skippedIncomplete, redoneComplete>>

Crash == /\ phase = "running" /\ crashes < MaxCrashes
         /\ phase' = "idle" /\ crashes' = crashes + 1 /\ todo' = <<>> /\ w' = 0 /\ n0' = 0
         /\ UNCHANGED <<disk, status, skippedIncomplete, redoneComplete>>

Next == StartRun \/ Write \/ Finish \/ Crash
Spec == Init /\ [][Next]_vars
-----------------------------------------------------------------------------
TypeOK == /\ disk \subseteq UNION {FilesOf(p) : p \in Pages}
          /\ phase \in {"idle", "running", "done"}
          /\ w \in 0..(5 + NLines) /\ crashes \in 0..MaxCrashes /\ n0 \in 0..Len(Order)
          /\ status \in {"none", "ok", "ZeroDivisionError"}
\* C17, clause 1 and 3 (evaluated whenever a process ended by itself)
AllOutputsAfterCleanRun == phase = "done" => \A p \in Pages : Complete(p, disk)
CleanExit == phase = "done" => status = "ok"
RunEndOK == phase = "done" => PropRunEnd(status, disk)
\* C17, clause 2
NeverRedoComplete == ~redoneComplete
\* diagnostic strengthening of clause 1: a page the tool believes to be done is done
NeverSkipIncomplete == ~skippedIncomplete
\* outputs are never removed
Monotone == [][disk \subseteq disk']_vars
\* the files of a page present on disk form a prefix of the order in which they are written
PrefixOnDisk == \A p \in Pages : \A i \in 1..Len(Writes(p)) : (Writes(p)[i] \in disk) => \A j \in 1..i : Writes(p)[j] \in disk
-----------------------------------------------------------------------------
(* Refinement: seen from any single page p, ParseFolder implements ParseFolderInd - the unbounded abstraction (any batch size,
   any number of crops, any number of kills) whose inductive invariant is proved with Apalache.  Meaningful for the repaired
   tool with at least one single-file output requested (the ghosts are then never set).                                      *)
InTodo(p) == \E i \in 1..Len(todo) : todo[i] = p
AbsPage(p) == INSTANCE ParseFolderInd WITH
                 NL <- (IF "lines" \in Kinds THEN NLines ELSE 0), K <- Cardinality(Kinds \ {"lines"}), Kc <- Cardinality(Consulted),
                 LegacyOrder <- LegacyOrder,
                 n <- Cardinality(FilesOf(p) \cap disk), phase <- phase,
                 mine <- (IF phase = "running" /\ InTodo(p) THEN (IF Head(todo) = p THEN "current" ELSE "todo") ELSE "out"),
                 w <- (IF phase = "running" /\ todo # <<>> /\ Head(todo) = p THEN w ELSE 0),
                 skippedIncomplete <- skippedIncomplete, redoneComplete <- redoneComplete
RefinesInd == \A p \in Pages : AbsPage(p)!Spec
=============================================================================
