--------------------------- MODULE Greedy_Trace ---------------------------
(* Trace layer for Greedy (C04).  One recorded execution = one batch of N lines x T frames whose per-frame arg-max
   symbols are `paths` (a TLC initial state of Greedy rendered as a score tensor with a unique arg-max per frame),
   decoded by the real code three times:
      eng    greedy_decode_ctc(scores N x C x T, chars)                     (the engine's batched decoder)
      alone  GreedyDecoder(letters)(log_softmax of line n).best_hyp()       (the stand-alone decoder, per line)
      ocr    PytorchEngineLineOCR.run_ocr(batch) with a stub network that returns the same scores
      filt   char_confidences.greedy_filtration(softmax of line n, chars)[0]  (the greedy text behind the per-character confidences)
   Texts are recorded as class indices through the inverse character table (an unknown character is 99).
   Accepted iff every text of every line equals Collapse(paths[n]) - the definition in the statement; Greedy.tla proves
   that the scan and the vectorised algorithm both equal it.  verdict = 0 or the number of the first failing clause.   *)
EXTENDS Greedy, TraceKit
VARIABLES tid, verdict

Tr == Traces[tid]
NL == Len(Tr.paths)
TextsOK(x) == /\ DOMAIN x = 1..NL
              /\ \A i \in 1..NL : x[i] = Collapse(Tr.paths[i])

Judge == IF Tr.outcome # "ok" THEN 1
         ELSE IF ~TextsOK(Tr.eng) THEN 2
         ELSE IF ~TextsOK(Tr.alone) THEN 3
         ELSE IF ~TextsOK(Tr.ocr) THEN 4
         ELSE IF ~TextsOK(Tr.filt) THEN 5
         ELSE 0

TInit == /\ tid \in 1..NTraces
         /\ paths = Traces[tid].paths
         /\ n = 1 /\ t = 0 /\ prev = NoSym /\ cur = <<>> /\ scanout = <<>> /\ vecout = <<>>
         /\ verdict = Judge

TNext == UNCHANGED <<vars, tid, verdict>>

TAccept == TKMark(tid, verdict, verdict = 0)
TPost == TKPost
ASSUME TKReset
=============================================================================
