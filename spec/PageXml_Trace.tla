------------------------- MODULE PageXml_Trace -------------------------
(* Trace layer for PageXml (C01).  A recorded execution of the real pero_ocr.core.layout.PageLayout
     page0 (projection of the built object);
     events[1..5] = Export v / Load how pm / Export v' / Load how' pm' / Export v'   (pm = order in which the harness
                    hands the TextRegion elements of the written document to the import: identity or "another tool re-ordered them")
   each with the projection of the live object after the call (page) and, for Export, the independent
   projection of the written document (doc) and a digest of its text with the timestamps removed (hash).

   Two acceptance levels (DESIGN.md 3.4):
   * TInit / TNext / TAccept  - detailed: the execution is a behaviour of PageXml (every field of every
     document and live object is the one the implementation-shaped actions produce; guessed heights are
     taken from the record, they are unconstrained).  Progress = number of events matched.
   * PInit / PNext / PAccept  - property level: only the clauses of the statement (WrittenOK, RoundTripOK,
     HeldOK, fixpoint), evaluated with the operators of PageXml on the recorded values.  Progress = number
     of the first violated clause (see Clause below).  Only a rejection at this level is a VIOLATION. *)
EXTENDS PageXml, TraceKit
VARIABLES tid, pclause
Tr == Traces[tid]

\* ---------------------------------------------------------------- detailed level
SafeHts(regs, i, j) == IF i <= Len(regs) THEN (IF j <= Len(regs[i].lines) /\ Len(regs[i].lines[j].hts) = 2
                                                THEN regs[i].lines[j].hts ELSE <<0, 0>>)
                       ELSE <<0, 0>>
\* what the recorded document holds at position (i, j): used only for OffGrid heights
OgOf(D) == [i \in 1..Len(Sorted) |-> [j \in 1..Len(Sorted[i].lines) |-> SafeHts(D.regions, i, j)]]
\* the guess recorded for the line (i, j) of the document being loaded: matched by region id (the constructor re-orders)
RegIdx(regs, id) == IF \E r \in 1..Len(regs) : regs[r].id = id THEN CHOOSE r \in 1..Len(regs) : regs[r].id = id ELSE 0
GOf(Q, src) == [i \in 1..Len(src) |-> [j \in 1..Len(src[i].lines) |->
                  LET r == RegIdx(Q.regions, src[i].id) IN IF r = 0 THEN <<0, 0>> ELSE SafeHts(Q.regions, r, j)]]
GuessValid(Q, src) == \A i \in 1..Len(src) : \A j \in 1..Len(src[i].lines) :
                         src[i].lines[j].hts = <<>> => (ValidHt(GOf(Q, src)[i][j][1]) /\ ValidHt(GOf(Q, src)[i][j][2]))
OgValid(D) == \A i \in 1..Len(Sorted) : \A j \in 1..Len(Sorted[i].lines) :
                 OgOf(D)[i][j][1] >= 0 /\ OgOf(D)[i][j][2] >= 0

TInit == /\ tid \in 1..NTraces
         /\ page = Tr.page0 /\ pre = Tr.page0
         /\ doc = NoDoc /\ prevDoc = NoDoc /\ seen = NoDoc /\ step = 0 /\ how = "none" /\ pclause = 0

TNext == /\ UNCHANGED <<tid, pclause>>
         /\ Tr.outcome = "ok" /\ step < Len(Tr.events)
         /\ LET ev == Tr.events[step + 1]
            IN \/ /\ ev.a = "Export"
                  /\ OgValid(ev.doc)
                  /\ Export(ev.v, OgOf(ev.doc))
                  /\ doc' = ev.doc /\ page' = ev.page
                  /\ (step = 4) => (ev.hash = Tr.events[3].hash)        \* identical text, timestamps aside
               \/ /\ ev.a = "Load"
                  /\ IsPermIdx(ev.pm, Len(doc.regions))
                  /\ GuessValid(ev.page, Src(ev.pm))
                  /\ Load(ev.how, GOf(ev.page, Src(ev.pm)), ev.pm)
                  /\ page' = ev.page

TAccept == TKMark(tid, step, step = 5)
TPost == TKPost

\* ---------------------------------------------------------------- property level
E(n) == Tr.events[n]
\* the document as the n-th call (a Load) saw it: the one written by call n-1, regions re-ordered by pm
Seen(n) == LET D == E(n - 1).doc
               pm == E(n).pm
           IN IF IsPermIdx(pm, Len(D.regions)) THEN [D EXCEPT !.regions = [i \in 1..Len(D.regions) |-> D.regions[pm[i]]]] ELSE D
Shape == /\ Tr.outcome = "ok" /\ Len(Tr.events) = 5
         /\ E(1).a = "Export" /\ E(2).a = "Load" /\ E(3).a = "Export" /\ E(4).a = "Load" /\ E(5).a = "Export"
         /\ E(5).v = E(3).v
\* number of the first clause of the statement the execution violates, 0 when none
Clause ==
  IF ~Shape THEN 1                                                          \* the real code raised
  ELSE IF ~WrittenOK(Tr.page0, E(1).doc) THEN 2                             \* written in reading order (1st export)
  ELSE IF ~RoundTripOK(Tr.page0, Seen(2), E(2).page, E(2).how) THEN 3       \* load(export(p)) = p up to rounding
  ELSE IF E(2).how = "ctor" /\ ~HeldOK(Seen(2), E(2).page) THEN 4           \* held in reading order
  ELSE IF ~WrittenOK(E(2).page, E(3).doc) THEN 5
  ELSE IF ~RoundTripOK(E(2).page, Seen(4), E(4).page, E(4).how) THEN 6
  ELSE IF E(4).how = "ctor" /\ ~HeldOK(Seen(4), E(4).page) THEN 7
  ELSE IF ~WrittenOK(E(4).page, E(5).doc) THEN 8
  ELSE IF ~(E(5).doc = E(3).doc /\ E(5).hash = E(3).hash) THEN 9            \* fixpoint
  ELSE 0

PInit == /\ tid \in 1..NTraces
         /\ pclause = Clause
         /\ page = Tr.page0 /\ pre = Tr.page0
         /\ doc = NoDoc /\ prevDoc = NoDoc /\ seen = NoDoc /\ step = 0 /\ how = "none"
PNext == UNCHANGED <<vars, tid, pclause>>
PAccept == TKMark(tid, pclause, pclause = 0)

ASSUME TKReset
=============================================================================
