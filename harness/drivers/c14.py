"""C14 - confusion networks keep every hypothesis as an ordered path (DESIGN.md section 4, C14; Appendix A.9).

1. Design: TLC explores every addition history of the bounded shape on spec/ConfusionNet.tla (repaired pointer machine,
   every admissible pivot and optimal alignment) and proves the action property GrowOnly ("readable strings only grow", the
   new hypothesis is readable, existing positions gain exactly the score on one arc, no weight lost) and the invariants on
   normalisation / path enumeration / single hypothesis.  Self-tests: Legacy=TRUE (pointer not advanced after an append at the
   end) and SkipEmptyFirst=FALSE ('' added to the empty network) must both make TLC report a violation.
2. Cases: every history of the same bounds is replayed on the real add_hypothese / produce_cn_from_boh / normalize_cn /
   best_cn_path / sorted_cn_paths; the network after every addition is recorded.
3. Conformance: ConfusionNet_Trace!TNext accepts a recorded history iff every step satisfies the statement (StepOK) and the
   final clauses hold -> a rejection is a VIOLATION.  The same pass tracks whether every recorded network is also a result of the
   detailed pointer machine (AddResults); a property-satisfying history that leaves it is MODEL-DRIFT only.
4. History and scale (same trace format, same clauses, judged by TLC like every other history):
   - long-lived bags (cn_common.replay_reuse): ONE bag object grows and is exported after every add (in between: exports with
     another weight pair, normalised exports, an export that fails), then is re-ordered with its own sort() and exported again;
   - long-running process (cn_common.run_session): more than 1024 resp. more than 65 536 DISTINCT (network, hypothesis)
     additions in one process, two failing calls, then the same additions again - every recorded addition must satisfy the
     statement whatever the process did before.
   - interleaved reads (reads_cases): the caller LOOKS at the network between two additions - get_pivot, best_cn_path,
     sorted_cn_paths on the still unnormalised network, normalize_cn / sorted_cn_paths / add_hypothese on a deep copy - and goes on
     adding to the object it holds.  ConfusionNet_Trace!TRead: after every query the network is the network of the last addition
     (same arcs, same weights); the next addition is judged by the ordinary step clause on the raw weights.
"""
import random

from .. import cn_common as C

LEVEL = "model_checking"
INVS = ["LastReadable", "Balanced", "NormSumsToOne", "PathsComplete", "PathsSorted", "SingleReadsBack"]
PROPS = ["GrowOnly"]


def tla_constants(b, legacy=False, skip_empty_first=True):
    return {"Alphabet": set(range(1, b["alphabet"] + 1)), "MaxLen": b["maxlen"], "MaxAdds": b["adds"],
            "Scores": set(b["scores"]), "Legacy": legacy, "SkipEmptyFirst": skip_empty_first, "PathCols": b.get("pathcols", 6)}


def bounds(ctx):
    """one dict of bounds per configuration: the TLC constants and the replayed histories are both derived from it"""
    quick = [
        {"name": "len3-adds2", "alphabet": 2, "maxlen": 3, "adds": 2, "scores": [1, 2], "frac": 1.0},
        {"name": "len2-adds3", "alphabet": 2, "maxlen": 2, "adds": 3, "scores": [1, 2], "frac": 1.0},
        {"name": "len3-adds3", "alphabet": 2, "maxlen": 3, "adds": 3, "scores": [1], "frac": 1.0},
    ]
    if ctx.tier == "quick":
        return quick
    quick[2]["frac"] = 1.0
    return quick + [
        {"name": "len3-adds3-w", "alphabet": 2, "maxlen": 3, "adds": 3, "scores": [1, 2], "frac": 0.5},
        {"name": "abc-len2-adds3", "alphabet": 3, "maxlen": 2, "adds": 3, "scores": [1, 3], "frac": 0.5},
        {"name": "len2-adds4", "alphabet": 2, "maxlen": 2, "adds": 4, "scores": [1], "frac": 1.0},
        {"name": "len3-adds4", "alphabet": 2, "maxlen": 3, "adds": 4, "scores": [1], "frac": 0.25},
    ]


def boh_configs(ctx):
    """bags with and without LM scores, through produce_cn_from_boh (score = vis^vw * lm^lw)"""
    q = [{"name": "boh-nolm", "alphabet": 2, "maxlen": 2, "adds": 3, "vis": [1, 2], "lms": [0], "vw": 1, "lw": 1, "frac": 0.25},
         {"name": "boh-lm", "alphabet": 2, "maxlen": 2, "adds": 3, "vis": [1, 2], "lms": [1, 3], "vw": 1, "lw": 1, "frac": 0.06},
         {"name": "boh-mixed-w2", "alphabet": 2, "maxlen": 3, "adds": 2, "vis": [1, 2], "lms": [0, 2], "vw": 2, "lw": 1, "frac": 0.15}]
    if ctx.tier == "thorough":
        for c in q:
            c["frac"] = min(1.0, c["frac"] * 4)
        q.append({"name": "boh-lw0", "alphabet": 2, "maxlen": 2, "adds": 3, "vis": [1, 3], "lms": [2], "vw": 1, "lw": 0, "frac": 0.3})
    return q


def nbest_histories(ctx, n, rng=None):
    """seeded histories beyond the TLC bounds: 3-5 variants of one base string of length 3-5 over {a,b,c} (0-2 edits each: insertions
    at the start / middle / end, deletions, substitutions), scores 1-3 - the shape of an n-best list"""
    out = []
    if rng is not None:
        ctx = type("Rng", (), {"rng": rng})()
    for _ in range(n):
        k = ctx.rng.choice([2, 3])
        base = [ctx.rng.randint(1, k) for _ in range(ctx.rng.randint(3, 5))]
        hyps = []
        for _ in range(ctx.rng.randint(3, 5)):
            h = list(base)
            for _ in range(ctx.rng.choice([0, 1, 1, 2])):
                op = ctx.rng.choice(["ins", "ins", "del", "sub"])
                if op == "ins":
                    pos = ctx.rng.choice([0, len(h), ctx.rng.randint(0, len(h))])
                    h.insert(pos, ctx.rng.randint(1, k))
                elif h:
                    pos = ctx.rng.randrange(len(h))
                    if op == "del":
                        del h[pos]
                    else:
                        h[pos] = 1 + h[pos] % k
            hyps.append({"h": h, "vis": ctx.rng.randint(1, 3), "lm": 0})
        ctx.rng.shuffle(hyps)
        out.append({"mode": "add", "hyps": hyps, "vw": 1, "lw": 1})
    return out


def session_specs(ctx):
    """long-running processes: number of distinct (network, hypothesis) additions beyond 1024 / beyond 65 536 (the sizes at which a
    bounded table, a 10-bit or a 16-bit index run out); rec1 / rec2 = histories recorded (and validated) in pass 1 / pass 2"""
    quick = ctx.tier == "quick"
    return [{"name": "1452-distinct", "alphabet": 3, "maxlen": 4, "bases": 12, "base_lens": [2, 3, 4], "seed": ctx.seed * 7 + 1,
             "rec1": 60 if quick else 1452, "rec2": 400 if quick else 1000000, "head": 0.3},
            {"name": "70928-distinct", "alphabet": 4, "maxlen": 4, "bases": 208, "base_lens": [3, 4, 4, 5], "seed": ctx.seed * 7 + 2,
             "rec1": 30 if quick else 600, "rec2": 200 if quick else 3000, "head": 0.0625}]


READ_PATTERNS = 7


def _reads_plan(rng, k, n):
    """which queries after which of the n additions (pattern k); every pattern looks at the network at least once BEFORE a further
    addition, on a network that is not normalised"""
    ops = list(C.READERS)
    if k == 0:          # everything, after every addition
        return [list(ops) for _ in range(n)]
    if k == 1:          # one enumeration after the first addition only
        return [["sorted_cn_paths"]] + [[] for _ in range(n - 1)]
    if k == 2:
        return [["best_cn_path"] for _ in range(n)]
    if k == 3:
        return [["get_pivot"] for _ in range(n)]
    if k == 4:          # the paths after every addition but the last
        return [["sorted_cn_paths"] for _ in range(n - 1)] + [[]]
    if k == 5:          # what-if on copies
        return [["normalize_copy", "paths_of_normalized_copy", "add_on_copy"] for _ in range(n)]
    plan = [rng.sample(ops, rng.randint(0, 3)) for _ in range(n)]
    if not any(plan[:-1]):
        plan[0] = [rng.choice(ops)]
    return plan


def reads_cases(ctx, rng):
    """histories of the design bounds (first hypothesis not '': that history is the open known finding) and n-best-like ones, each
    with queries between the additions"""
    quick = ctx.tier == "quick"
    b = {"alphabet": 2, "maxlen": 2, "adds": 3, "scores": [1, 2]} if quick else {"alphabet": 2, "maxlen": 3, "adds": 3, "scores": [1, 2]}
    pool = [c for c in C.add_histories(b["alphabet"], b["maxlen"], b["adds"], b["scores"]) if len(c["hyps"][0]["h"]) > 0]
    cases = rng.sample(pool, min(len(pool), 280 if quick else 2400))
    cases += nbest_histories(ctx, 40 if quick else 400, rng=rng)
    for i, c in enumerate(cases):
        c["reads_plan"] = _reads_plan(rng, i % READ_PATTERNS, len(c["hyps"]))
    return cases


def _needs_sort(case):
    """a bag whose sort() changes the order; not one with '' in front before or after (that history is the open known finding)"""
    v = [h["vis"] for h in case["hyps"]]
    front = [h for h in case["hyps"] if h["vis"] == max(v)][0]
    return any(a < b for a, b in zip(v, v[1:])) and len(case["hyps"][0]["h"]) > 0 and len(front["h"]) > 0


def reuse_nbest(rng, n):
    """bags shaped like an n-best list with LM scores on some hypotheses, not in descending optical order; the transcripts of a
    bag are pairwise different (an n-best list holds no transcript twice; an export that first merges equal transcripts is a
    different chain of additions, on which the statement is silent beyond three short hypotheses)"""
    out = []
    while len(out) < n:
        base = [rng.randint(1, 3) for _ in range(rng.randint(2, 4))]
        hyps = []
        for _ in range(rng.randint(3, 4)):
            h = list(base)
            if rng.random() < 0.7:
                pos = rng.randint(0, len(h))
                if rng.random() < 0.5 or not h:
                    h.insert(pos, rng.randint(1, 3))
                else:
                    del h[min(pos, len(h) - 1)]
            if h not in [g["h"] for g in hyps]:
                hyps.append({"h": h, "vis": rng.randint(1, 3), "lm": rng.choice([0, 1, 2, 3])})
        case = {"mode": "boh", "hyps": hyps, "vw": 1, "lw": 1}
        if len(hyps) >= 3 and _needs_sort(case):
            out.append(case)
    return out


def _sample(ctx, cases, frac):
    if frac >= 1.0:
        return cases, True
    k = max(1, int(len(cases) * frac))
    return ctx.rng.sample(cases, k), False


RD = 10000       # progress = RD * matched queries + 10 * accepted additions + finished final stages (ConfusionNet_Trace!TAccept)


def _decode(tr, prog):
    """-> (accepted additions, finished final stages, the recorded query at which the validation stopped or None)"""
    rd, base = prog // RD, prog % RD
    step, stage = base // 10, base % 10
    reads = tr.get("reads") or []
    upto = sum(len(r) for r in reads[:step])
    if stage == 0 and 1 <= step <= len(reads) and rd < upto:
        here = reads[step - 1]
        return step, stage, here[rd - (upto - len(here))]
    return step, stage, None


def _read_sig(read):
    return "read:%s:%s" % (read["op"], "network-changed" if read["outcome"] == "ok" else read["outcome"])


def signature(tr, prog):
    """canonical class of a rejected history"""
    step, stage, read = _decode(tr, prog)
    n = len(tr["hyps"])
    if read is not None:
        return _read_sig(read)
    if step < n:
        if tr["outcome"][step] != "ok":
            return "add:%s" % tr["outcome"][step]
        if step >= 1 and all(len(h["h"]) == 0 for h in tr["hyps"][:step]):
            return "add:first-hypothesis-empty"
        return "add:step-rejected"
    return ["normalize", "paths", "single-hypothesis", "done"][stage]


def signature_of(tr, prog):
    """histories on long-lived objects / in a long-running process get their own class (the known finding keeps its signature:
    it is the same deviation wherever it shows)"""
    sig = signature(tr, prog)
    if sig == "add:first-hypothesis-empty":
        return sig
    if "session" in tr:
        return "long-running-process:pass%d:%s" % (tr["session"]["pass"], sig)
    if "reuse" in tr:
        return "long-lived-bag:%s:%s" % (tr["reuse"]["kind"], sig)
    if "reads_plan" in tr:
        return "interleaved-reads:" + sig
    return sig


def _context(tr):
    if "session" in tr:
        s = tr["session"]
        return ("[long-running process '%s': history %d of pass %d; before it the process executed %s distinct two-step histories%s] "
                % (s["spec"]["name"], s["index"], s["pass"], "the first %d" % s["index"] if s["pass"] == 1 else "all",
                   "" if s["pass"] == 1 else ", two failing calls and the histories of pass 2 before this one"))
    if "reuse" in tr:
        if tr["reuse"]["kind"] == "grow":
            return "[ONE long-lived bag: add, export, add, export ... with other exports (other weights, normalised, one failing) in between] "
        return ("[long-lived bag filled in the order %s, exported, re-ordered with sort(), exported again: last network and normalised "
                "network are exports of that bag, the networks before from fresh bags] "
                % [C.text_of(h["h"]) for h in tr["reuse"]["orig"]])
    if "reads_plan" in tr:
        return "[the caller looks at the network between the additions and goes on with the object it holds: queries %s] " % tr["reads_plan"]
    return ""


def signature_later(tr, prog):
    step, stage, read = _decode(tr, prog)
    if read is not None:
        return _read_sig(read)
    if step < len(tr["hyps"]):
        return "add:%s" % tr["outcome"][step] if tr["outcome"][step] != "ok" else "add:step-rejected"
    return ["normalize", "paths", "single-hypothesis", "done"][stage]


def describe(tr, prog):
    step, stage, read = _decode(tr, prog)
    n = len(tr["hyps"])
    hs = [(C.text_of(h["h"]), C.score_of(h, tr["vw"], tr["lw"])) for h in tr["hyps"]]
    if read is not None:
        return (_context(tr) + "history %s: after addition %d the network was %s; after the query %s (%s) the object the caller holds is %s - "
                "a query must leave the network as it is (the weights already added are rescaled / lost for the additions that follow)"
                % (hs, step, _show(tr["nets"][step - 1]), read["op"], read["outcome"], _show(read["net"])))
    if step < n:
        prev = tr["nets"][step - 1] if step else []
        return (_context(tr) + "addition %d of history %s (%s): network %s -> %s does not keep the readable strings / make the new hypothesis "
                "readable in order / add the score to exactly one arc of every old position / keep the columns balanced"
                % (step + 1, hs, tr["mode"], _show(prev), _show(tr["nets"][step]) if tr["outcome"][step] == "ok" else tr["outcome"][step]))
    what = ["normalize_cn: column sums / proportions", "sorted_cn_paths: not all arc combinations once, non-increasing, summing to 1",
            "network built from the single hypothesis does not read back", "?"][stage]
    return _context(tr) + "history %s (%s), final network %s: %s" % (hs, tr["mode"], _show(tr["nets"][-1]), what)


def _show(net):
    return "[" + ", ".join("{" + ", ".join("%s: %g" % ("eps" if a == 0 else C.LETTERS[a - 1] if a <= len(C.LETTERS) else "?", w / 1000.0)
                                           for a, w in col) + "}" for col in net) + "]"


DRIFT = 1000     # progress value of a history that satisfies the property but left the detailed model


def judge(ctx, consts, traces, label, shards=None):
    consts = dict(consts, KnownEmptyFirst=False)
    acc, rej = ctx.validate("ConfusionNet_Trace", traces, constants=consts, label="ConfusionNet_Trace " + label,
                            shards=shards or max(1, min(4, len(traces) // 1500)))
    # histories rejected at the open known finding are validated again with the deviation modelled as an action, so that the
    # rest of the history (later additions, normalisation, path enumeration) is still judged; what is rejected there is a
    # different violation and gets its own signature
    kf = [(i, p) for i, p in rej if p % RD != DRIFT and signature(traces[i], p) == "add:first-hypothesis-empty"]
    later = {}
    if kf:
        sub = [traces[i] for i, _ in kf]
        before = ctx.traces_validated
        _, rej2 = ctx.validate("ConfusionNet_Trace", sub, constants=dict(consts, KnownEmptyFirst=True),
                               label="ConfusionNet_Trace %s (known deviation modelled)" % label, shards=max(1, min(4, len(sub) // 1500)))
        ctx.traces_validated = before
        later = {kf[k][0]: p for k, p in rej2 if p % RD != DRIFT}
    drifted = {i for i, p in rej if p % RD == DRIFT}
    rejected = {i for i, p in rej if p % RD != DRIFT}
    ctx.traces_validated += len(drifted)        # property-level acceptance is what counts
    for i, tr in enumerate(traces):
        nontrivial = len(tr["nets"][-1]) > 1 and any(len(col) > 1 for col in tr["nets"][-1])
        ctx.count(1, (tr["mode"] + ("+reads" if "reads_plan" in tr else ""), tr["vw"], tr["lw"],
                      tuple((tuple(h["h"]), h["vis"], h["lm"]) for h in tr["hyps"])) if nontrivial else None)
    for i in sorted(drifted):
        ctx.model_drift("network differs from the modelled pointer machine (property holds)", 1, {"hyps": traces[i]["hyps"]})
    # one representative of every signature first (only the first violations are printed / stored)
    viol = [(idx, prog, signature_of(traces[idx], prog)) for idx, prog in rej if prog % RD != DRIFT]
    viol += [(idx, prog, "after-empty-first:" + signature_later(traces[idx], prog)) for idx, prog in sorted(later.items())]
    seen, first, rest = set(), [], []
    for v in viol:
        (first if v[2] not in seen else rest).append(v)
        seen.add(v[2])
    for idx, prog, sig in first + rest:
        tr = traces[idx]
        hist = {"mode": tr["mode"], "hyps": tr["hyps"], "vw": tr["vw"], "lw": tr["lw"]}
        hist.update({k: tr[k] for k in ("session", "reuse", "reads_plan") if k in tr})     # what replay() needs to rebuild the history before it
        ctx.violation({"history": hist, "constants": _plain(consts), "progress": prog, "trace": tr}, sig, describe(tr, prog))
        ctx.notes.setdefault("rejections_by_signature", {}).setdefault(sig, 0)
        ctx.notes["rejections_by_signature"][sig] += 1
    return [tr for i, tr in enumerate(traces) if i not in rejected and i not in drifted]


def _plain(consts):
    return {k: (sorted(v) if isinstance(v, (set, frozenset)) else v) for k, v in consts.items()}


def run(ctx):
    ctx.rule = ("every addition history of the bounded shape (strings over {a,b[,c]} up to length 2-3 including '', 2-4 additions, "
                "scores 1-3; bags with/without LM scores through produce_cn_from_boh) replayed on the real confusion-network functions; "
                "network after every addition validated by TLC; long-lived bags (grown, exported repeatedly, re-ordered with sort(), "
                "exported again) and long-running processes (> 1024 and > 65 536 distinct additions, failing calls, the same additions "
                "again; sampled) judged by the same clauses; histories in which the caller queries the network between the additions "
                "(get_pivot, best_cn_path, sorted_cn_paths; normalisation / enumeration / addition on a copy): the network must be the "
                "same after every query; non-trivial = final network has > 1 column and a column with > 1 arc")
    ctx.exhaustive = True
    ctx.assume("scores are small positive integers (weights exact in floating point); symbols are single characters",
               "reading: 'no weight is lost' = every position's weights sum to the total score added so far",
               "path enumeration checked for networks with <= %d arc combinations and denominator <= %d" % (C.MAX_PATHS, C.MAX_DEN),
               "sorted_cn_paths on the network without positions (only '' added) is not judged",
               "queries between additions: only their effect on the network the caller holds is judged (must be none), not what "
               "they return on a network that is not normalised")
    selftest_done = False
    for b in bounds(ctx):
        db = dict(b, adds=b.get("design_adds", b["adds"]))
        ctx.tlc("ConfusionNet", constants=tla_constants(db), invariants=INVS, properties=PROPS, workers=4, timeout=3000,
                label="ConfusionNet " + b["name"])
        cases = list(C.add_histories(b["alphabet"], b["maxlen"], b["adds"], b["scores"]))
        cases, full = _sample(ctx, cases, b["frac"])
        if not full or "design_adds" in b:
            ctx.exhaustive = False
        traces = C.run_histories(cases)
        consts = tla_constants(b, skip_empty_first=False)
        good = judge(ctx, consts, traces, b["name"])
        if not selftest_done and good:
            pick = [t for t in good if len(t["nets"][-1]) >= 2 and any(len(c) > 1 for c in t["nets"][-1])]
            if pick:
                def corrupt(tr):
                    col = tr["nets"][-1][0]
                    col[0][1] += 1000          # one arc of the first position gains one unit too much
                    return tr
                ctx.selftest_corrupt("ConfusionNet_Trace", pick[len(pick) // 2], corrupt, constants=dict(consts, KnownEmptyFirst=False))
                ctx.sample({"config": b["name"], "trace": pick[len(pick) // 2]}, limit=3)
                selftest_done = True
    # self-tests of the model: the two defects of the current tree must be visible to TLC
    b0 = {"alphabet": 2, "maxlen": 3, "adds": 2, "scores": [1]}
    # (the action property alone, so that it is "readable strings only grow" that TLC reports as violated)
    ctx.tlc("ConfusionNet", constants=tla_constants(b0, legacy=True), invariants=[], properties=PROPS, workers=2,
            expect_violation="GrowOnly", label="ConfusionNet Legacy=TRUE (self-test)")
    ctx.tlc("ConfusionNet", constants=tla_constants(b0, skip_empty_first=False), invariants=[], properties=PROPS, workers=2,
            expect_violation="GrowOnly", label="ConfusionNet SkipEmptyFirst=FALSE (self-test)")
    rrng = random.Random(ctx.seed * 31 + 14)          # own stream: the sampled cases of the other parts stay what they were
    reuse_cases = []
    for b in boh_configs(ctx):
        cases = list(C.boh_histories(b["alphabet"], b["maxlen"], b["adds"], b["vis"], b["lms"], b["vw"], b["lw"]))
        unsorted = [c for c in cases if _needs_sort(c)]
        reuse_cases += rrng.sample(unsorted, min(len(unsorted), 50 if ctx.tier == "quick" else 700))
        cases, full = _sample(ctx, cases, b["frac"])
        traces = C.run_histories(cases)
        consts = tla_constants({"alphabet": b["alphabet"], "maxlen": b["maxlen"], "adds": b["adds"], "scores": [1]}, skip_empty_first=False)
        good = judge(ctx, consts, traces, b["name"])
        if good:
            ctx.sample({"config": b["name"], "trace": good[len(good) // 2]}, limit=5)
    # n-best-like histories beyond the TLC bounds (property level only: conformance without a design run of that size)
    nb = nbest_histories(ctx, 100 if ctx.tier == "quick" else 1500)
    traces = [t for t in C.run_histories(nb) if max(len(n) for n in t["nets"]) <= 9]
    good = judge(ctx, tla_constants({"alphabet": 3, "maxlen": 7, "adds": 5, "scores": [1, 2, 3]}, skip_empty_first=False), traces,
                 "n-best-like histories (strings up to 7, up to 5 additions)")
    if good:
        ctx.sample({"config": "n-best", "trace": good[len(good) // 2]}, limit=6)
    ctx.notes["nbest_histories"] = len(traces)
    # history and scale: long-lived bags (grown, exported repeatedly, re-ordered, exported again) and long-running processes
    # (more distinct additions than 1024 / 65 536, failing calls, then the same additions again) - ordinary traces, ordinary clauses
    reuse_cases += reuse_nbest(rrng, 30 if ctx.tier == "quick" else 400)
    rtraces = [t for t in C.run_reuse(reuse_cases) if max(len(n) for n in t["nets"]) <= 9]
    specs = session_specs(ctx)
    straces = C.run_sessions(specs)
    # the caller looks at the network between two additions (own random stream again)
    itraces = [t for t in C.run_histories(reads_cases(ctx, random.Random(ctx.seed * 37 + 9))) if max(len(n) for n in t["nets"]) <= 9]
    hl_consts = tla_constants({"alphabet": 4, "maxlen": 7, "adds": 5, "scores": [1, 2, 3]}, skip_empty_first=False)
    good = judge(ctx, hl_consts, rtraces + straces + itraces, "long-lived bags, long-running processes, interleaved reads", shards=4)
    pick = [t for t in good if "reads_plan" in t and len(t["reads"][0]) > 0 and len(t["nets"][0]) > 0]
    if pick:
        def corrupt_read(tr):
            tr["reads"][0][0]["net"][0][0][1] += 500      # the first query leaves one arc of the first position half a unit heavier
            return tr
        ctx.selftest_corrupt("ConfusionNet_Trace", pick[len(pick) // 2], corrupt_read, constants=dict(hl_consts, KnownEmptyFirst=False))
        ctx.sample({"config": "interleaved reads", "trace": pick[len(pick) // 2]}, limit=8)
    ctx.notes["interleaved_reads"] = {"histories": len(itraces), "queries": sum(len(r) for t in itraces for r in t["reads"]),
                                      "by_op": {op: sum(1 for t in itraces for r in t["reads"] for q in r if q["op"] == op) for op in C.READERS}}
    for kind in ("reuse", "session"):
        pick = [t for t in good if kind in t and (kind == "reuse" and t["reuse"]["kind"] == "resort" or kind == "session" and t["session"]["pass"] == 2)]
        if pick:
            ctx.sample({"config": "long-lived bag (resort)" if kind == "reuse" else "long-running process (pass 2)",
                        "trace": pick[len(pick) // 2]}, limit=8)
    ctx.notes["long_lived_bag_traces"] = {k: sum(1 for t in rtraces if t["reuse"]["kind"] == k) for k in ("grow", "resort")}
    ctx.notes["long_running_sessions"] = [{"name": sp["name"], "distinct_histories_executed": len(C.session_pairs(sp)),
                                           "recorded_pass1": sum(1 for t in straces if t["session"]["spec"]["name"] == sp["name"] and t["session"]["pass"] == 1),
                                           "recorded_pass2": sum(1 for t in straces if t["session"]["spec"]["name"] == sp["name"] and t["session"]["pass"] == 2)}
                                          for sp in specs]
    ctx.assume("long-running process: in the sessions only a sample of the histories is recorded and validated (the others "
               "are executed, exceptions among them are recorded); bags are re-ordered only through their own sort()")
    ctx.notes["explanation"] = ("TLC exhaustive on ConfusionNet per bounds (action property GrowOnly + invariants %s), two must-violate "
                                "self-tests (Legacy, SkipEmptyFirst=FALSE); histories replayed on pero_ocr.decoding.confusion_networks and "
                                "validated step by step by ConfusionNet_Trace (property level = verdict, detailed level = drift)" % INVS)


def replay(ctx, case):
    hist = case["history"]
    if "session" in hist:       # the history of the process before this addition is part of the case: executed again, in this process
        s = hist["session"]
        tr = C.run_session(s["spec"], only=(s["pass"], s["index"]))[0]
    elif "reuse" in hist:       # the long-lived bag is built up again from the order in which it was filled
        kind = hist["reuse"]["kind"]
        trs = [t for t in C.replay_reuse(dict(hist, hyps=hist["reuse"]["orig"])) if t["reuse"]["kind"] == kind]
        if not trs:
            ctx.notes["replay"] = "the '%s' trace could not be rebuilt (sort() / iteration of the bag not available)" % kind
            return
        tr = trs[0]
    else:
        tr = C.replay_history(hist)
    consts = dict(case["constants"])
    for k in ("Alphabet", "Scores"):
        consts[k] = set(consts[k])
    judge(ctx, consts, [tr], "replay")
