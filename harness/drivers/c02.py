"""C02 - CTC prefix beam search never over-counts and is exact when unpruned (DESIGN.md section 4, C02).

1. TLC proves on spec/CtcDecoder.tla, for every matrix of the bounded shape, NoOverCount / ExactUnpruned /
   RejectOnly (the exact CTC forward algorithm is the oracle).
2. Every matrix of the same space is decoded by the real decoder (beam after each frame) and TLC validates each
   recorded execution against CtcDecoder_Trace: the statement pins the algorithm ("exactly frame-synchronous
   prefix beam search keeping the k best"), so the implementation-shaped module is the acceptance condition.
3. Histories: consecutive calls that hand the decoder the SAME long-lived array object (edited in place between calls, retried
   after a caught rejection, after calls with the tolerance switched off / of the greedy decoder) through two long-lived decoder
   instances; every judged call is a "final_only" trace of CtcDecoder_Trace, judged by TLC for the matrix the array holds at
   that call (the specification has no state across calls).
"""
import math

import numpy as np

from .. import ctc_common as C

LEVEL = "model_checking"


def configs(ctx):
    q = [C.base_cfg(K=1), C.base_cfg(K=2), C.base_cfg(K=2, selector="thr1"), C.base_cfg(K=3, selector="all"),
         C.base_cfg(K=100),
         # a non-pruning selector on matrices whose weight-1 entries are rendered as probabilities of 1e-6: what the DEFAULT
         # selector would prune must still be expanded (the set of returned transcripts is that of the unpruned search)
         C.base_cfg(K=100, selector="all", tiny=True)]
    if ctx.tier == "quick":
        return q
    return q + [C.base_cfg(K=100, selector="thr1"), C.base_cfg(K=4, selector="thr1"),
                C.base_cfg(T=4, K=2), C.base_cfg(T=4, K=3, selector="thr1"), C.base_cfg(T=4, K=100),
                C.base_cfg(T=3, D=5, K=2), C.base_cfg(T=3, D=5, K=100, selector="all"),
                C.base_cfg(T=3, NC=3, D=3, K=2), C.base_cfg(T=3, NC=3, D=3, K=4), C.base_cfg(T=3, NC=3, D=3, K=100),
                C.base_cfg(T=5, NC=2, D=2, K=2), C.base_cfg(T=5, NC=2, D=2, K=100),
                C.base_cfg(T=4, K=100, selector="all", tiny=True), C.base_cfg(T=3, NC=3, D=3, K=100, selector="all", tiny=True)]


INVS = ["NoOverCount", "ExactUnpruned", "RejectOnly"]


def sampled_matrices(ctx, cfg, n):
    rows = C.rows_of(cfg["NC"], cfg["D"])
    return [tuple(ctx.rng.choice(rows) for _ in range(cfg["T"])) for _ in range(n)]


def check_config(ctx, cfg, sample=None):
    """sample = None: the shape is explored exhaustively by TLC and every matrix is decoded; sample = n: the shape is beyond
    exhaustive reach - n seeded random matrices are the initial states of the TLC run and are decoded by the real decoder"""
    consts = C.tla_constants(cfg)
    if sample is None:
        ctx.tlc("CtcDecoder", constants=consts, invariants=INVS, workers=8, timeout=3000, label="CtcDecoder %s" % _lab(cfg))
        mats = list(C.all_matrices(cfg["T"], cfg["NC"], cfg["D"], normalised=not cfg.get("Unnorm")))
    else:
        mats = sampled_matrices(ctx, cfg, sample)
        lit = "{" + ", ".join("<<" + ", ".join("(" + " @@ ".join("%d :> %d" % (c, r[c]) for c in range(len(r))) + ")" for r in m) + ">>"
                              for m in sorted(set(mats))) + "}"
        mc = "---- MODULE MC_CtcSample ----\nEXTENDS CtcDecoder\nMCSample == %s\n====\n" % lit
        ctx.tlc("MC_CtcSample", constants=dict(consts, SampleMats="<-MCSample"), invariants=INVS, workers=8, timeout=3000,
                files={"MC_CtcSample.tla": mc}, label="CtcDecoder %s (%d sampled matrices)" % (_lab(cfg), len(set(mats))))
        ctx.exhaustive = False
    cfg = dict(cfg, salt=ctx.seed)
    traces = C.run_config(cfg, mats)
    judge(ctx, cfg, traces)


def judge(ctx, cfg, traces):
    consts = C.tla_constants(cfg)
    acc, rej = ctx.validate("CtcDecoder_Trace", traces, constants=consts, label="CtcDecoder_Trace %s" % _lab(cfg))
    for tr in traces:
        ctx.count(1, (tuple(map(tuple, tr["mat"])), _lab(cfg)) if len(tr["frames"]) and len(tr["frames"][-1]) > 1 else None)
    ctx.sample({"config": _lab(cfg), "trace": traces[len(traces) // 2]}, limit=4)
    if not rej and "selftest_corrupted_trace_rejected" not in ctx.notes and traces[len(traces) // 2]["outcome"] == "ok":
        def corrupt(tr):
            tr["frames"][-1][0]["s"] += 1000      # credit the first hypothesis with one more unit of mass
            if tr.get("support"):                  # only the transcripts are compared there: drop one of them
                tr["frames"][-1] = tr["frames"][-1][1:] or [{"p": [1] * (cfg["T"] + 1), "s": 0, "l": 1000}]
            return tr
        ctx.selftest_corrupt("CtcDecoder_Trace", traces[len(traces) // 2], corrupt, constants=consts)
    for idx, prog in rej:
        tr = traces[idx]
        what = C.first_bad_clause(tr, prog, cfg)
        sig = "outcome" if tr["outcome"] != "ok" else ("frame" if prog < cfg["T"] else "final-bag")
        ctx.violation({"cfg": cfg, "trace": tr, "progress": prog}, sig, "%s; config %s, matrix %s" % (what, _lab(cfg), tr["mat"]))


def _lab(cfg):
    return "T=%d NC=%d D=%d K=%d sel=%s%s" % (cfg["T"], cfg["NC"], cfg["D"], cfg["K"], cfg["selector"],
                                             (" unnorm" if cfg.get("Unnorm") else "") + (" tiny" if cfg.get("tiny") else ""))


# ---- histories on long-lived objects ------------------------------------------------------------------------------------------
# The statement is about EVERY call ("for every ... matrix ...; unnormalised input is rejected rather than decoded"), and the
# specification has no state across calls: CtcDecoder.Init always starts from the lone empty prefix and binds the matrix as it
# is when the call is made.  The cases above hand the decoder a fresh array object per call.  A history drives consecutive
# calls through the SAME long-lived objects instead - the way a caller keeps a line buffer and a decoder around:
#   * one float64 array per shape, kept for the whole run and edited in place between calls (valid -> unnormalised -> valid ...);
#   * the same array handed over again unchanged (retry after the ValueError of a rejection was caught), also to a second
#     long-lived decoder instance (same letters / beam width / selector);
#   * calls whose result is not judged in between: the beam decoder with max_unnormalization=inf (may decode garbage or raise
#     half-way), the greedy decoder of the same module.
# Nothing may come between two calls of a history, so the beams after the earlier frames cannot be observed by prefix decodes:
# the traces are of the kind "final_only" (see CtcDecoder_Trace: only the returned bag / the rejection is matched, the
# intermediate Frame steps are TLC's).  Every judged call is one trace, judged for the matrix the array holds at that call.
_JUDGED = ("beam", "beam2")


def _is_normalised(mat, d):
    return all(sum(r) == d for r in mat)


def unit_histories(ctx, cfg):
    """every unnormalised matrix u of the shape meets, with seeded valid matrices v, w of the same shape:
    A  decode v; write u in place, decode (must reject); retry unchanged; retry on the second decoder; write w, decode
    B  write u, lenient call (not judged); decode (must reject); greedy call (not judged); decode again (must reject);
       write v, greedy call (not judged); write u, decode (must reject); write w, decode"""
    t_, nc, d = cfg["T"], cfg["NC"], cfg["D"]
    valid = [m for m in C.all_matrices(t_, nc, d)]
    out = []
    for u in C.all_matrices(t_, nc, d, normalised=False):
        if _is_normalised(u, d):
            continue
        v, w = ctx.rng.choice(valid), ctx.rng.choice(valid)
        out.append([{"call": "beam", "mat": v}, {"call": "beam", "mat": u}, {"call": "beam"}, {"call": "beam2"},
                    {"call": "beam", "mat": w}])
        out.append([{"call": "lenient", "mat": u}, {"call": "beam"}, {"call": "greedy"}, {"call": "beam2"},
                    {"call": "greedy", "mat": v}, {"call": "beam", "mat": u}, {"call": "beam", "mat": w}])
    return out


def sampled_histories(ctx, cfg, n, steps=6):
    """seeded histories for a shape whose unnormalised matrices cannot be enumerated: valid matrices follow one another in the
    same array (a stale answer about what the array held before is a mismatch of the bag), about a third of the writes put an
    unnormalised neighbour (one weight moved up or down by one unit) which must be rejected, also when retried"""
    rows = C.rows_of(cfg["NC"], cfg["D"])
    out = []
    for _ in range(n):
        h = []
        for _ in range(steps):
            m = [list(ctx.rng.choice(rows)) for _ in range(cfg["T"])]
            r = ctx.rng.random()
            if r < 0.35:
                i, c = ctx.rng.randrange(cfg["T"]), ctx.rng.randrange(cfg["NC"] + 1)
                m[i][c] += 1 if (m[i][c] == 0 or ctx.rng.random() < 0.5) else -1
            h.append({"call": ctx.rng.choice(["beam", "beam", "beam2"]), "mat": m})
            if r < 0.35:
                h.append({"call": ctx.rng.choice(["beam", "beam2", "lenient", "greedy"])})
                h.append({"call": ctx.rng.choice(["beam", "beam2"])})
            elif r < 0.5:
                h.append({"call": ctx.rng.choice(["beam", "beam2"])})      # a valid line decoded twice: same bag
        out.append(h)
    return out


class _Lived:
    """the objects that live as long as the run (per shape / decoder configuration)"""

    def __init__(self, cfg):
        letters = [chr(97 + i) for i in range(cfg["NC"])] + [C.BLANK_SYMBOL]
        kw = {}
        sel = C.selector(cfg["selector"], cfg["D"])
        if sel is not None:
            kw["relevant_logits_selector"] = sel
        self.arr = np.zeros((cfg["T"], cfg["NC"] + 1), dtype=float)
        self.beam = C.CTCPrefixLogRawNumpyDecoder(letters, cfg["K"], **kw)
        self.beam2 = C.CTCPrefixLogRawNumpyDecoder(letters, cfg["K"], **kw)
        from pero_ocr.decoding import decoders
        greedy = getattr(decoders, "GreedyDecoder", None)
        self.greedy = greedy(letters) if greedy is not None else None


def _observe(dec, arr, mat, cfg):
    t_, d = cfg["T"], cfg["D"]
    rec = {"mat": [list(r) for r in mat], "frames": [[] for _ in range(t_ - 1)], "outcome": "ok", "best": [], "confset": [],
           "has_h": False, "hret": [], "support": False, "final_only": True}
    try:
        with np.errstate(divide="ignore", invalid="ignore", over="ignore"):
            boh = dec(arr)
            rec["frames"].append([{"p": [ord(ch) - 96 for ch in h.transcript], "s": C._milli(math.exp(h.vis_sc) * d ** t_),
                                   "l": C._milli(1.0)} for h in boh])
            rec["best"] = [ord(ch) - 96 for ch in boh.best_hyp()]
            conf = boh.confidence()
            rec["confset"] = [[ord(ch) - 96 for ch in h.transcript] for h, p in zip(boh, boh.posteriors())
                              if abs(math.exp(p) - conf) <= 1e-9]
    except ValueError as ex:
        rec["outcome"] = "rejected" if "normalized" in str(ex) else "exception:ValueError"
    except Exception as ex:      # any failure of the real code is part of the observation
        rec["outcome"] = "exception:" + type(ex).__name__
    if rec["outcome"] != "ok":
        rec["frames"] = []
    return rec


def run_history(lived, cfg, steps):
    """executes the calls of one history back to back on the long-lived objects; returns [(step number, trace)] of the judged calls"""
    nc, d = cfg["NC"], cfg["D"]
    out, mat = [], None
    for j, st in enumerate(steps):
        if "mat" in st:
            mat = [list(r) for r in st["mat"]]
            with np.errstate(divide="ignore"):
                lived.arr[...] = np.log(np.array([[r[ch] for ch in range(1, nc + 1)] + [r[0]] for r in mat], dtype=float) / d)
        if st["call"] in _JUDGED:
            out.append((j, _observe(getattr(lived, st["call"]), lived.arr, mat, cfg)))
            continue
        try:                     # a call in between whose own result the check does not judge; it may fail
            with np.errstate(all="ignore"):
                if st["call"] == "lenient":
                    lived.beam(lived.arr, max_unnormalization=float("inf"))
                elif st["call"] == "greedy" and lived.greedy is not None:
                    lived.greedy(lived.arr)
        except Exception:
            pass
    return out


def check_histories(ctx, cfg, hists, lived=None):
    cfg = dict(cfg)
    lived = lived or _Lived(cfg)
    traces, origin = [], []
    for n, h in enumerate(hists):
        for j, tr in run_history(lived, cfg, h):
            traces.append(tr)
            origin.append((n, j))
    consts = C.tla_constants(cfg)
    acc, rej = ctx.validate("CtcDecoder_Trace", traces, constants=consts, shards=max(1, min(4, len(traces) // 200)),
                            label="CtcDecoder_Trace histories %s" % _lab(cfg))
    for tr, (n, j) in zip(traces, origin):
        ctx.count(1, ("history", _lab(cfg), n, j) if j > 0 else None)
    if traces:
        ctx.sample({"config": _lab(cfg), "history": hists[origin[len(traces) // 2][0]], "trace": traces[len(traces) // 2]}, limit=6)
    if not rej and "history_selftest" not in ctx.notes:
        good = next((tr for tr in traces if tr["outcome"] == "ok" and tr["frames"][-1]), None)
        if good is not None:
            def corrupt(tr):
                tr["frames"][-1][0]["s"] += 1000
                return tr
            ctx.selftest_corrupt("CtcDecoder_Trace", good, corrupt, constants=consts)
            ctx.notes["history_selftest"] = "final_only trace with one unit of mass added to a hypothesis: rejected"
    for idx, prog in rej:
        tr = traces[idx]
        n, j = origin[idx]
        normal = _is_normalised(tr["mat"], cfg["D"])
        if tr["outcome"] == "ok" and not normal:
            sig, what = "history/decoded-unnormalised", "an unnormalised matrix was decoded instead of rejected"
        elif tr["outcome"] == "rejected" and normal:
            sig, what = "history/rejected-normalised", "a row-normalised matrix was rejected"
        elif tr["outcome"] != "ok":
            sig, what = "history/outcome", "outcome=%s not allowed by the specification" % tr["outcome"]
        else:
            sig, what = "history/final-bag", ("the returned bag is not that of prefix beam search on the matrix the array holds at "
                                              "this call (transcripts distinct / mass per transcript / best_hyp / confidence)")
        calls = ["%s%s" % (s["call"], "(written in place)" if "mat" in s else "(array unchanged)") for s in hists[n][:j + 1]]
        ctx.violation({"kind": "history", "cfg": cfg, "history": hists[n], "before": hists[n - 1] if n else [], "step": j,
                       "trace": tr, "progress": prog}, sig,
                      "%s; call %d of a history of consecutive calls on the same array object and long-lived decoders [%s]; "
                      "config %s, matrix at this call %s" % (what, j + 1, ", ".join(calls), _lab(cfg), tr["mat"]))


def run(ctx):
    ctx.rule = ("every row-normalised T x (NC+1) matrix with weights k/D, decoded by the real decoder for each beam width/"
                "selector config; beam after every frame validated by TLC against CtcDecoder; non-trivial = final beam "
                "holds more than one hypothesis")
    ctx.exhaustive = True
    ctx.assume("weights are multiples of 1/D (D <= 5), T <= 5, at most 3 characters",
               "float round-off of the real decoder < 5e-4 of one unit of D^-t (masses are compared after rounding to 1/1000 unit)")
    for cfg in configs(ctx):
        check_config(ctx, cfg)
    if ctx.tier == "thorough":
        # shapes beyond exhaustive reach: TLC simulation on the design + seeded random matrices through the real decoder
        for cfg, n in ((C.base_cfg(T=6, NC=2, D=4, K=2), 3000), (C.base_cfg(T=6, NC=2, D=4, K=100), 1500),
                       (C.base_cfg(T=6, NC=3, D=3, K=3), 2000), (C.base_cfg(T=8, NC=2, D=3, K=2), 1500)):
            check_config(ctx, cfg, sample=n)
    # normalisation guard: every matrix over 0..2 weights, normalised or not
    un = C.base_cfg(T=2, NC=2 if ctx.tier == "thorough" else 1, D=2, K=2, Unnorm=True)
    check_config(ctx, un)
    # histories: the same array object edited in place / retried, long-lived decoder instances, unjudged calls in between
    ctx.assume("histories: at most 8 consecutive calls on one array object and two beam decoder instances per history; every "
               "unnormalised matrix of the T=2 shape, seeded samples of the T=3 shape (ctx.exhaustive refers to the matrices, "
               "not to the histories)")
    check_histories(ctx, un, unit_histories(ctx, un))
    for cfg, n in ((C.base_cfg(K=2), 60), (C.base_cfg(K=100, selector="all"), 40)) if ctx.tier == "quick" else \
            ((C.base_cfg(K=2), 400), (C.base_cfg(K=100, selector="all"), 300), (C.base_cfg(K=3, selector="thr1"), 300),
             (C.base_cfg(T=4, K=2), 300)):
        check_histories(ctx, cfg, sampled_histories(ctx, cfg, n))
    ctx.notes["explanation"] = ("TLC exhaustive on CtcDecoder per config (invariants %s); every matrix of each config decoded by "
                                "pero_ocr.decoding.decoders.CTCPrefixLogRawNumpyDecoder and validated by CtcDecoder_Trace; histories of "
                                "consecutive calls on one array object edited in place / retried after a rejection, two long-lived "
                                "decoder instances: every judged call validated as a final_only trace" % INVS)


def replay(ctx, case):
    cfg = case["cfg"]
    if case.get("kind") == "history":
        # the history before it on the same objects (if any), then the history itself; every judged call is judged again
        check_histories(ctx, cfg, [h for h in (case.get("before"), case["history"]) if h])
        return
    mats = [tuple(tuple(r) for r in case["trace"]["mat"])]
    traces = C.run_config(cfg, mats)
    judge(ctx, cfg, traces)
