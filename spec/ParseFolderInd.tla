--------------------------- MODULE ParseFolderInd ---------------------------
(* Unbounded counterpart of ParseFolder.tla for C17, written for Apalache: ONE arbitrary page of a batch of any size, any
   number of line crops (NL), any subset of single-file outputs (K of them, the first Kc of which are consulted by
   --skip-processed), any number of kills and resumes.  The other pages only ever touch their own files (the input
   precondition ASSUMEd in ParseFolder.tla), so their steps are stuttering steps here.

   The files of the page are written in a fixed order, so what is on disk is summarised by
       n = number of files of the page present          (PrefixOnDisk in ParseFolder.tla: they form a prefix of the write order)
   Repaired order: the NL crops first, then the K single files (the completion markers).  LegacyOrder: markers first.
   The tool believes the page done when all consulted markers are present.

   IndInv is inductive (apalache-mc: Init => IndInv, IndInv /\ Next => IndInv' from an arbitrary IndInv state), hence for ANY
   history of kills and resumes: a page the tool skips has every output; a finished process leaves every output of the page
   present; with at least one single-file output requested, a complete page is never processed again (K = 0 is the open
   finding 'redo-complete:kinds={lines}').  With LegacyOrder = TRUE or Kc < K (ALTO folder not consulted) the step fails.
   ParseFolder.tla carries the refinement mapping (AbsPage(p) == INSTANCE ParseFolderInd ...), checked by TLC for every page of
   its bounded configurations.

     apalache-mc check --cinit=CInitRepaired --init=IndInit --inv=IndInv --length=1 ParseFolderInd.tla
     apalache-mc check --cinit=CInitRepaired --init=Init    --inv=IndInv --length=0 ParseFolderInd.tla                    *)
EXTENDS Integers

CONSTANTS
    \* @type: Int;
    NL,
    \* @type: Int;
    K,
    \* @type: Int;
    Kc,
    \* @type: Bool;
    LegacyOrder

VARIABLES
    \* @type: Int;
    n,
    \* @type: Str;
    phase,
    \* @type: Str;
    mine,
    \* @type: Int;
    w,
    \* @type: Bool;
    skippedIncomplete,
    \* @type: Bool;
    redoneComplete

vars == <<n, phase, mine, w, skippedIncomplete, redoneComplete>>

CInitRepaired == NL \in Nat /\ K \in 0..4 /\ Kc = K /\ LegacyOrder = FALSE /\ NL + K >= 1
CInitLegacyOrder == NL \in Nat /\ NL >= 1 /\ K \in 1..4 /\ Kc = K /\ LegacyOrder = TRUE
CInitAltoNotConsulted == NL \in Nat /\ K \in 2..4 /\ Kc = K - 1 /\ LegacyOrder = FALSE

N == NL + K
\* all consulted markers present (no consulted marker: the tool never believes a page done)
Believed == IF Kc = 0 THEN FALSE
            ELSE IF LegacyOrder THEN n >= Kc ELSE n >= NL + Kc

Init == /\ n = 0 /\ phase = "idle" /\ mine = "out" /\ w = 0
        /\ skippedIncomplete = FALSE /\ redoneComplete = FALSE

StartRun == /\ phase = "idle" /\ phase' = "running"
            /\ mine' \in {"todo", "current", "out"}
            /\ Believed <=> (mine' = "out")
            /\ w' = 0
            /\ skippedIncomplete' = (skippedIncomplete \/ (Believed /\ n < N))
            /\ redoneComplete' = (redoneComplete \/ (~Believed /\ n = N))
            /\ UNCHANGED n

\* the page becomes the head of the to-do list (the previous page's last write popped it)
Begin == /\ phase = "running" /\ mine = "todo"
         /\ mine' = "current" /\ w' = 0
         /\ UNCHANGED <<n, phase, skippedIncomplete, redoneComplete>>

Write == /\ phase = "running" /\ mine = "current" /\ w < N
         /\ w' = (IF w + 1 = N THEN 0 ELSE w + 1)
         /\ n' = (IF w + 1 > n THEN w + 1 ELSE n)
         /\ mine' = (IF w + 1 = N THEN "out" ELSE "current")
         /\ UNCHANGED <<phase, skippedIncomplete, redoneComplete>>

Finish == /\ phase = "running" /\ mine = "out"
          /\ phase' = "done"
          /\ UNCHANGED <<n, mine, w, skippedIncomplete, redoneComplete>>

Crash == /\ phase = "running"
         /\ phase' = "idle" /\ mine' = "out" /\ w' = 0
         /\ UNCHANGED <<n, skippedIncomplete, redoneComplete>>

Next == StartRun \/ Begin \/ Write \/ Finish \/ Crash
Spec == Init /\ [][Next]_vars

\* C17: a process that ended by itself leaves every output of the page present
AllOutputsAfterCleanRun == (phase = "done") => n = N
NeverSkipIncomplete == ~skippedIncomplete
NeverRedoComplete == (K >= 1) => ~redoneComplete

IndInv == /\ n >= 0 /\ n <= N /\ w >= 0
          /\ phase \in {"idle", "running", "done"} /\ mine \in {"todo", "current", "out"}
          /\ (phase # "running") => mine = "out"
          /\ (phase = "running" /\ mine = "current") => (w <= n /\ w < N)
          /\ (phase # "idle" /\ mine = "out") => n = N
          /\ AllOutputsAfterCleanRun /\ NeverSkipIncomplete /\ NeverRedoComplete

IndInit == /\ n \in Int /\ w \in Int
           /\ phase \in {"idle", "running", "done"} /\ mine \in {"todo", "current", "out"}
           /\ skippedIncomplete \in BOOLEAN /\ redoneComplete \in BOOLEAN
           /\ IndInv
=============================================================================
