"""C19 - engine merging keeps, per line, the most confident engine's result (DESIGN.md section 4 C19, Appendix A.16, Appendix D).

1. Design: TLC checks spec/EngineMerge.tla (one Scan per engine and line with the running threshold and strict '>', NextLine,
   Remerge for idempotence) for every assignment of confidence levels (none / exactly 0 / positive levels with ties) to
   NEngines x NLines: winner = first arg-max when the maximum is positive (three fields + recorded confidence from that engine),
   nothing copied otherwise, the three fields always from one engine, second merge changes nothing.  Seeded in-model defects
   (>=, logits without characters, compare sums) must violate; 'initial threshold -1' violates only the strict invariant and is
   accepted by the permissive one (reading decision of Appendix D).
2. Cases: every level assignment of the TLC run is realised as real PageLayouts whose logits realise the mean confidences exactly
   (transformer-style one-row-per-character matrices, CTC-style matrices going through align_text incl. a clipped 0.0, and an
   unalignable line that takes the 0.5 fallback of get_confidences), engines with different character tables; the real
   merge_ocr_results.merge_layouts is called (twice), also on [p, p] and [p, deepcopy(p)].
3. Conformance: TLC judges every execution in EngineMerge_Trace with the operator Accepts of the design module.
4. History: incremental merging with ONE long-lived result layout (design: Chain = TRUE, invariants ChainCorrect / ChainStepAccepted /
   ChainEqualsOneShot; seeded in-model defect stale_conf).  The same layout objects go through a whole plan of calls (result + next
   engine, an engine handed over again, the result with itself, the whole tuple, the result in second position, a single-layout
   tuple), some of them after a call on a tuple outside the scope that fails half-way and after the caller scored the result's lines
   itself.  Every call is judged by TLC (AcceptsOn) against what its slots held when it was made - measured on FRESH line objects
   with the same transcription / logits / character table - and the final result against the original engines.
5. Scale: character tables of 300 .. 70 000 symbols with the transcriptions' symbols stored behind position 255 / 1 023 / 32 767 /
   65 535, lines of up to 1 100 characters; same clauses plus the order of the exact means the logits were built for (clause 6).
"""
import contextlib
import copy
import importlib.util
import io
import itertools
import os

import numpy as np
import scipy.sparse as sp

from ..core import pmap, REPO

LEVEL = "model_checking"
INVS = ["Correct", "CorrectPermissive", "SameEngine", "Idempotent"]
D = 8
# character tables: engines 1, 3, 4 share the column structure (bitwise equal confidences for equal realisations = exact ties with
# different content), engine 2 has a permuted table with an extra character (round-off may differ in the last bit)
TABLES = {1: ["a", "b", "z", "~"], 2: ["z", "d", "c", "x", "~"], 3: ["e", "f", "z", "~"], 4: ["g", "h", "z", "~"]}
LETTERS = {1: "ab", 2: "cd", 3: "ef", 4: "gh"}
# "agreeing engines": every engine transcribes the same text (the common case in practice) over its own, differently ordered table
TABLES_AGREE = {1: ["a", "b", "z", "~"], 2: ["z", "b", "a", "x", "~"], 3: ["b", "a", "z", "~"], 4: ["a", "z", "b", "~"]}
LETTERS_AGREE = {1: "ab", 2: "ab", 3: "ab", 4: "ab"}
# engines trained on the same alphabet size (tables of equal size, different letters / order): a line's logits have the same shape in
# every engine, so replacing a line's result in place keeps the shape
TABLES_EQUAL = {1: ["a", "b", "z", "~"], 2: ["z", "d", "c", "~"], 3: ["e", "z", "f", "~"], 4: ["h", "g", "z", "~"]}
_TABSET = {"name": "default"}          # "default" | "agree" | "equal" | ("scale", number of symbols)
_SCALE_TABLES = {}
# (symbols in every engine's table, characters per line; 0 = the ordinary realisations of the palette, CTC-style ones included)
SCALE_SHAPES = ((300, 1100), (1100, 300), (33000, 2), (70000, 1), (300, 0), (70000, 0), (1100, 1), (33000, 0))


def _tables():
    """(character tables, letters) per engine for the current case"""
    name = _TABSET["name"]
    if name == "agree":
        return TABLES_AGREE, LETTERS_AGREE
    if name == "equal":
        return TABLES_EQUAL, LETTERS
    if isinstance(name, tuple):
        n = name[1]
        if n not in _SCALE_TABLES:
            # n symbols (the last one is the blank); every engine has its own order of the same filler alphabet and keeps the symbols its
            # transcriptions use (and the distractor "z") at the END of the table: behind position 255 / 1 023 / 32 767 / 65 535
            tabs = {}
            for e in TABLES:
                fill = [chr(0x20000 + (i + 977 * e) % (n - 4)) for i in range(n - 4)]
                a, b = LETTERS[e]
                tail = [[a, "z", b], [b, a, "z"], ["z", b, a], [a, b, "z"]][e - 1]
                tabs[e] = fill[:n - 4 - 3 * e] + tail + fill[n - 4 - 3 * e:] + ["~"]
                assert len(tabs[e]) == n and len(set(tabs[e])) == n
            _SCALE_TABLES[n] = tabs
        return _SCALE_TABLES[n], LETTERS
    return TABLES, LETTERS
# realisations of a level (mean confidence in 16ths): (style, per-character (label weight, distractor weight) over D)
PALETTE = {
    0: [("ctc", [(2, 5)]), ("ctc", [(1, 4), (3, 3)])],
    4: [("tr", [(2, 0)]), ("tr", [(3, 0), (1, 0)]), ("ctc", [(4, 2)]), ("ctc", [(5, 1), (1, 5)])],
    8: [("tr", [(4, 0)]), ("tr", [(6, 0), (2, 0)]), ("fallback", []), ("ctc", [(5, 1)])],
    12: [("tr", [(6, 0)]), ("tr", [(7, 0), (5, 0)]), ("ctc", [(7, 1)])],
}
NONE = -1
CLAUSES = {1: "merge_layouts raised", 2: "ids / geometry / line order of a layout changed",
           3: "the confidence the script computes for an engine's line is not the mean of the library's character confidences of its transcription",
           4: "merging the merged result again changed it",
           5: "the mean character confidence differs from the exact value the logits were built to realise",
           6: "large character tables / long lines: the engine whose result was kept is not one whose built-in mean confidence is highest"}


def load_merge():
    path = os.path.join(REPO, "user_scripts", "merge_ocr_results.py")
    spec = importlib.util.spec_from_file_location("verif_merge_ocr_results", path)
    mod = importlib.util.module_from_spec(spec)
    spec.loader.exec_module(mod)
    return mod


_MG = None
_GLC = None
_CFG = {}


def configs(tier):
    # "scale": n = a seeded sample of n of the assignments is also realised over large character tables / long lines (no extra TLC run: the
    # design module does not depend on the size of a table); "chains": after the config itself, bounds checked and driven as incremental
    # merging (Chain = TRUE)
    sc = 1 if tier == "quick" else 4
    q = [{"NEngines": 3, "NLines": 1, "levels": [NONE, 0, 4, 8, 12], "cap": None, "scale": 40 * sc,
          "chains": [{"NEngines": 3, "NLines": 1, "levels": [NONE, 0, 4, 8, 12], "chain": True, "plans": [0, 1, 2]}]},
         {"NEngines": 2, "NLines": 2, "levels": [NONE, 0, 4, 8], "cap": None, "scale": 48 * sc},
         {"NEngines": 4, "NLines": 1, "levels": [NONE, 0, 4, 8], "cap": None},
         # a single engine's result "merged": the tuple of 1 layout of the scope sentence
         {"NEngines": 1, "NLines": 2, "levels": [NONE, 0, 4, 8, 12], "cap": None, "scale": 16 * sc}]
    if tier == "quick":
        return q
    return q + [{"NEngines": 3, "NLines": 2, "levels": [NONE, 0, 4, 8], "cap": None,
                 "chains": [{"NEngines": 3, "NLines": 2, "levels": [NONE, 4, 8], "chain": True, "plans": "one"},
                            {"NEngines": 4, "NLines": 1, "levels": [NONE, 0, 4, 8], "chain": True, "plans": [0, 1, 2]},
                            {"NEngines": 2, "NLines": 2, "levels": [NONE, 0, 4, 8, 12], "chain": True, "plans": [0, 1, 2]}]},
                {"NEngines": 4, "NLines": 1, "levels": [NONE, 0, 4, 8, 12], "cap": None},
                {"NEngines": 4, "NLines": 2, "levels": [NONE, 0, 4, 8], "cap": 8000},
                {"NEngines": 1, "NLines": 3, "levels": [NONE, 0, 4, 8, 12], "cap": None}]


def consts_of(c, mut="none", lens=(1,)):
    # scale of the design module: 0 none, 2 zero, 4.. positive levels
    confs = {0 if v == NONE else 2 + v // 2 for v in c["levels"]}
    return {"NEngines": c["NEngines"], "NLines": c["NLines"], "Confs": confs, "Lens": set(lens), "Mut": mut, "Chain": bool(c.get("chain"))}


def _lab(c):
    return "%sNEngines=%d NLines=%d levels=%s" % ("chain " if c.get("chain") else "", c["NEngines"], c["NLines"], c["levels"])


def _frac(num, den):
    g = int(np.gcd(num, den)) or 1
    return num // g, den // g


def build_line(lid, engine, level, variant, empty_none, tlen=0):
    """tlen > 0 (scale cases): a positive level is realised with one row per character over a transcription of tlen characters"""
    from pero_ocr.core.layout import TextLine
    TABLES, LETTERS = _tables()
    chars = TABLES[engine]
    nc = len(chars)
    blank = nc - 1
    zcol = chars.index("z")
    y = 10 * int(lid[1:])
    # same ids, but every engine saw the line slightly differently (its own baseline, outline, heights): "geometry is never altered"
    # is only observable when the engines' geometries differ
    g = engine - 1
    line = TextLine(id=lid, baseline=np.array([[0, y + g], [50 + g, y]]),
                    polygon=np.array([[0, y - 5 - g], [50 + g, y - 5], [50 + g, y + 2], [0, y + 2 + g]]),
                    heights=[5 + g, 2 + 0.5 * g], characters=list(chars))
    line.index = 10 * engine + int(lid[1:])
    # the value the line carried before the merge (e.g. the conf attribute of an imported PAGE XML): a sentinel, low on even lines
    # and HIGHER than any engine's mean confidence on odd lines - it must never act as a threshold nor survive a positive maximum
    line.transcription_confidence = (0.111 if int(lid[1:]) % 2 == 0 else 0.961) + 0.001 * engine
    if level == NONE:
        line.transcription = None if empty_none else ""
        line.logits = sp.csc_matrix(np.log(np.full((2, nc), 1.0 / nc)) + 1.0)
        return line, 0, 1, "none"
    style, spec = PALETTE[level][variant % len(PALETTE[level])]
    if tlen and level > 0:
        # weights level/2 on every row, or alternately one more / one less (same sum); the exact mean is level/16 whatever tlen is
        a = level // 2
        style, spec = "tr", [((a + (1 if i % 2 == 0 else -1) if variant % 2 and i < tlen - tlen % 2 else a), 0) for i in range(tlen)]
    if style == "fallback":
        # two equal labels on one frame: not alignable -> get_confidences falls back to 0.5 per character
        line.transcription = LETTERS[engine][0] * 2
        w = np.zeros((1, nc))
        w[0, chars.index(LETTERS[engine][0])] = 5
        w[0, blank] = 3
        rows = w
        num, den = 0, 0          # the value of the fallback is not part of the statement: no exact expectation (den = 0)
    elif style == "tr":
        text = "".join(LETTERS[engine][i % 2] for i in range(len(spec)))
        line.transcription = text
        rows = np.zeros((len(spec), nc))
        cols = {ch: chars.index(ch) for ch in set(text)}
        for i, (a, _) in enumerate(spec):
            rows[i, cols[text[i]]] = a
            rows[i, blank] = D - a
        num, den = _frac(sum(a for a, _ in spec), D * len(spec))
    else:
        text = LETTERS[engine][:len(spec)]
        line.transcription = text
        rows = np.zeros((2 * len(spec) + 1, nc))
        rows[:, blank] = D
        for i, (a, b) in enumerate(spec):
            f = 2 * i + 1
            rows[f, :] = 0
            rows[f, chars.index(text[i])] = a
            rows[f, zcol] = b
            rows[f, blank] = D - a - b
        num, den = sum(max(0, a - b) for a, b in spec), D * len(spec)
    with np.errstate(divide="ignore"):
        lg = np.log(rows / D) + 1.5          # unnormalised logits; zero weight = absent entry of the sparse matrix (floor -80)
    lg[rows == 0] = 0.0
    line.logits = sp.csc_matrix(lg)
    return line, num, den, style


def build_layout(engine, levels, variants, empty_none, tlen=0):
    from pero_ocr.core.layout import PageLayout, RegionLayout
    p = PageLayout(id="page", page_size=(100, 100))
    r = RegionLayout("r1", np.array([[0, 0], [60, 0], [60, 90], [0, 90]]))
    p.regions.append(r)
    meta = []
    for k, lv in enumerate(levels):
        line, num, den, style = build_line("l%d" % (k + 1), engine, lv, variants[k], empty_none, tlen)
        if k >= 1 and len(p.regions) == 1:          # the second and later lines live in a second region
            r = RegionLayout("r2", np.array([[0, 10 * k + 12], [60, 10 * k + 12], [60, 99], [0, 99]]))
            p.regions.append(r)
        r.lines.append(line)
        meta.append((num, den, style))
    return p, meta


def snapshot_frame(p):
    return [p.id, tuple(p.page_size)] + [[r.id, r.polygon.tolist(), [(l.id, l.baseline.tolist(), l.polygon.tolist(), list(l.heights), l.index)
                                                                       for l in r.lines]] for r in p.regions]


def same_logits(a, b):
    return a.shape == b.shape and (a != b).nnz == 0


def _scale(means):
    """ordered scale of the design module for one line: None -> 0, 0.0 -> 2, positive floats -> 4 + 2 * dense rank"""
    pos = sorted({m for m in means if m is not None and m > 0})
    return [0 if m is None else (2 if not m > 0 else 4 + 2 * pos.index(m)) for m in means]


def _observe(line):
    """what the script's own get_confidences makes of a line (mean; deviation from the library's per-character confidences for the same
    transcription) + the content of the line"""
    sink = io.StringIO()
    with contextlib.redirect_stdout(sink):
        cf = _MG.get_confidences(line)
    mean = float(cf.mean()) if cf.size > 0 else None
    refdev = 0
    if mean is not None:
        try:        # the library's own per-character confidences for the same transcription (C16's subject)
            pos = {}
            for ch in line.transcription:
                if ch not in pos:
                    pos[ch] = list(line.characters).index(ch)
            idx = np.asarray([pos[ch] for ch in line.transcription])
            refdev = int(min(2e9, abs(float(np.mean(_GLC(line, idx))) - mean) * 1e12))
        except ValueError:
            refdev = 0          # not alignable: the script's fallback constant is not part of the statement
    return {"mean": mean, "refdev": refdev, "text": line.transcription, "logits": line.logits.copy(), "chars": list(line.characters),
            "own_conf": line.transcription_confidence}


def _fresh(line):
    """a FRESH line object holding what `line` holds now.  The mean character confidence of an engine's line is a function of its
    transcription, logits and character table; in a chain the layouts are long-lived objects with a history, and measuring on a fresh
    object keeps the measurement out of that history (and the history out of the measurement)."""
    from pero_ocr.core.layout import TextLine
    p = TextLine(id=line.id, baseline=np.array(line.baseline), polygon=np.array(line.polygon), heights=list(line.heights),
                 characters=list(line.characters))
    p.transcription = line.transcription
    p.logits = line.logits.copy()
    p.transcription_confidence = line.transcription_confidence
    return p


def _recorded(tc, means, untouched):
    """the recorded confidence on the scale of the trace: the scale value of the slot whose mean it equals, 1 = still the value the
    line carried before the call, 3 = anything else"""
    sc = _scale(means)
    for e, m in enumerate(means):
        if m is not None and tc == m:
            return sc[e]
    return 1 if tc == untouched else 3


def _line_record(obs, metas, m, untouched):
    """obs[e] = observation of slot e's line before the call, m = the merged line after it"""
    n = len(obs)
    means = [o["mean"] for o in obs]
    r = _recorded(m.transcription_confidence, means, untouched)
    return {"conf": _scale(means),
            "obs": [0 if v is None else int(round(v * 1e6)) for v in means],
            "num": [mt[0] for mt in metas], "den": [mt[1] for mt in metas],
            "pure": all(mt[2] in ("tr", "none") for mt in metas),
            "refdev": [o["refdev"] for o in obs],
            "tx": [e + 1 for e in range(n) if obs[e]["text"] == m.transcription],
            "lg": [e + 1 for e in range(n) if same_logits(obs[e]["logits"], m.logits)],
            "ch": [e + 1 for e in range(n) if obs[e]["chars"] == list(m.characters)],
            "rec": r}


def _blank_lines(ne, nl):
    return [{"conf": [0] * ne, "obs": [0] * ne, "num": [0] * ne, "den": [1] * ne, "pure": False, "refdev": [0] * ne, "tx": [], "lg": [], "ch": [],
             "rec": 3} for _ in range(nl)]


def _merge_case(case):
    if case["kind"] == "chain":
        return _chain_case(case)
    kind, assign, vseed = case["kind"], case["assign"], case["vseed"]
    ne, nl = _CFG["NEngines"], _CFG["NLines"]
    rec = {"outcome": "ok", "kind": kind, "assign": [list(a) for a in assign], "vseed": vseed, "frame_ok": True, "idem": True, "lines": [],
           "steps": []}
    try:
        variants = [(vseed // (3 ** k)) % 12 for k in range(nl)]
        empty_none = bool(vseed % 2)
        _TABSET["name"] = "agree" if (kind == "engines" and vseed % 3 == 0) else "default"
        tlen = 0
        if kind == "scale":
            nsym, tlen = SCALE_SHAPES[vseed % len(SCALE_SHAPES)]
            _TABSET["name"] = ("scale", nsym)
            rec["nsym"], rec["tlen"] = nsym, tlen
        if kind in ("engines", "scale"):
            built = [build_layout(e + 1, assign[e], variants, empty_none, tlen) for e in range(ne)]
            layouts = [b[0] for b in built]
            metas = [b[1] for b in built]
        else:                       # self-merge: the same result twice (same object / an equal copy); ne == 2
            p, meta = build_layout(1, assign[0], variants, empty_none)
            layouts = [p, p] if kind == "self-same" else [p, copy.deepcopy(p)]
            metas = [meta, meta]
        sink = io.StringIO()
        # observations before merging, with the script's own get_confidences
        orig = [[_observe(line) for line in p.lines_iterator()] for p in layouts]
        frames = [snapshot_frame(p) for p in layouts]          # plain lists / numbers: a copy of its own
        with contextlib.redirect_stdout(sink):
            _MG.merge_layouts(layouts)
        rec["frame_ok"] = all(snapshot_frame(p) == f for p, f in zip(layouts, frames))
        merged = list(layouts[0].lines_iterator())
        after1 = [(m.transcription, m.logits.copy(), list(m.characters), m.transcription_confidence) for m in merged]
        for k, m in enumerate(merged):
            rec["lines"].append(_line_record([orig[e][k] for e in range(ne)], [metas[e][k] for e in range(ne)], m, orig[0][k]["own_conf"]))
        with contextlib.redirect_stdout(sink):
            _MG.merge_layouts(layouts)
        merged2 = list(layouts[0].lines_iterator())
        rec["idem"] = all(m.transcription == a[0] and same_logits(m.logits, a[1]) and list(m.characters) == a[2]
                          and m.transcription_confidence == a[3] for m, a in zip(merged2, after1)) \
            and all(snapshot_frame(p) == f for p, f in zip(layouts, frames))
    except BaseException as ex:     # exit(-1) of the script included: part of the observation
        if isinstance(ex, KeyboardInterrupt):
            raise
        rec["outcome"] = "exception:" + type(ex).__name__
        rec["lines"] = _blank_lines(ne, nl)
    return rec


# ------------------------------------------------------------------------------------------------ history: one long-lived result layout
def chain_plan(ne, which):
    """the calls of one chain: a tuple = merge_layouts on these layout objects (1 = the long-lived result = the first engine's layout,
    j = engine j's layout), "fail" = a call on a tuple outside the scope that fails half-way, "score" = the caller scores the lines of
    the result itself (as an export would).  New engines always come in increasing order, so 'first on ties' is the engine order."""
    step = [(1, j) for j in range(2, ne + 1)]
    if which == 0:          # one engine after the other, an engine handed over a second time, the result with itself
        return step + [(1, 2), (1, 1)]
    if which == 1:          # a failing call before the first and between the calls, scoring in between, finally the whole tuple
        return ["fail", step[0], "score", "fail"] + step[1:] + [tuple(range(1, ne + 1))]
    # the result in second position first (engine 2's layout object becomes a result, too), then incrementally; a single-layout tuple
    return [(2, 1), (1, 2), "score"] + step[1:] + [(1,)]


def _failing_call(layouts, assign, variants, empty_none):
    """merge_layouts on a tuple OUTSIDE the scope - the last line of the first layout has another id - with the long-lived result in second
    position: the script gives up half-way (exit(-1)) after it has worked on the lines before.  Whatever it does there, the first
    layout of that call is a throw-away object and nothing it did may matter for the calls that follow."""
    bad, _ = build_layout(2, assign[1], variants, empty_none)
    list(bad.lines_iterator())[-1].id += "-x"
    try:
        with contextlib.redirect_stdout(io.StringIO()):
            _MG.merge_layouts([bad, layouts[0]])
    except BaseException as ex:
        if isinstance(ex, KeyboardInterrupt):
            raise


def _chain_case(case):
    assign, vseed, plan = case["assign"], case["vseed"], case["plan"]
    ne, nl = _CFG["NEngines"], _CFG["NLines"]
    rec = {"outcome": "ok", "kind": "chain", "assign": [list(a) for a in assign], "vseed": vseed, "plan": plan, "frame_ok": True, "idem": True,
           "lines": [], "steps": []}
    try:
        variants = [(vseed // (3 ** k)) % 12 for k in range(nl)]
        empty_none = bool(vseed % 2)
        _TABSET["name"] = ("equal", "default", "agree", "equal")[vseed % 4]
        built = [build_layout(e + 1, assign[e], variants, empty_none) for e in range(ne)]
        layouts = [b[0] for b in built]
        metas = [b[1] for b in built]
        pristine = [[_observe(_fresh(line)) for line in p.lines_iterator()] for p in layouts]
        frames = [snapshot_frame(p) for p in layouts]          # plain lists / numbers: a copy of its own
        sink = io.StringIO()
        for call in chain_plan(ne, plan):
            if call == "fail":
                _failing_call(layouts, assign, variants, empty_none)
                continue
            if call == "score":
                for line in layouts[0].lines_iterator():
                    with contextlib.redirect_stdout(sink):
                        _MG.get_confidences(line)
                continue
            slots = [layouts[j - 1] for j in call]
            pre = [[_observe(_fresh(line)) for line in p.lines_iterator()] for p in slots]
            step = {"slots": list(call), "outcome": "ok", "lines": []}
            try:
                with contextlib.redirect_stdout(sink):
                    _MG.merge_layouts(slots)
                for k, m in enumerate(slots[0].lines_iterator()):
                    ln = _line_record([pre[s][k] for s in range(len(slots))], [(0, 0, "-")] * len(slots), m, pre[0][k]["own_conf"])
                    step["lines"].append({f: ln[f] for f in ("conf", "refdev", "tx", "lg", "ch", "rec")})
            except BaseException as ex:
                if isinstance(ex, KeyboardInterrupt):
                    raise
                step["outcome"] = rec["outcome"] = "exception:" + type(ex).__name__
                step["lines"] = [{f: ln[f] for f in ("conf", "refdev", "tx", "lg", "ch", "rec")} for ln in _blank_lines(len(slots), nl)]
            rec["steps"].append(step)
        rec["frame_ok"] = all(snapshot_frame(p) == f for p, f in zip(layouts, frames))
        for k, m in enumerate(layouts[0].lines_iterator()):
            rec["lines"].append(_line_record([pristine[e][k] for e in range(ne)], [metas[e][k] for e in range(ne)], m, pristine[0][k]["own_conf"]))
    except BaseException as ex:
        if isinstance(ex, KeyboardInterrupt):
            raise
        rec["outcome"] = "exception:" + type(ex).__name__
        rec["lines"] = _blank_lines(ne, nl)
    return rec


def cases_of(c, rng):
    ne, nl = c["NEngines"], c["NLines"]
    per_engine = list(itertools.product(c["levels"], repeat=nl))
    allc = list(itertools.product(per_engine, repeat=ne))
    complete = True
    if c["cap"] and len(allc) > c["cap"]:
        allc = rng.sample(allc, c["cap"])
        complete = False
    cases = [{"kind": "engines", "assign": a, "vseed": rng.randrange(10 ** 6)} for a in allc]
    if c.get("scale"):
        # a sample of the same level assignments once more over character tables of 300 .. 70 000 symbols / lines of up to 1 100
        # characters (every shape of SCALE_SHAPES in turn: the shape is vseed mod their number)
        ns = len(SCALE_SHAPES)
        cases += [{"kind": "scale", "assign": a, "vseed": rng.randrange(10 ** 5) * ns + i % ns}
                  for i, a in enumerate(rng.sample(allc, min(len(allc), c["scale"])))]
    return cases, complete


def chain_cases(c, rng):
    """every level assignment of the TLC run (Chain = TRUE) as a chain of calls on one long-lived result layout"""
    per_engine = list(itertools.product(c["levels"], repeat=c["NLines"]))
    allc = list(itertools.product(per_engine, repeat=c["NEngines"]))
    plans = c["plans"]
    return [{"kind": "chain", "assign": a, "vseed": rng.randrange(10 ** 6), "plan": pl}
            for i, a in enumerate(allc) for pl in (plans if plans != "one" else [i % 3])]


def execute(c, cases):
    global _MG, _CFG, _GLC
    if _MG is None:
        _MG = load_merge()
        from pero_ocr.core.confidence_estimation import get_line_confidence
        _GLC = get_line_confidence
    _CFG = dict(c)
    from pero_ocr.core.force_alignment import force_align
    try:        # warm the numba kernel before forking (only the compilation matters)
        force_align(np.array([[0.0, 1.0], [1.0, 0.0], [0.0, 1.0]]), [0], 1)
    except Exception:
        pass
    if any(cs["kind"] == "scale" for cs in cases):          # build the large tables once, before forking
        for nsym in sorted({n for n, _ in SCALE_SHAPES}):
            _TABSET["name"] = ("scale", nsym)
            _tables()
    return pmap(_merge_case, cases, procs=6)


def tconsts(c, strict):
    k = consts_of(c)
    k["ExactMeans"] = bool(strict)
    return k


def judge(ctx, c, traces, drift=True):
    acc, rej = ctx.validate("EngineMerge_Trace", traces, constants=tconsts(c, False), shards=min(6, max(1, len(traces) // 300)),
                            label="EngineMerge_Trace " + _lab(c))
    # drift level: the same executions with the exact-rational expectation of the realised confidences
    bad = {i for i, _ in rej}
    good = [tr for i, tr in enumerate(traces) if i not in bad]
    before = ctx.traces_validated
    rej2 = []
    if drift:
        _, rej2 = ctx.validate("EngineMerge_Trace", good, constants=tconsts(c, True), shards=min(6, max(1, len(good) // 300)),
                               label="EngineMerge_Trace (exact means, drift only) " + _lab(c))
    ctx.traces_validated = before
    for i, clause in rej2:
        ctx.model_drift("clause %d: %s" % (clause, CLAUSES.get(clause, "?")), 1, {"cfg": _lab(c), "trace": good[i]})
    for tr in traces:
        nt = any(len([v for v in ln["conf"] if v >= 4]) >= 2 for ln in tr["lines"])       # at least two positive engines compete
        ctx.count(1, (_lab(c), tr["kind"], repr(tr["assign"]), tr["vseed"], tr.get("plan", 0)) if nt else None)
    ctx.sample({"config": _lab(c), "trace": traces[len(traces) // 2]}, limit=5)
    for idx, clause in rej:
        tr = traces[idx]
        if clause >= 1000:
            st, k = (clause - 1000) // 10, (clause - 1000) % 10
            step = tr["steps"][st - 1] if 0 < st <= len(tr["steps"]) else {}
            ln = step["lines"][k - 1] if step and 0 < k <= len(step["lines"]) else {}
            what = ("long-lived result layout, call %d of plan %s on the layout objects %s (1 = the result; earlier calls: %s), line %d: the "
                    "merged line does not hold the transcription + logits + character table of the first most confident layout of this call, "
                    "or the recorded confidence is not that maximum (scale per slot %s; text from slot %s, logits from %s, table from %s, "
                    "recorded %s, outcome %s)" % (st, tr.get("plan"), step.get("slots"), [x["slots"] for x in tr["steps"][:max(0, st - 1)]], k,
                                                  ln.get("conf"), ln.get("tx"), ln.get("lg"), ln.get("ch"), ln.get("rec"), step.get("outcome")))
            sig = "chain-selection"
        elif clause >= 10:
            k = clause - 10
            ln = tr["lines"][k - 1] if 0 < k <= len(tr["lines"]) else {}
            what = ("line %d: merged line does not hold the transcription + logits + character table of the first most confident engine, "
                    "or the recorded confidence is not that maximum (scale per engine %s; text from %s, logits from %s, table from %s, "
                    "recorded %s)" % (k, ln.get("conf"), ln.get("tx"), ln.get("lg"), ln.get("ch"), ln.get("rec")))
            sig = "selection"
        else:
            what = CLAUSES.get(clause, "?")
            sig = {1: "exception", 2: "ids-geometry", 3: "script-confidence", 4: "idempotence", 6: "scale-order"}.get(clause, "clause%d" % clause)
        if tr["kind"] == "scale":
            what += "; character tables of %d symbols, %s characters per line" % (tr.get("nsym", 0), tr.get("tlen") or "1-2")
        cfg = {f: v for f, v in c.items() if f != "chains"}
        ctx.violation({"cfg": cfg, "case": {f: tr[f] for f in ("kind", "assign", "vseed", "plan") if f in tr}, "clause": clause}, sig,
                      "%s; %s kind=%s levels(16ths, -1 = empty) per engine=%s outcome=%s" % (what, _lab(c), tr["kind"], tr["assign"], tr["outcome"]))
    return acc, rej


def run(ctx):
    ctx.rule = ("every assignment of a confidence level {none, 0, 4/16, 8/16, 12/16} to each (engine, line) = the initial states of the TLC "
                "run, realised as PageLayouts with exact-weight logits (seeded choice among transformer-style, CTC-style and fallback "
                "realisations; engines with different character tables), merged by the real merge_layouts; plus self-merges; plus the same "
                "assignments over character tables of 300 .. 70 000 symbols / lines of up to 1 100 characters; plus (Chain = TRUE) chains of "
                "calls on one long-lived result layout; "
                "non-trivial = a line on which at least two engines have positive confidence")
    ctx.assume("levels differ by >= 1/16, far above round-off; exact ties are decided on the floats the script itself computes "
               "(equal floats = tie, first engine must win); mathematically equal levels whose floats differ in the last bit may go either way",
               "when no engine has positive confidence both 'nothing copied' and 'first arg-max copied' are accepted (Appendix D)",
               "copied logits / character table are compared by content",
               "chains: what a layout object holds when a call is made is measured on fresh line objects with the same transcription, logits "
               "and character table (the mean character confidence of an engine's line is a function of these, not of the object's past)",
               "scale: TLC cannot enumerate tables of 300 .. 70 000 symbols; the driver records the exact mean the logits were built for "
               "(from the row weights alone) and the trace specification compares their ORDER with the engine that was kept (pure "
               "one-row-per-character lines only)")
    ctx.exhaustive = True
    first = True
    # unbounded part: any number of engines, arbitrary confidences (Apalache, spec/EngineMergeInd.tla); tied to EngineMerge.tla by
    # PROPERTY RefinesInd of spec/EngineMergeRef.tla on every bounded configuration below
    from .. import indproof
    indproof.apalache_obligations(ctx, "EngineMergeInd", indproof.EM_RUNS)
    for c in configs(ctx.tier):
        ctx.tlc("EngineMerge", constants=consts_of(c), invariants=INVS, workers=4, timeout=1800, label="EngineMerge " + _lab(c))
        ctx.tlc("EngineMergeRef", constants=consts_of(c), properties=["RefinesInd"], workers=4, timeout=1800, coverage=False, count=False,
                label="EngineMergeRef %s (RefinesInd)" % _lab(c))
        if first:
            ctx.tlc("EngineMergeRef", constants=consts_of(c, "ge"), properties=["RefinesInd"], workers=4, timeout=1800, coverage=False,
                    count=False, expect_violation="RefinesInd", label="EngineMergeRef %s Mut=ge (self-test)" % _lab(c))
        if first:
            small = {"NEngines": 3, "NLines": 1, "levels": [NONE, 0, 4, 8]}
            for mut, inv, lens in (("ge", "Correct", (1,)), ("no_chars", "SameEngine", (1,)), ("sums", "Correct", (1, 2)),
                                   ("init_minus1", "Correct", (1,))):
                ctx.tlc("EngineMerge", constants=consts_of(small, mut, lens), invariants=INVS, workers=2, timeout=600, coverage=False,
                        expect_violation=inv, label="EngineMerge selftest Mut=%s" % mut)
            # negative control: threshold -1 is admissible under the reading decision (only the strict invariant objects)
            ctx.tlc("EngineMerge", constants=consts_of(small, "init_minus1"), invariants=["CorrectPermissive", "SameEngine", "Idempotent"],
                    workers=2, timeout=600, coverage=False, count=False, label="EngineMerge Mut=init_minus1 accepted by the permissive reading")
        cases, complete = cases_of(c, ctx.rng)
        if not complete:
            ctx.exhaustive = False
        traces = execute(c, cases)
        acc, rej = judge(ctx, c, traces)
        if first and not rej:
            good = next(tr for tr in traces if any(max(ln["conf"]) >= 4 and ln["conf"].index(max(ln["conf"])) > 0 for ln in tr["lines"]))

            def corrupt(tr):
                for ln in tr["lines"]:
                    if max(ln["conf"]) >= 4 and ln["conf"].index(max(ln["conf"])) > 0:
                        ln["lg"] = [1]          # the logits stayed those of the first engine although another engine won
                        break
                return tr
            ctx.selftest_corrupt("EngineMerge_Trace", good, corrupt, constants=tconsts(c, False))
        for cc in c.get("chains", []):
            run_chains(ctx, cc, selftest=first)
        first = False
    # self-merge: a result merged with itself (same object and an equal copy)
    c2 = {"NEngines": 2, "NLines": 2, "levels": [NONE, 0, 4, 8, 12], "cap": None}
    per_engine = list(itertools.product(c2["levels"], repeat=2))
    cases = [{"kind": kind, "assign": (a, a), "vseed": ctx.rng.randrange(10 ** 6)} for a in per_engine for kind in ("self-same", "self-copy")]
    traces = execute(c2, cases)
    judge(ctx, c2, traces)
    ctx.notes["explanation"] = ("TLC exhaustive on EngineMerge per (NEngines, NLines, levels) with invariants %s; every level assignment realised "
                                "as real layouts and merged by user_scripts/merge_ocr_results.merge_layouts (twice); judged by TLC in "
                                "EngineMerge_Trace with the design operator Accepts; Chain = TRUE: incremental merging with one long-lived result layout, "
                                "invariants %s, every call of a chain judged with AcceptsOn" % (INVS, CHAIN_INVS))


CHAIN_INVS = ["ChainCorrect", "ChainStepAccepted", "ChainEqualsOneShot", "SameEngine"]


def run_chains(ctx, cc, selftest):
    """history: incremental merging with one long-lived result layout (design Chain = TRUE) + the plans of chain_plan on the real code"""
    ctx.tlc("EngineMerge", constants=consts_of(cc), invariants=CHAIN_INVS, workers=4, timeout=1800, label="EngineMerge " + _lab(cc))
    if selftest:
        small = {"NEngines": 3, "NLines": 1, "levels": [NONE, 0, 4, 8], "chain": True}
        # a line object scored with what it held originally: wrong from the second call on ...
        ctx.tlc("EngineMerge", constants=consts_of(small, "stale_conf"), invariants=CHAIN_INVS, workers=2, timeout=600, coverage=False,
                expect_violation="ChainCorrect", label="EngineMerge selftest chain Mut=stale_conf")
    traces = execute(cc, chain_cases(cc, ctx.rng))
    # (the realisations and their exact means are those of the other kinds: no drift-level pass here)
    acc, rej = judge(ctx, cc, traces, drift=False)
    if selftest and not rej:
        def won(tr):
            return [st for st in tr["steps"] if len(st["slots"]) == 2 and st["slots"][0] == 1
                    and any(ln["conf"][1] >= 4 and ln["conf"][1] > ln["conf"][0] for ln in st["lines"])]
        good = next((tr for tr in traces if won(tr)), None)
        if good is not None:
            def corrupt(tr):
                for ln in won(tr)[0]["lines"]:
                    if ln["conf"][1] >= 4 and ln["conf"][1] > ln["conf"][0]:
                        ln["lg"] = [1]          # the result kept its own logits although the engine handed over in this call won
                        break
                return tr
            ctx.selftest_corrupt("EngineMerge_Trace", good, corrupt, constants=tconsts(cc, False))


def replay(ctx, case):
    c = case["cfg"]
    cs = dict(case["case"])
    cs["assign"] = tuple(tuple(a) for a in cs["assign"])
    traces = execute(c, [cs])
    judge(ctx, c, traces)
