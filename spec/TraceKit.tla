---------------------------- MODULE TraceKit ----------------------------
(* Shared plumbing for batch trace validation (DESIGN.md section 3.2).
   One JVM validates a whole file of recorded executions: the trace id is chosen in the initial
   state, every trace spec calls TKMark from a CONSTRAINT and TKPost from its POSTCONDITION.
   Register 1 = set of accepted trace ids, register 2 = set of <<tid, progress>> pairs
   (progress = index of the last event matched, or a clause number for single-step specs).
   Needs -workers 1 (TLCSet registers are per worker).                                          *)
EXTENDS Naturals, Sequences, FiniteSets, TLC, Json, IOUtils

Traces == JsonDeserialize(IOEnv.TRACE_FILE)
NTraces == Len(Traces)

TKReset == TLCSet(1, {}) /\ TLCSet(2, {})

TKMark(tid, progress, done) ==
    /\ (tid \notin TLCGet(1)) => TLCSet(2, TLCGet(2) \cup {<<tid, progress>>})
    /\ done => TLCSet(1, TLCGet(1) \cup {tid})

TKMaxOf(S) == IF S = {} THEN 0 ELSE CHOOSE m \in S : \A o \in S : m >= o

TKPost ==
    LET acc == TLCGet(1)
        rej == (1..NTraces) \ acc
        far(i) == TKMaxOf({p[2] : p \in {q \in TLCGet(2) : q[1] = i}})
    IN  PrintT(<<"TKRESULT", NTraces, Cardinality(acc), {<<i, far(i)>> : i \in rej}>>)
=============================================================================
