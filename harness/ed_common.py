"""C13 helper: push pairs of sequences through the real pero_ocr.sequence_alignment functions and
ErrorsSummary, record integer-only traces in the EditDistance_Trace format.

Sequences are abstract symbol ids 1..k; `syms` instantiates them with concrete symbols (strings, ints, a mixed
alphabet, symbols drawn from a large alphabet).  Results are mapped back to ids (0 = empty symbol, 99 = a symbol
that was not in the input)."""
import itertools
import random
import math

from pero_ocr import sequence_alignment as SA
from pero_ocr.error_summary import ErrorsSummary

from .core import pmap

VARIANTS = {
    "str": ["a", "b", "c", "d"],
    "int": [3, 7, 11, 19],
    "mixed": ["a", 1, "b", 2],            # strings and ints in one alphabet (no symbol is the str() of another)
    "mixedstr": [1, "1", 2, "2"],         # ... and an alphabet in which every string IS the str() of an int symbol
    # single characters beyond the Basic Multilingual Plane (two UTF-16 code units each) next to ASCII ones
    "astral": ["\U0001D504", "b", "\U0001D56E", "\U00010000"],
}


def big_syms(rng, kind):
    """symbols drawn from a large alphabet"""
    if kind == "bigint":
        return rng.sample(range(1000, 2000000000), 4)
    return [chr(c) for c in rng.sample(range(0x100, 0x2FFF), 3) + rng.sample(range(0x10000, 0x1FFFF), 1)]


def strings(alphabet, maxlen):
    out = []
    for n in range(maxlen + 1):
        out += [list(p) for p in itertools.product(range(1, alphabet + 1), repeat=n)]
    return out


def _num(x):
    """distance -> int; -1 = inf / nan, -2 = not an integer"""
    try:
        x = float(x)
    except Exception:
        return -3
    if not math.isfinite(x):
        return -1
    if abs(x - round(x)) > 1e-9 or abs(x) > 1e9:
        return -2
    return int(round(x))


def _back(rev, x):
    """concrete symbol -> abstract id; '1' (an int converted to a string by numpy) is NOT the symbol 1"""
    if x is None:
        return 0
    key = x.item() if hasattr(x, "item") else x      # np.str_ -> str, np.int64 -> int
    try:
        return rev.get(key, 99)
    except TypeError:
        return 99


def _call(f):
    try:
        return {"o": "ok", "v": f()}
    except Exception as ex:       # part of the observation
        return {"o": "exception:" + type(ex).__name__, "v": 0}


def summary_fields(s):
    return {"o": "ok", "lines": _num(s.nb_lines_summarized), "ref_len": _num(s.ref_len), "errors": _num(s.nb_errors),
            "subs": _num(s.nb_subs), "inss": _num(s.nb_inss), "dels": _num(s.nb_dels)}


def run_pair(case):
    syms = case["syms"]
    rev = {c: i + 1 for i, c in enumerate(syms)}
    src = [syms[i - 1] for i in case["src"]]
    tgt = [syms[i - 1] for i in case["tgt"]]
    sc, ic, dc = case["cost"]
    unit = (sc, ic, dc) == (1, 1, 1)
    rec = {"kind": "pair", "src": case["src"], "tgt": case["tgt"], "cost": [sc, ic, dc], "unit": unit,
           "variant": case["variant"]}
    pairs = lambda al: [[_back(rev, a), _back(rev, b)] for a, b in al]
    # Callers keep their list objects: for every other pair the two lists handed over are LONG-LIVED objects that held other
    # symbols (same lengths) in the call just before and were edited in place - the answer must be about what they hold now.
    reuse = (len(src) + 2 * len(tgt) + sc) % 2 == 0
    rec["reused"] = reuse
    S, T = list(src), list(tgt)
    nxt = {c: syms[(i + 1) % len(syms)] for i, c in enumerate(syms)}

    def on(f):
        if not reuse:
            return f(list(src), list(tgt))
        S[:] = [nxt[x] for x in src]
        T[:] = [nxt[x] for x in reversed(tgt)]
        try:
            f(S, T)
        except Exception:
            pass
        S[:] = src
        T[:] = tgt
        return f(S, T)
    rec["dist"] = _call(lambda: _num(on(lambda a, b: SA.levenshtein_distance(a, b, sc, ic, dc))))
    rec["al"] = _call(lambda: pairs(on(lambda a, b: SA.levenshtein_alignment(a, b, sc, ic, dc))))
    rec["path"] = _call(lambda: [_dir(d) for d in on(lambda a, b: SA.levenshtein_alignment_path(a, b, sc, ic, dc))])
    none = {"o": "skipped", "v": 0}
    if unit:
        rec["sdist"] = _call(lambda: _num(on(SA.levenshtein_distance_substring)))
        rec["sal"] = _call(lambda: pairs(on(SA.levenshtein_alignment_substring)))
        try:
            rec["summ"] = summary_fields(on(ErrorsSummary.from_lists))
        except Exception as ex:
            rec["summ"] = {"o": "exception:" + type(ex).__name__}
    else:
        rec["sdist"], rec["sal"], rec["summ"] = none, none, {"o": "skipped"}
    return rec


def _dir(d):
    d = float(d)
    return int(d) + 1 if d in (-1.0, 0.0, 1.0) else 9


def run_pairs(cases, procs=6):
    return pmap(run_pair, cases, procs=procs)


def _ref_distance(src, tgt):
    """unit-cost edit distance by a plain two-row dynamic programme (independent of the code under test)"""
    prev = list(range(len(tgt) + 1))
    for a in src:
        cur = [prev[0] + 1] + [0] * len(tgt)
        for j, b in enumerate(tgt, 1):
            cur[j] = min(prev[j] + 1, cur[j - 1] + 1, prev[j - 1] + (a != b))
        prev = cur
    return prev[-1]


def run_scale(case):
    """sequences over MANY distinct symbols (more than 65 536 in one pair): case = {"n", "seed", "kind": "int" | "str"}"""
    rng = random.Random(case["seed"])
    n = case["n"]
    pool = rng.sample(range(1, 2000000000), n + 3)
    if case["symbols"] == "str":
        pool = ["s%d" % x for x in pool]
    tgt = pool[:n]
    # the short side: two symbols of the long side far apart (in order), one foreign symbol, one symbol 65 536 places after another
    src = [tgt[5], pool[n], tgt[5 + 65536] if n > 5 + 65536 else tgt[n // 2], tgt[n - 2]]
    rec = {"kind": "scale", "n": n, "symbols": case["symbols"], "seed": case["seed"], "ref": _ref_distance(src, tgt)}
    rec["dist"] = _call(lambda: _num(SA.levenshtein_distance(list(src), list(tgt))))
    rec["dist_r"] = _call(lambda: _num(SA.levenshtein_distance(list(tgt), list(src))))
    try:
        rec["summ"] = summary_fields(ErrorsSummary.from_lists(list(src), list(tgt)))
    except Exception as ex:
        rec["summ"] = {"o": "exception:" + type(ex).__name__}
    return rec


def run_agg(case):
    """case = {"pairs": [[ref ids, hyp ids], ...]} (string symbols)"""
    syms = VARIANTS["str"]
    rec = {"kind": "agg", "pairs": case["pairs"], "items": [], "agg": {"o": "ok"}}
    try:
        summaries = [ErrorsSummary.from_lists([syms[i - 1] for i in r], [syms[i - 1] for i in h]) for r, h in case["pairs"]]
        rec["items"] = [summary_fields(s) for s in summaries]
        # "aggregating is plain addition" also for aggregates of aggregates (lines -> pages -> document): for every other
        # case the first k summaries are aggregated first and the result aggregated with the rest
        # the summaries are handed over in the containers callers use: a list, a tuple, a generator, an iterator (one-shot)
        sel = (sum(len(r) + 2 * len(h) for r, h in case["pairs"]) + len(case["pairs"])) % 4
        wrap = [list, tuple, lambda xs: (x for x in xs), iter][sel]
        rec["container"] = ["list", "tuple", "generator", "iterator"][sel]
        k = len(summaries) // 2 + 1
        if len(summaries) >= 2 and sum(len(r) + len(h) for r, h in case["pairs"]) % 2 == 0:
            nested = ErrorsSummary.aggregate(wrap(summaries[:k]))
            rec["agg"] = summary_fields(ErrorsSummary.aggregate(wrap([nested] + summaries[k:])))
        else:
            rec["agg"] = summary_fields(ErrorsSummary.aggregate(wrap(summaries)))
    except Exception as ex:
        rec["agg"] = {"o": "exception:" + type(ex).__name__}
    return rec
