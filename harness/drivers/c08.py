"""C08 - a page's result does not depend on processing history or schedule (DESIGN.md section 4, C08).

1. TLC model-checks spec/PageDecoder.tla (the REPAIRED PageDecoder) for every page content of the bounded shape (each line
   decoded / confident / without logits, CARRY_H_OVER on/off - all part of the initial state), every history of process_page
   calls up to MaxCalls (repetitions, any order) and every dispatch of the pages to the workers: HistoryIndependent, Isolation,
   SameTwice, EndState.  Self-test: Legacy=TRUE (last_line kept across pages, as in the unrepaired tree) must violate.
2. Every maximal path of the dumped state graph is replayed on real PageDecoder instances (one per worker) wrapping the real
   CTCPrefixLogRawNumpyDecoder with a toy LM whose hidden state is its context (harness/pd_common.py).
3. Each recorded history is validated by TLC against spec/PageDecoder_Trace.tla: Detailed=FALSE (every call returns what a
   fresh instance returns for that page) is the verdict; Detailed=TRUE (contexts, state left behind) feeds MODEL-DRIFT only.
4. Schedule clause through the tool itself: parse_folder.main() with a real PageParser subclass (stub OCR stage, real
   PageDecoder stage): each page alone vs. the whole batch sequentially vs. --process-count 2 vs. a killed and resumed run.
"""
import logging
import os
import re

from .. import pd_common as D
from ..core import MachineryFailure, pmap

LEVEL = "model_checking"
INVS = ["TypeOK", "HistoryIndependent", "Isolation", "SameTwice", "EndState"]


def shape(pages, nlines, nk, workers, calls):
    return {"pages": pages, "nlines": nlines, "nk": nk, "workers": list(workers), "calls": calls}


def shapes(tier):
    if tier == "quick":
        return [shape("AB", 2, 3, [1], 3), shape("AB", 2, 2, [1, 2], 3), shape("A", 3, 4, [1], 2)]
    return [shape("AB", 2, 3, [1], 5), shape("ABC", 2, 2, [1], 4), shape("AB", 2, 3, [1, 2], 3), shape("AB", 1, 3, [1, 2], 4),
            shape("A", 3, 4, [1], 3), shape("AB", 2, 4, [1], 3)]


def label(s):
    return "pages=%s lines=%d kinds=%d workers=%d calls<=%d" % (s["pages"], s["nlines"], s["nk"], len(s["workers"]), s["calls"])


def constants(s, legacy=False, calls=None):
    return {"Pages": set(s["pages"]), "NLines": s["nlines"], "NK": s["nk"], "Workers": set(s["workers"]),
            "MaxCalls": s["calls"] if calls is None else calls, "Legacy": legacy}


# ------------------------------------------------------------------ TLC state graph -> histories
def histories_from_dot(path):
    """every maximal path of the state graph as (cfgid, [(worker, page), ...])"""
    nodes, edges, init = {}, {}, []
    re_node = re.compile(r'^(-?\d+) \[label="')
    re_edge = re.compile(r'^(-?\d+) -> (-?\d+) \[label="(\w+)(?:\((\d+),\\"(\w)\\"\))?"')
    with open(path) as fh:
        for line in fh:
            m = re_edge.match(line)
            if m:
                if m.group(3) == "PageStart" and m.group(4) is None:
                    raise MachineryFailure("PageStart edge without parameters in the TLC graph: %s" % line[:200])
                edges.setdefault(m.group(1), []).append((m.group(3), m.group(2), m.group(4), m.group(5)))
                continue
            m = re_node.match(line)
            if m:
                lab = line
                c = re.search(r"cfgid = (\d+)", lab)
                cur = re.search(r'cur = \\"([A-C-])\\"', lab)
                cw = re.search(r"cw = (\d+)", lab)
                if not (c and cur and cw):
                    raise MachineryFailure("cannot parse a state of the TLC graph: %s" % lab[:200])
                nodes[m.group(1)] = (int(c.group(1)), cur.group(1), int(cw.group(1)))
                if line.rstrip().endswith("style = filled]"):
                    init.append(m.group(1))
    if not init or not edges:
        raise MachineryFailure("cannot parse the TLC state graph %s" % path)
    out = set()
    for i0 in init:
        stack = [(i0, ())]
        while stack:
            node, hist = stack.pop()
            succ = edges.get(node, [])
            if not succ:
                out.add((nodes[i0][0], hist))
                continue
            for lab, b, w, p in succ:
                if lab == "PageStart":
                    if (nodes[b][2], nodes[b][1]) != (int(w), p):
                        raise MachineryFailure("edge label and target state disagree in the TLC graph")
                    stack.append((b, hist + ((int(w), p),)))
                else:
                    stack.append((b, hist))
    return sorted(out), len(nodes), sum(len(v) for v in edges.values())


# ------------------------------------------------------------------ real executions
_RUN = {}


def _execute(item):
    cfgid, hists = item
    s = _RUN["shape"]
    alone = D.alone_results(cfgid, s["pages"], s["nlines"], s["nk"])
    out = []
    for n, h in enumerate(hists):
        envs = None
        if _RUN["envs"] == "rotate":
            envs = D.envs_for(cfgid, n, len(h))
        elif _RUN["envs"]:
            envs = _RUN["envs"]
        out.append(D.run_history(cfgid, s["pages"], s["nlines"], s["nk"], list(h), alone=alone, envs=envs))
    return out


def execute(s, hists, envs=None):
    """envs: None (every call in the building thread), "rotate" (pd_common.envs_for) or the list of one history (replay)"""
    by_cfg = {}
    for cfgid, h in hists:
        by_cfg.setdefault(cfgid, []).append(h)
    _RUN["shape"] = s
    _RUN["envs"] = envs
    out = pmap(_execute, sorted(by_cfg.items()), procs=6)
    return [t for ts in out for t in ts]


def environment_histories(ctx, s, hists):
    """The histories of the shape once more, for the page contents decoded through the real LMWrapper (torch; the plain toy state
    class does not touch torch), with the process_page calls spread over the execution environments of pd_common.ENVS: a worker
    thread of the same process / the building thread after other code re-enabled autograd.  Property level only: every call must
    give what the page gives alone (decoded in the building thread by a fresh instance)."""
    sel = [(c, h) for c, h in hists if D.flavour_of(c)[0] == "wrapped" and len(h) >= 2]
    if ctx.tier == "quick":
        sel = [(c, h) for c, h in sel if D.flavour_of(c)[1] == D.BEAM or c % 2 == 1]      # beam 1 only with CARRY_H_OVER
    traces = execute(s, sel, envs="rotate")
    ctx.notes["environment_histories"] = {"shape": label(s), "histories": len(traces), "environments": list(D.ENVS),
                                          "calls_per_environment": {e: sum(1 for t in traces for c in t["calls"] if c["env"] == e)
                                                                    for e in D.ENVS}}
    judge(ctx, s, traces, selftest=False, detailed=False, what="PageDecoder across threads / autograd modes")


# ------------------------------------------------------------------ verdict
def describe(s, tr, progress):
    i = max(1, progress // 100)
    if i > len(tr["calls"]):
        return "unclassified", "history rejected"
    call = tr["calls"][i - 1]
    carry, _ = D.decode_cfg(tr["cfgid"], s["pages"], s["nlines"], s["nk"])
    if call["outcome"] != "ok":
        return "exception", "process_page raised %s" % call["outcome"]
    prev = [c for c in tr["calls"][:i - 1] if c["worker"] == call["worker"]]
    where = "first-call" if not prev else ("after-same-page" if prev[-1]["page"] == call["page"] else "after-other-page")
    env = call.get("env", "main")
    if env != "main":
        where = {"thread": "in-worker-thread", "grad-on": "after-autograd-enabled"}.get(env, env)
    bad = [n + 1 for n, (a, b) in enumerate(zip(call["res"], call["alone"])) if a != b]
    via = call["via"] if "via" in call else "PageDecoder.process_page"
    return ("%s-dependent-result:%s" % ("history" if env == "main" else "environment", where),
            "call %d (%s, page %s, worker %d, CARRY_H_OVER=%s, executed in: %s): line(s) %s transcribed %s, but %s when the page is decoded "
            "alone; contexts the decoder started from: %s" % (i, via, call["page"], call["worker"], carry, env, bad,
                                                      [call["res"][n - 1] for n in bad], [call["alone"][n - 1] for n in bad],
                                                      [(d["line"], d["from"]) for d in call["decodes"]]))


def judge(ctx, s, traces, selftest=True, detailed=True, what="PageDecoder"):
    maxc = max(len(t["calls"]) for t in traces)
    workers = sorted({c["worker"] for t in traces for c in t["calls"]} | set(s["workers"]))
    s2 = dict(s, workers=workers)
    kp = dict(constants(s2, calls=maxc), Detailed=False)
    acc, rej = ctx.validate("PageDecoder_Trace", traces, constants=kp, label="PageDecoder_Trace property %s %s" % (what, label(s)))
    rejected = {i for i, _ in rej}
    for tr in traces:
        carry, kinds = D.decode_cfg(tr["cfgid"], s["pages"], s["nlines"], s["nk"])
        nontrivial = carry and len(tr["calls"]) >= 2 and any(c["decodes"] for c in tr["calls"][1:])
        ctx.count(1, (what, label(s), tr["cfgid"], tuple(map(tuple, tr["hist"]))) if nontrivial or not detailed else None)
    ctx.sample({"shape": label(s), "trace": traces[len(traces) // 2]}, limit=4)
    hist = ctx.notes.setdefault("rejected_histories_by_signature", {})
    for idx, prog in rej:
        tr = traces[idx]
        sig, text = describe(s, tr, prog)
        hist[sig] = hist.get(sig, 0) + 1
        ctx.violation({"shape": s, "cfgid": tr["cfgid"], "hist": tr["hist"], "envs": tr.get("envs", []), "kind": what, "trace": tr,
                       "progress": prog}, sig,
                      "%s; shape %s, page content %d, history %s" % (text, label(s), tr["cfgid"], tr["hist"]))
    if not detailed:
        return rej
    kd = dict(constants(s2, calls=maxc), Detailed=True)
    before = ctx.traces_validated
    _, drej = ctx.validate("PageDecoder_Trace", traces, constants=kd, label="PageDecoder_Trace design(repaired) " + label(s))
    drej_idx = [i for i, _ in drej]
    stats = ctx.notes.setdefault("design_conformance", {"repaired_model": 0, "legacy_model": 0, "neither": 0,
                                                        "context_leaks_without_result_change": 0})
    stats["repaired_model"] += len(traces) - len(drej_idx)
    if drej_idx:
        kl = dict(constants(s2, legacy=True, calls=maxc), Detailed=True)
        _, lrej = ctx.validate("PageDecoder_Trace", [traces[i] for i in drej_idx], constants=kl,
                               label="PageDecoder_Trace design(legacy) " + label(s))
        lrej_idx = {drej_idx[i] for i, _ in lrej}
        stats["legacy_model"] += len(drej_idx) - len(lrej_idx)
        stats["neither"] += len(lrej_idx)
        stats["context_leaks_without_result_change"] += len([i for i in drej_idx if i not in lrej_idx and i not in rejected])
        for i in sorted(lrej_idx):
            if i not in rejected:
                ctx.model_drift("history accepted by the property but a behaviour of neither the repaired nor the legacy model",
                                1, {"shape": label(s), "cfgid": traces[i]["cfgid"], "hist": traces[i]["hist"]})
    ctx.traces_validated = before
    if selftest and "selftest_corrupted_trace_rejected" not in ctx.notes:
        good = [i for i in range(len(traces)) if i not in rejected and len(traces[i]["calls"]) >= 2
                and any(c["decodes"] for c in traces[i]["calls"])]
        if good:
            def corrupt(tr):
                call = [c for c in tr["calls"] if c["decodes"]][-1]
                line = call["decodes"][0]["line"]
                call["res"][line - 1] = call["res"][line - 1] + [1]      # one more character than the page has alone
                return tr
            ctx.selftest_corrupt("PageDecoder_Trace", traces[good[0]], corrupt, constants=kp)
            dgood = [i for i in good if i not in drej_idx]
            if dgood:
                def corrupt2(tr):
                    call = [c for c in tr["calls"] if c["decodes"]][-1]
                    call["decodes"][0]["from"] = call["decodes"][0]["from"] + [["B", 1]]     # a foreign line in the context
                    return tr
                ctx.selftest_corrupt("PageDecoder_Trace", traces[dgood[0]], corrupt2, constants=kd)
    return rej


def apalache_induction(ctx):
    """Unbounded part (any number of pages and lines): Apalache proves that IndInv of spec/PageDecoderInd.tla is inductive
    (base: Init => IndInv, step: IndInv /\\ Next => IndInv') and refutes it for Legacy = TRUE.  TLC's PROPERTY Refines (above)
    ties PageDecoderInd to PageDecoder.tla, which trace validation ties to the code."""
    import shutil
    import subprocess
    import time
    from ..core import MachineryFailure, VERIF
    exe = shutil.which("apalache-mc")
    if exe is None:
        ctx.notes["apalache"] = "apalache-mc not found: unbounded induction skipped"
        return
    wd = os.path.join(ctx.workdir, "apalache")
    os.makedirs(wd, exist_ok=True)
    shutil.copy(os.path.join(VERIF, "spec", "PageDecoderInd.tla"), wd)
    runs = [("step: IndInv /\\ Next => IndInv' (repaired)", ["--cinit=CInitRepaired", "--init=IndInit", "--inv=IndInv", "--length=1"], "NoError"),
            ("base: Init => IndInv (repaired)", ["--cinit=CInitRepaired", "--init=Init", "--inv=IndInv", "--length=0"], "NoError"),
            ("self-test: step must fail with Legacy = TRUE", ["--cinit=CInitLegacy", "--init=IndInit", "--inv=IndInv", "--length=1"], "Error")]
    out = []
    for name, args, want in runs:
        t0 = time.time()
        try:
            p = subprocess.run([exe, "check"] + args + ["--out-dir=" + os.path.join(wd, "out"), "PageDecoderInd.tla"], cwd=wd,
                               stdout=subprocess.PIPE, stderr=subprocess.STDOUT, text=True, timeout=900)
        except subprocess.TimeoutExpired:
            raise MachineryFailure("apalache-mc timed out on PageDecoderInd (%s)" % name)
        got = "NoError" if "The outcome is: NoError" in p.stdout else ("Error" if "The outcome is: Error" in p.stdout else "?")
        out.append({"obligation": name, "outcome": got, "wall_s": round(time.time() - t0, 1)})
        if got != want:
            raise MachineryFailure("apalache-mc on PageDecoderInd: %s gave %s, expected %s\n%s" % (name, got, want, p.stdout[-2000:]))
    shutil.rmtree(wd, ignore_errors=True)
    ctx.notes["apalache_inductive_invariant"] = out


def check_shape(ctx, s):
    dump = os.path.join(ctx.workdir, "pd_graph_%d.dot" % len(ctx.tlc_runs))
    # PROPERTY Refines: every step of PageDecoder is a step of PageDecoderInd (the unbounded abstraction proved inductive by Apalache)
    res = ctx.tlc("PageDecoder", constants=constants(s), invariants=INVS, properties=["Refines"], workers=4, dump=dump, timeout=1500,
                  label="PageDecoder " + label(s))
    if s["nk"] == 2:
        ctx.never_taken[:] = [a for a in ctx.never_taken if not a.endswith(".LineFail")]     # kind 2 is not part of this shape
    path = dump if os.path.exists(dump) else dump + ".dot"
    hists, n_nodes, n_edges = histories_from_dot(path)
    os.remove(path)
    ctx.notes.setdefault("state_graphs", []).append({"shape": label(s), "states": res["distinct"], "edges": n_edges,
                                                     "maximal_paths_executed": len(hists)})
    traces = execute(s, hists)
    judge(ctx, s, traces)
    if s == shapes(ctx.tier)[0]:
        environment_histories(ctx, s, hists)


# ------------------------------------------------------------------ schedule clause through parse_folder.main()
def schedule_clause(ctx, cfgids, pages="ABC", nlines=2, nk=2):
    from .. import pf_common as P
    s = shape(pages, nlines, nk, [1, 2], 3)
    P.STUB["nlines"] = nlines
    P.STUB["parser_class"] = D.DecodingPageParser
    root = os.path.join(ctx.workdir, "pf")
    os.makedirs(root, exist_ok=True)
    traces = []
    try:
        for cfgid in cfgids:
            D.PAR.update(cfgid=cfgid, pages=pages, nlines=nlines, nk=nk, names=dict(D.FILE_NAMES))
            fn = D.file_name_of
            got = {}

            def grab(key):
                def f(base):
                    got[key] = D.read_results(os.path.join(base, "out_xml"), pages if key[0] != "alone" else key[1])
                return f
            alone, aconf = {}, {}
            for p in pages:
                P.run_history(root, "alone_" + p, [fn(p)], ["xml"], [-1], inspect=grab(("alone", p)))
                alone[p], aconf[p] = got[("alone", p)][0][p], got[("alone", p)][1][p]
            modes = [("sequential batch", [-1], 1), ("--process-count 2", [-1], 2), ("killed after the first page and resumed", [1, -1], 1)]
            for name, sched, pc in modes:
                tr, _ = P.run_history(root, "batch", [fn(p) for p in pages], ["xml"], sched, process_count=pc, inspect=grab(("batch",)))
                res, conf = got[("batch",)]
                calls = []
                for run in tr["runs"]:
                    for n, ptoks in enumerate(run["started"]):
                        p = D.page_of_file(P.name_of(ptoks))
                        w = run["page_workers"][n] if pc > 1 else 1
                        ok = run["exit"] in ("ok", "killed")
                        calls.append({"page": p, "worker": w, "outcome": "ok" if ok else run["exit"], "env": "main", "via": "parse_folder " + name,
                                      "decodes": [], "res": [res[p], conf[p]], "alone": [alone[p], aconf[p]],
                                      "last_line": [], "has_h": False, "last_h": []})
                for p in pages:
                    if p not in {c["page"] for c in calls}:
                        calls.append({"page": p, "worker": 1, "outcome": "not-processed", "env": "main", "via": "parse_folder " + name, "decodes": [],
                                      "res": [res[p], conf[p]], "alone": [alone[p], aconf[p]], "last_line": [], "has_h": False,
                                      "last_h": []})
                traces.append({"cfgid": cfgid, "hist": [[c["worker"], c["page"]] for c in calls], "calls": calls, "mode": name})
    finally:
        P.STUB["parser_class"] = None
        D.PAR["names"] = None
    ctx.notes["schedule_clause"] = {"page_contents": list(cfgids), "modes": ["alone", "sequential batch", "--process-count 2",
                                                                            "killed after the first page and resumed"],
                                    "tool_runs": len(traces) + len(cfgids) * len(pages)}
    judge(ctx, s, traces, selftest=False, detailed=False, what="parse_folder")


def run(ctx):
    logging.getLogger("pero_ocr").setLevel(logging.CRITICAL)     # lines without logits are part of the input space
    ctx.rule = ("every maximal path (history of process_page calls, page -> worker dispatch) of the TLC state graph of PageDecoder, "
                "for every page content of the shape, replayed on real PageDecoder instances; non-trivial = CARRY_H_OVER on, >= 2 "
                "calls and a line decoded after the first call; the histories of the first shape once more with the calls spread over "
                "worker threads / re-enabled autograd (real LMWrapper page contents); plus parse_folder.main() batches (alone / "
                "sequential / 2 processes / resumed)")
    ctx.exhaustive = True
    ctx.assume("toy language model whose hidden state is the sequence of symbols consumed (LMWrapper interface); optical evidence of "
               "decoded lines exactly tied between two letters so that the LM alone decides",
               "behind the real LMWrapper (every other page content) the toy LM is a torch module WITH dropout layers (recurrent part "
               "and output layer), handed over in training mode as construct_lm hands over a loaded LSTM LM: identical to the plain "
               "context LM once the wrapper has put it into evaluation mode, RNG-dependent scores otherwise; its parameters (weights "
               "equal to 1.0) require grad as those of any loaded model",
               "confident-line skipping: one threshold (0.9) separating lines with all frames >= 0.98 from lines with a 0.45 frame",
               "the layout / cropping / OCR stages are replaced by a stub (RNG-based tie-breakers of layout stages are outside the anchors)",
               "transcriptions are never empty (an empty last_line is not re-primed from)")
    first = shapes(ctx.tier)[0]
    apalache_induction(ctx)
    ctx.tlc("PageDecoder", constants=constants(first, legacy=True), invariants=["HistoryIndependent"], workers=4,
            expect_violation="HistoryIndependent", coverage=False, label="self-test Legacy=TRUE must violate HistoryIndependent")
    ctx.tlc("PageDecoder", constants=constants(first, legacy=True), invariants=["Isolation"], workers=4,
            expect_violation="Isolation", coverage=False, label="self-test Legacy=TRUE must violate Isolation")
    for s in shapes(ctx.tier):
        check_shape(ctx, s)
    schedule_clause(ctx, [1, 0, 7, 21] if ctx.tier == "quick" else [1, 0, 3, 7, 21, 43, 85, 127])
    ctx.notes["explanation"] = ("TLC exhaustive on PageDecoder per shape (invariants %s), Legacy self-test; every maximal path replayed on "
                                "pero_ocr.document_ocr.page_parser.PageDecoder + CTCPrefixLogRawNumpyDecoder and validated by "
                                "PageDecoder_Trace; schedule clause through user_scripts/parse_folder.py" % INVS)


def replay(ctx, case):
    logging.getLogger("pero_ocr").setLevel(logging.CRITICAL)
    s = case["shape"]
    if case.get("kind") == "parse_folder":
        schedule_clause(ctx, [case["cfgid"]], pages=s["pages"], nlines=s["nlines"], nk=s["nk"])
        return
    envs = case.get("envs") or None
    traces = execute(s, [(case["cfgid"], tuple((w, p) for w, p in case["hist"]))], envs=envs)
    judge(ctx, s, traces, selftest=False, detailed=not envs)
