"""ERRSUM - growth beyond the listed properties (DESIGN.md section 8 / 12.5): the error-statistics accumulator
pero_ocr/error_summary.py (ErrorsSummary.from_lists per line, ErrorsSummary.aggregate per group of lines, aggregate of the
aggregates, error_rate, __str__, BoundaryErrorsSummary and its __eq__) as the state machine spec/ErrorSummary.tla.

1. Design: TLC checks ErrorSummary.tla for every history of the bounded shape (all ref / hyp pairs over the alphabet up to the
   length bound, every grouping of the lines into aggregate calls, EVERY minimum-cost alignment of each line): invariants INVS,
   action property InputsUntouched, liveness Terminates.  Two must-violate runs: Legacy=TRUE (EqSound: __eq__ compares two of the
   six ending counters) and OptimalOnly=FALSE (OnlyDocumentedErrors: with a non-optimal alignment the AssertionError of
   BoundaryErrorsSummary is reachable - the guarantee rests on C13).
2. Cases: the SAME histories (derived from the same bounds dict) are executed on the real code, one JSON trace per history;
   plus seeded larger histories (longer lines, more symbols, more lines and groups) beyond the exhaustive bounds.
3. Conformance: ErrorSummary_Trace (Legacy=TRUE = current behaviour) decides every recorded run.

Not a listed property: a rejected run is printed as ERRSUM-MISMATCH and makes the command exit 1, but no VIOLATION line for any
property id is produced."""
import hashlib
import itertools
import json
import math
import os
import random
import re

from ..core import pmap, OUT_DIR

LEVEL = "model_checking"
INVS = ["TypeOK", "OnlyDocumentedErrors", "ErrorsSplit", "ErrorsAreDistances", "ConfusionMass", "OneClassPerLine", "ClassMeaning",
        "AggregateIsFlat", "OrderIndependent", "RateDefined", "EqSound", "CodeChoiceAdmissible"]
PROPS = ["InputsUntouched"]          # action property; the liveness property Terminates is checked on B_LIVE (TLC's liveness
                                     # checking costs 3-4 times the safety run)

# bounded spaces: the TLC constants and the enumeration of the real executions are both derived from these dicts
B_HIST = {"alphabet": 2, "maxlen": 2, "maxlines": 2, "maxparts": 2}     # 49 pairs, histories of <= 2 lines in <= 2 groups
B_LINE3 = {"alphabet": 3, "maxlen": 3, "maxlines": 1, "maxparts": 1}    # 1600 pairs, one line
B_LINE4 = {"alphabet": 2, "maxlen": 4, "maxlines": 1, "maxparts": 1}    # 961 pairs, one line
B_THREE = {"alphabet": 2, "maxlen": 1, "maxlines": 3, "maxparts": 3}    # 9 pairs, histories of <= 3 lines in <= 3 groups
B_HIST3 = {"alphabet": 2, "maxlen": 3, "maxlines": 2, "maxparts": 1}    # 225 pairs, <= 2 lines in one group
B_LIVE = {"alphabet": 2, "maxlen": 1, "maxlines": 2, "maxparts": 2}     # 9 pairs: Terminates (a subset of B_HIST)
B_SELF = {"alphabet": 2, "maxlen": 2, "maxlines": 1, "maxparts": 1}
# wide enough for every recorded run, exhaustive or sampled
TRACE_CONSTS = {"Alphabet": {1, 2, 3, 4}, "MaxLen": 14, "MaxLines": 8, "MaxParts": 5, "OptimalOnly": True, "Legacy": True}

VARIANTS = {
    "str": ["a", "b", "c", "d"],
    "int": [3, 7, 11, 19],
    "word": ["ab", "b", "abc", "\U0001D504"],        # symbols of several characters (word error rate), one astral character
}
CONTAINERS = ["list", "tuple", "generator", "iterator"]


def consts(b, optimal=True, legacy=False):
    return {"Alphabet": set(range(1, b["alphabet"] + 1)), "MaxLen": b["maxlen"], "MaxLines": b["maxlines"],
            "MaxParts": b["maxparts"], "OptimalOnly": optimal, "Legacy": legacy}


def strings(alphabet, maxlen):
    out = []
    for n in range(maxlen + 1):
        out += [list(p) for p in itertools.product(range(1, alphabet + 1), repeat=n)]
    return out


def histories(b):
    """every complete behaviour of ErrorSummary.tla for the bounds b, as its inputs: a sequence of <= maxparts groups (one
    aggregate call each), <= maxlines lines [ref, hyp] in all"""
    strs = strings(b["alphabet"], b["maxlen"])
    pairs = [[r, h] for r in strs for h in strs]
    for g in range(b["maxparts"] + 1):
        for sizes in itertools.product(range(b["maxlines"] + 1), repeat=g):
            if sum(sizes) > b["maxlines"]:
                continue
            for lines in itertools.product(pairs, repeat=sum(sizes)):
                groups, pos = [], 0
                for s in sizes:
                    groups.append([list(x) for x in lines[pos:pos + s]])
                    pos += s
                yield groups


def _decorate(groups, n):
    """how the symbols are instantiated and in what container the summaries are handed over: a deterministic function of the case"""
    key = n + sum(len(r) + 2 * len(h) for g in groups for r, h in g) + len(groups)
    return {"groups": groups, "variant": sorted(VARIANTS)[key % len(VARIANTS)], "container": key % len(CONTAINERS)}


def sampled(rng, n):
    """seeded histories beyond the exhaustive bounds: 2-4 symbols, lines of length <= 12, <= 7 lines in <= 4 groups; the
    hypothesis is an unrelated string, the reference itself, or the reference with a few OCR-like edits (often at the END of
    the line, which is what the boundary classes are about)"""
    out = []
    for c in range(n):
        ksym = rng.choice([2, 3, 4])
        groups, left = [], rng.randint(1, 7)
        for _ in range(rng.randint(1, 4)):
            size = rng.randint(0, min(left, 3))
            left -= size
            grp = []
            for _ in range(size):
                ref = [rng.randint(1, ksym) for _ in range(rng.randint(0, 10))]
                kind = rng.choice(["random", "equal", "noisy", "noisy", "tail", "tail"])
                if kind == "random":
                    hyp = [rng.randint(1, ksym) for _ in range(rng.randint(0, 10))]
                elif kind == "equal":
                    hyp = list(ref)
                else:
                    hyp = list(ref)
                    for _ in range(rng.randint(1, 3)):
                        lo = max(0, len(hyp) - 2) if kind == "tail" else 0
                        pos = rng.randint(lo, len(hyp)) if hyp else 0
                        op = rng.choice(["sub", "ins", "del"])
                        if op == "ins" or not hyp:
                            hyp.insert(pos, rng.randint(1, ksym))
                        elif op == "del":
                            del hyp[min(pos, len(hyp) - 1)]
                        else:
                            p = min(pos, len(hyp) - 1)
                            hyp[p] = 1 + hyp[p] % ksym
                    hyp = hyp[:12]
                grp.append([ref, hyp])
            groups.append(grp)
        out.append(_decorate(groups, c))
    return out


# ------------------------------------------------------------------------------------------------ the real code
def _num(x):
    """count -> int; -2 = not an integer, -3 = not a number"""
    if isinstance(x, bool):
        return int(x)
    try:
        f = float(x)
    except Exception:
        return -3
    if not math.isfinite(f) or abs(f - round(f)) > 1e-9 or abs(f) > 1e9:
        return -2
    return int(round(f))


def _back(rev, x):
    if x is None:
        return 0
    key = x.item() if hasattr(x, "item") else x
    try:
        return rev.get(key, 99)
    except TypeError:
        return 99


_STR = re.compile(r"^(\S+) % \( (\S+) / (\S+) ; sub: (\S+) ins: (\S+) del: (\S+) \)$")


def _fix(x, scale):
    """float -> fixed point; -1 = +inf, -2 = nan / -inf / out of range"""
    try:
        f = float(x)
    except Exception:
        return -2
    if f == math.inf:
        return -1
    if not math.isfinite(f) or f < 0 or f * scale > 2e9:
        return -2
    return int(round(f * scale))


def project(s, rev):
    """an ErrorsSummary as integers (see ErrorSummary_Trace.tla); reads the confusion table without creating entries"""
    e = s.ending_errors
    conf = []
    for r, rowc in s.confusions.items():
        for h, n in rowc.items():
            if n != 0:
                conf.append([_back(rev, r), _back(rev, h), _num(n)])
    m = _STR.match(str(s))
    if m:
        txt = [_fix(m.group(1), 100)] + [_num(m.group(i)) if re.match(r"^-?\d+$", m.group(i)) else -3 for i in range(2, 7)]
    else:
        txt = [-9] * 6
    return {"n": [_num(s.nb_lines_summarized), _num(s.ref_len), _num(s.nb_errors), _num(s.nb_subs), _num(s.nb_inss), _num(s.nb_dels)],
            "b": [_num(e.correct), _num(e.pure_deletions), _num(e.mixed_deletions), _num(e.pure_insertions), _num(e.mixed_insertions),
                  _num(e.pure_substitutions)],
            "conf": sorted(conf), "ppm": _fix(s.error_rate, 1000000), "str": txt}


_CACHE = {}      # per process: (variant, ref, hyp) -> (summary object, its first projection, witness alignment)


def _wrap(kind, xs):
    return [list, tuple, lambda v: (x for x in v), iter][kind](xs)


def execute(case):
    """one history on the real code.  Callers keep their summaries: the ErrorsSummary of a (ref, hyp) line is a LONG-LIVED object
    of the worker process, created once and handed to aggregate again in every later history that contains the line."""
    from pero_ocr.error_summary import ErrorsSummary
    from pero_ocr.sequence_alignment import levenshtein_alignment
    syms = VARIANTS[case["variant"]]
    rev = {c: i + 1 for i, c in enumerate(syms)}
    tr = {"groups": case["groups"], "variant": case["variant"], "container": case["container"], "events": [], "outcome": "ok"}
    ev = tr["events"]
    try:
        items, parts = [], []
        for grp in case["groups"]:
            mine = []
            for ref, hyp in grp:
                key = (case["variant"], tuple(ref), tuple(hyp))
                if key not in _CACHE:
                    r, h = [syms[i - 1] for i in ref], [syms[i - 1] for i in hyp]
                    try:
                        s = ErrorsSummary.from_lists(r, h)
                    except Exception as ex:        # part of the observation
                        ev.append({"e": "add", "ref": ref, "hyp": hyp, "al": [], "item": {}, "exc": type(ex).__name__})
                        tr["outcome"] = "exception:" + type(ex).__name__
                        return tr
                    try:
                        al = [[_back(rev, a), _back(rev, b)] for a, b in levenshtein_alignment(list(h), list(r))]
                    except Exception:
                        al = []
                    _CACHE[key] = (s, project(s, rev), al)
                s, p, al = _CACHE[key]
                ev.append({"e": "add", "ref": ref, "hyp": hyp, "al": al, "item": p, "exc": ""})
                mine.append(s)
                items.append(s)
            agg = ErrorsSummary.aggregate(_wrap(case["container"], mine))
            ev.append({"e": "close", "agg": project(agg, rev)})
            parts.append(agg)
        total = ErrorsSummary.aggregate(_wrap(case["container"], parts))
        held = items + parts + [total]
        eq = [[bool(a.ending_errors == b.ending_errors) for b in held] for a in held]
        ev.append({"e": "finish", "total": project(total, rev), "eq": eq,
                   "items": [project(s, rev) for s in items], "parts": [project(s, rev) for s in parts]})
    except Exception as ex:                        # an exception out of aggregate / == / str: no step of the model matches it
        ev.append({"e": "raise", "exc": type(ex).__name__})
        tr["outcome"] = "exception:" + type(ex).__name__
    return tr


# ------------------------------------------------------------------------------------------------ the check
def _mismatch(ctx, case, tr, stage):
    os.makedirs(os.path.join(OUT_DIR, "ERRSUM"), exist_ok=True)
    path = None
    if len(ctx.violations) < 5:
        h = hashlib.sha1(json.dumps(case, sort_keys=True).encode()).hexdigest()[:10]
        path = os.path.join(OUT_DIR, "ERRSUM", "%s-%s-%s.json" % (ctx.tier, ctx.seed, h))
        with open(path, "w") as fh:
            json.dump({"property": "ERRSUM", "case": case, "stage": stage, "trace": tr}, fh, indent=1)
    if len(ctx.violations) < 12:
        bad = tr["events"][stage] if stage < len(tr["events"]) else {}
        print("ERRSUM-MISMATCH stage=%d case=%s first-unmatched-event=%s replay=%s" % (
            stage, {k: case[k] for k in ("groups", "variant", "container")}, json.dumps(bad)[:900], path))
    ctx.violations.append({"signature": "errsum", "what": "run is not a behaviour of ErrorSummary.tla", "replay": path})


def _judge(ctx, cases, label, chunk=12000):
    """execute on the real code, validate with TLC (in chunks: one JVM holds a few thousand runs), account"""
    good = []
    for lo in range(0, len(cases), chunk):
        cs = cases[lo:lo + chunk]
        traces = pmap(execute, cs, procs=6)
        acc, rej = ctx.validate("ErrorSummary_Trace", traces, constants=TRACE_CONSTS, shards=max(1, min(4, len(traces) // 1500)),
                                label="ErrorSummary_Trace " + label)
        bad = dict(rej)
        for i, tr in enumerate(traces):
            nt = any(r != h for g in tr["groups"] for r, h in g)
            ctx.count(1, (tr["variant"], tr["container"], repr(tr["groups"])) if nt else None)
            if i in bad:
                _mismatch(ctx, cs[i], tr, bad[i])
            elif len(good) < 400 or nt:
                if len(good) < 4000:
                    good.append(tr)
    return good


def run(ctx):
    quick = ctx.tier == "quick"
    ctx.rule = ("every history of ErrorSummary.tla within the bounds: lines = all (ref, hyp) pairs over 2-3 symbols up to length 1-4, "
                "<= 1-3 lines grouped in every way into <= 1-3 aggregate calls, then the aggregate of the aggregates; plus seeded longer "
                "histories (<= 7 lines of length <= 12 over <= 4 symbols, <= 4 groups); symbols as characters / ints / words, summaries "
                "handed over as list / tuple / generator / iterator; non-trivial = some line has ref != hyp")
    ctx.exhaustive = True
    ctx.assume("ref and hyp are Python lists of hashable symbols none of which is None (from_lists on two str objects raises TypeError "
               "inside levenshtein_distance: not modelled, not exercised)",
               "the alignment inside from_lists is any minimum-cost alignment (C13); its tie-breaks are not pinned")
    designs = [B_HIST, B_LINE3]
    if not quick:
        designs += [B_LINE4, B_THREE, B_HIST3]
    for b in designs:
        ctx.tlc("ErrorSummary", constants=consts(b), invariants=INVS, properties=PROPS, spec="Spec", workers=4, timeout=2400,
                label="ErrorSummary intended %s" % json.dumps(b, sort_keys=True))
    ctx.tlc("ErrorSummary", constants=consts(B_LIVE), invariants=["TypeOK"], properties=["Terminates"], spec="Spec", workers=2,
            count=False, label="ErrorSummary liveness %s" % json.dumps(B_LIVE, sort_keys=True))
    ctx.tlc("ErrorSummary", constants=consts(B_SELF, legacy=True), invariants=INVS, spec="Spec", workers=2,
            expect_violation="EqSound", label="ErrorSummary legacy (__eq__ compares two of six counters)")
    ctx.tlc("ErrorSummary", constants=consts(B_SELF, optimal=False), invariants=INVS, spec="Spec", workers=2,
            expect_violation="OnlyDocumentedErrors", label="ErrorSummary with non-optimal alignments (AssertionError reachable)")

    cases, n = [], 0
    for b in designs:
        for groups in histories(b):
            cases.append(_decorate(groups, n))
            n += 1
    ctx.notes["exhaustive_histories"] = len(cases)
    good = _judge(ctx, cases, "exhaustive")
    extra = sampled(random.Random(7000 + ctx.seed), 400 if quick else 6000)
    ctx.notes["sampled_histories"] = len(extra)
    good_s = _judge(ctx, extra, "sampled")
    for pool in (good, good_s):
        pick = [t for t in pool if t["events"] and t["events"][-1]["e"] == "finish" and t["events"][-1]["total"]["conf"]
                and len(t["events"][-1]["items"]) >= 2]
        if pick:
            ctx.sample(pick[len(pick) // 2])
    pick = [t for t in good if t["events"][-1]["e"] == "finish" and t["events"][-1]["total"]["conf"]]
    if pick:
        def corrupt(t):
            t["events"][-1]["total"]["conf"][0][2] += 1      # one cell of the final confusion table is one too large
            return t
        ctx.selftest_corrupt("ErrorSummary_Trace", pick[len(pick) // 2], corrupt, constants=TRACE_CONSTS)
    ctx.notes["explanation"] = ("TLC on ErrorSummary.tla (every history within the bounds, every minimum-cost alignment) + every such history "
                                "and %d seeded larger ones executed on the real ErrorsSummary.from_lists / aggregate; validated by "
                                "ErrorSummary_Trace with Legacy=TRUE (current __eq__)" % len(extra))


def replay(ctx, case):
    c = case["case"] if "case" in case and "groups" not in case else case
    tr = execute(c)
    acc, rej = ctx.validate("ErrorSummary_Trace", [tr], constants=TRACE_CONSTS)
    for _, stage in rej:
        _mismatch(ctx, c, tr, stage)
