"""C03 - LM fusion: the LM score is the LM's own score; the result maximises vis + scale * LM (DESIGN.md section 4, C03).

Same machine as C02 (spec/CtcDecoder.tla) with the LM part switched on: a toy history-dependent LM (state = whole
prefix) implemented identically in TLA+ (LMw, EosW) and in Python (harness/ctc_common.ToyLM).  TLC proves LmExact /
LmExactEos on the design; every real execution (beam with LM scores after each frame, best_hyp(), confidence(),
returned state) is validated against CtcDecoder_Trace.

History: the bag a decode hands on is a long-lived object (public LM scale lm_weight, add(), sort()).  For a seeded sample of
the same matrices the bag is followed through a life - queried, re-weighted in place with other scales of the scope (0 =
LM-free scoring) and back, copied hypothesis by hypothesis into a bag of the caller, sorted, re-weighted - while the shared
decoder goes on to other lines (and, for a third of the cases, has just failed on a line that is not normalised); every query
is validated by TLC against the final beam of the model under the scale of the moment (spec/CtcBag_Trace.tla clauses L1..L5,
harness/lmbag_common.py).
"""
from .. import ctc_common as C
from .. import lmbag_common as B
from . import c02

LEVEL = "model_checking"
INVS = ["LmExact", "LmExactEos", "NoOverCount"]


def configs(ctx):
    L = lambda **kw: C.base_cfg(UseLm=True, **kw)
    q = [L(K=2, SP=1, SQ=1, Bonus=1), L(K=2, SP=0, SQ=1, Bonus=2, Eos=True), L(K=3, SP=1, SQ=2, Bonus=1, Eos=True, H0=2),
         L(K=2, SP=2, SQ=1, Bonus=2), L(K=3, SP=3, SQ=1, Bonus=1, H0=1), L(K=100, SP=1, SQ=1, Bonus=2, Eos=True),
         # the same toy LM behind the real LMWrapper / HiddenState (torch tensors, in-place state updates)
         L(K=1, SP=1, SQ=1, Bonus=1, Eos=True, lm_impl="wrapped"), L(K=2, SP=1, SQ=2, Bonus=2, H0=2, lm_impl="wrapped"),
         # the toy LM raised to the power 100 (single continuations score down to -138) with the LM scale divided by 100
         L(K=3, SP=1, SQ=2, Bonus=1, Eos=True, lm_impl="deep"), L(K=100, SP=1, SQ=1, Bonus=2, lm_impl="deep")]
    if ctx.tier == "quick":
        return q
    more = []
    for k in (1, 2, 3):
        for sp, sq in ((0, 1), (1, 2), (1, 1), (3, 2), (2, 1), (3, 1)):
            for bonus in (1, 2):
                for eos in (False, True):
                    more.append(L(K=k, SP=sp, SQ=sq, Bonus=bonus, Eos=eos, H0=(k + sp + bonus) % 3))
    more += [L(K=k, SP=sp, SQ=sq, Bonus=2, Eos=bool(k % 2), H0=k % 3, lm_impl="wrapped")
             for k in (1, 2, 3) for sp, sq in ((0, 1), (1, 1), (3, 2))]
    more += [L(K=k, SP=sp, SQ=sq, Bonus=1 + k % 2, Eos=bool(k % 2), H0=k % 3, lm_impl="deep")
             for k in (1, 2, 3) for sp, sq in ((0, 1), (1, 1), (3, 2))]
    more += [L(T=4, K=2, SP=1, SQ=1, Bonus=1, Eos=True), L(T=4, K=3, SP=2, SQ=1, Bonus=1, H0=1),
             L(T=4, K=2, SP=1, SQ=2, Bonus=2, Eos=True, H0=2), L(T=3, NC=3, D=3, K=3, SP=1, SQ=1, Bonus=2, Eos=True)]
    return [c for c in q + more if fits(c)]


def fits(cfg):
    """TLC integers are 32-bit: the order-preserving image vis^SQ * lm^SP of the largest possible total must stay below 2^31"""
    vis = cfg["D"] ** cfg["T"]
    lm = max(3 * cfg["Bonus"], cfg["M"]) ** cfg["T"] * (3 if cfg["Eos"] else 1)
    return vis ** cfg["SQ"] * lm ** cfg["SP"] < 2 ** 31


def _lab(cfg):
    return "T=%d NC=%d D=%d K=%d scale=%d/%d bonus=%d eos=%s h0=%d lm=%s" % (
        cfg["T"], cfg["NC"], cfg["D"], cfg["K"], cfg["SP"], cfg["SQ"], cfg["Bonus"], cfg["Eos"], cfg["H0"],
        cfg.get("lm_impl", "toy"))


# ---- the life of the bag handed on (spec/CtcBag_Trace.tla, harness/lmbag_common.py) -------------------------------------
LIFE_PER_CONFIG = {"quick": 240, "thorough": 600}


def life_scales(cfg):
    """the scales of the model a bag of this config may be re-weighted with: TLC's 32-bit integers must hold the image
    vis^sq * lm^sp of every total (as for the scale of the decode itself)"""
    return [s for s in B.SCALES if fits(dict(cfg, SP=s[0], SQ=s[1]))]


def life_configs(ctx, cfgs):
    """quick: one config per flavour of LM / pruning / end-of-line / initial state; thorough: those and every third other
    T=3 config"""
    ok = [c for c in cfgs if c["T"] == 3 and c["NC"] == 2 and len(life_scales(c)) >= 3
          # L4 (exact posterior for scale 0 / 1): 1000 * sum of totals stays far below 2^31
          and 2000 * c["D"] ** c["T"] * max(3 * c["Bonus"], c["M"]) ** c["T"] * 3 < 2 ** 31]
    want = [dict(K=2, SP=1, SQ=1, lm_impl=None), dict(K=3, SP=1, SQ=2, lm_impl=None), dict(K=100, lm_impl=None),
            dict(lm_impl="wrapped", K=2), dict(lm_impl="deep", K=3)]
    pick = []
    for w in want:
        for c in ok:
            if all(c.get(k) == v for k, v in w.items()) and c not in pick:
                pick.append(c)
                break
    if ctx.tier == "quick":
        return pick
    return pick + [c for c in ok if not any(c is p for p in pick)][::3]


def judge_life(ctx, cfg, traces):
    consts = C.tla_constants(cfg)
    acc, rej = ctx.validate("CtcBag_Trace", traces, constants=consts, shards=min(2, max(1, len(traces) // 100)),
                            label="CtcBag_Trace " + _lab(cfg))
    for tr in traces:
        nt = tr["outcome"] == "ok" and len(tr["frames"][0]) > 1
        ctx.count(1, ("life", tuple(map(tuple, tr["mat"])), _lab(cfg)) if nt else None)
    for idx, prog in rej:
        tr = traces[idx]
        sig, what = B.describe(tr, prog, cfg)
        ctx.violation({"kind": "life", "cfg": cfg, "trace": tr, "progress": prog}, sig,
                      "%s; config %s, matrix %s" % (what, _lab(cfg), tr["mat"]))
    return acc, rej


def run_life(ctx, cfg, mats):
    cfg = dict(cfg, salt=ctx.seed)
    traces = B.run_life(cfg, mats, life_scales(cfg))
    acc, rej = judge_life(ctx, cfg, traces)
    return cfg, traces, rej


def judge(ctx, cfg, traces):
    consts = C.tla_constants(cfg)
    acc, rej = ctx.validate("CtcDecoder_Trace", traces, constants=consts, label="CtcDecoder_Trace " + _lab(cfg))
    for tr in traces:
        nt = len(tr["frames"]) and len(tr["frames"][-1]) > 1
        ctx.count(1, (tuple(map(tuple, tr["mat"])), _lab(cfg)) if nt else None)
    ctx.sample({"config": _lab(cfg), "trace": traces[(len(traces) * 2) // 3]}, limit=4)
    for idx, prog in rej:
        tr = traces[idx]
        what = C.first_bad_clause(tr, prog, cfg)
        sig = "outcome" if tr["outcome"] != "ok" else ("frame" if prog < cfg["T"] else "final-bag")
        ctx.violation({"cfg": cfg, "trace": tr, "progress": prog}, sig,
                      "%s; config %s, matrix %s, best_hyp=%s" % (what, _lab(cfg), tr["mat"], tr["best"]))


def run(ctx):
    ctx.rule = ("every row-normalised matrix of the bounded shape decoded by the real decoder with a toy history-dependent LM "
                "for each (beam width, LM scale, insertion bonus, EOS, initial state) config; beams with LM scores after every "
                "frame, best_hyp(), confidence() and the returned state validated by TLC; non-trivial = more than one final hypothesis; "
                "for a seeded sample of the matrices the returned bag is re-weighted / re-filled / sorted and queried again (bag life)")
    ctx.exhaustive = True
    ctx.assume("toy LM with state = whole prefix (the LMWrapper interface is respected; real LSTM LMs are not exercised)",
               "LM scales are the rationals 0, 1/2, 1, 3/2, 2, 3; insertion bonus log 1 or log 2",
               "exact ties between hypotheses admit any maximiser")
    cfgs = configs(ctx)
    life = life_configs(ctx, cfgs)
    life_good = None
    for cfg in cfgs:
        consts = C.tla_constants(cfg)
        ctx.tlc("CtcDecoder", constants=consts, invariants=INVS, workers=8, timeout=3000, label="CtcDecoder " + _lab(cfg))
        mats = list(C.all_matrices(cfg["T"], cfg["NC"], cfg["D"]))
        if cfg["T"] >= 4:
            mats = ctx.rng.sample(mats, 8000)
            ctx.exhaustive = False
        cfg0 = cfg
        cfg = dict(cfg, salt=ctx.seed)
        traces = C.run_config(cfg, mats)
        judge(ctx, cfg, traces)
        if any(cfg0 is c for c in life):
            # the same matrices (a seeded sample in the quick tier), the bag handed on followed through its life
            n = LIFE_PER_CONFIG[ctx.tier]
            lmats = mats if len(mats) <= n else ctx.rng.sample(mats, n)
            lcfg, ltraces, lrej = run_life(ctx, cfg0, lmats)
            if life_good is None and not lrej:
                life_good = (lcfg, max(ltraces, key=lambda tr: len(tr["life"]) * 100 + len(tr["frames"][0])))
    if life_good is not None:
        def corrupt(tr):      # the bag answers the last query of its life with the confidence of another moment
            tr["life"][-1]["confset"] = [[9]]
            return tr
        ctx.selftest_corrupt("CtcBag_Trace", life_good[1], corrupt, constants=C.tla_constants(life_good[0]))
    ctx.notes["explanation"] = ("TLC exhaustive on CtcDecoder with the LM part per config (invariants %s); every matrix decoded by the real "
                                "decoder + BagOfHypotheses and validated by CtcDecoder_Trace (clauses: LM score per entry and frame, "
                                "best_hyp in arg-max of vis^q*lm^p, best_hyp carries the reported confidence, returned state belongs to a maximiser); "
                                "bag life (CtcBag_Trace): after every re-weighting / add / sort of a long-lived bag best_hyp maximises under the scale "
                                "of the moment, carries the reported confidence, and for scale 0 / 1 the confidence equals the exact posterior" % INVS)


def replay(ctx, case):
    cfg = case["cfg"]
    if case.get("kind") == "life":
        mat = tuple(tuple(r) for r in case["trace"]["mat"])
        judge_life(ctx, cfg, B.run_life(cfg, [mat], life_scales(cfg), procs=1))
        return
    traces = C.run_config(cfg, [tuple(tuple(r) for r in case["trace"]["mat"])])
    judge(ctx, cfg, traces)
