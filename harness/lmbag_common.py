"""C03 helper: the LIFE of the bag of hypotheses a decode with a language model hands on (spec/CtcBag_Trace.tla).

The design specification (spec/CtcDecoder.tla) has no state across calls and harness/ctc_common.py judges a bag once, right
after the decode.  The real BagOfHypotheses is a long-lived object with a public LM scale (lm_weight) and public add() /
sort(): it is queried, re-weighted with another scale of the scope (0 = LM-free scoring), queried again, copied
hypothesis by hypothesis into a bag of the caller, sorted, queried again - while the decoder that produced it goes on to
other lines.  Every query is recorded; whether it agrees with the decode is decided by TLC (clauses L1..L5 of the trace
specification), this module only drives the real code and projects the answers to integers."""
import math

import numpy as np

from pero_ocr.decoding.bag_of_hypotheses import BagOfHypotheses
from pero_ocr.decoding.decoders import CTCPrefixLogRawNumpyDecoder, BLANK_SYMBOL

from . import ctc_common as C
from .core import pmap

# the LM scales of the model (rationals sp / sq in [0, 3])
SCALES = [(0, 1), (1, 2), (1, 1), (3, 2), (2, 1), (3, 1)]

_CFG = {}


def _ids(transcript):
    return [ord(ch) - 96 for ch in transcript]


def _thousandths(x):
    try:
        x = float(x)
    except Exception:
        return -1
    if not math.isfinite(x) or abs(x) > 2e6:
        return -1
    return int(round(x * 1000))


def _query(bag, op, scale, flip):
    """one query of a long-lived bag after the operation `op`; the order of the three questions alternates with `flip`"""
    st = {"op": op, "sp": scale[0], "sq": scale[1], "o": "ok", "members": [], "best": [], "confset": [], "conf": -1, "tconf": -1}
    try:
        st["members"] = [_ids(h.transcript) for h in bag]
        if flip:
            conf = bag.confidence()
            best = bag.best_hyp()
        else:
            best = bag.best_hyp()
            conf = bag.confidence()
        tconf = bag.transcript_confidence(best)
        post = bag.posteriors()
        st["best"] = _ids(best)
        st["conf"] = _thousandths(conf)
        st["tconf"] = _thousandths(tconf)
        st["confset"] = [_ids(h.transcript) for h, p in zip(bag, post) if abs(math.exp(p) - conf) <= 1e-9]
    except Exception as ex:      # part of the observation
        st["o"] = "exception:" + type(ex).__name__
    return st


def _unjudged(f):
    try:
        f()
    except Exception:
        pass


def _life_one(mat):
    c = _CFG
    t_, nc, d, m, e = c["T"], c["NC"], c["D"], c["M"], c["lm_e"]
    dec, eos = c["dec"], bool(c["Eos"])
    wrapped = c.get("lm_impl") == "wrapped"
    probs = np.array([[r[ch] for ch in range(1, nc + 1)] + [r[0]] for r in mat], dtype=float) / d
    with np.errstate(divide="ignore", invalid="ignore"):
        lp = np.log(probs)
    rec = {"mat": [list(r) for r in mat], "frames": [[]], "outcome": "ok", "life": []}
    h = C.hash_of([x for r in mat for x in r]) + c.get("salt", 0)
    weight = lambda s: s[0] / s[1] / e

    def init_h():
        if not c["H0"]:
            return None
        return C.wrapped_state((c["H0"],)) if wrapped else C.ToyH([(c["H0"],)])

    def decode(x):
        return dec(x, model_eos=eos, return_h=True, init_h=init_h())[0]
    with np.errstate(divide="ignore", invalid="ignore", over="ignore"):
        # the decoder object is long-lived too: for a third of the cases a call that fails (a line that is not normalised)
        # comes right before the case
        if h % 3 == 0:
            _unjudged(lambda: decode(lp + math.log(2.0)))
        try:
            boh = decode(lp)
            beam = []
            for hyp in boh:
                ln = len(hyp.transcript)
                beam.append({"p": _ids(hyp.transcript), "s": C._milli(math.exp(hyp.vis_sc) * d ** t_),
                             "l": C._milli(math.exp(hyp.lm_sc / e) * m ** (ln + (1 if eos else 0)))})
            rec["frames"] = [beam]
            life = rec["life"]
            cands = [s for s in c["scales"] if s != (c["SP"], c["SQ"]) and s != (0, 1)]
            decoded = (c["SP"], c["SQ"])
            life.append(_query(boh, "decoded", decoded, h % 2))
            # ... the bag is kept while the decoder goes on to another line (the same frames in reverse order) and the bag
            # answers questions that are not judged
            _unjudged(lambda: decode(lp[::-1]))
            _unjudged(lambda: (str(boh), len(boh), boh.transcript_confidence("?")))
            # re-weighted in place: LM-free scoring first or second, another scale of the scope, and back
            w1, w2 = (0, 1), cands[h % len(cands)]
            if h % 2 and decoded != (0, 1):
                w1, w2 = w2, w1
            for k, s in enumerate([w for w in (w1, w2) if w != decoded] + [decoded]):
                boh.lm_weight = weight(s)
                life.append(_query(boh, "weight", s, (h + k) % 2 == 0))
            # a bag of the caller filled from the returned hypotheses in another order: queried while it is filled, after
            # sort(), after it is re-weighted
            hyps = list(boh)
            r = h % len(hyps)
            hyps = hyps[r:] + hyps[:r]
            sa, sb = c["scales"][(h // 2) % len(c["scales"])], c["scales"][(h // 3) % len(c["scales"])]
            own = BagOfHypotheses(lm_weight=weight(sa))
            for hyp in hyps[:-1]:
                own.add(hyp.transcript, hyp.vis_sc, hyp.lm_sc)
            if len(hyps) > 1:
                life.append(_query(own, "fill", sa, h % 2))
            own.add(hyps[-1].transcript, hyps[-1].vis_sc, hyps[-1].lm_sc)
            life.append(_query(own, "add", sa, h % 2 == 0))
            own.sort()
            life.append(_query(own, "sort", sa, h % 2))
            if sb != sa:
                own.lm_weight = weight(sb)
                life.append(_query(own, "weight", sb, h % 2 == 0))
        except Exception as ex:  # any failure of the real code is part of the observation, never of the harness
            rec["outcome"] = "exception:" + type(ex).__name__
    return rec


def make_decoder(cfg):
    """the decoder of harness/ctc_common.run_config for an LM config"""
    letters = [chr(97 + i) for i in range(cfg["NC"])] + [BLANK_SYMBOL]
    e = C.DEEP_E if cfg.get("lm_impl") == "deep" else 1
    lm = C.make_wrapped_lm(cfg["NC"], cfg["M"]) if cfg.get("lm_impl") == "wrapped" else C.ToyLM(cfg["NC"], cfg["M"], e)
    kw = dict(lm=lm, lm_scale=cfg["SP"] / cfg["SQ"] / e, insertion_bonus=e * math.log(cfg["Bonus"]))
    sel = C.selector(cfg["selector"], cfg["D"])
    if sel is not None:
        kw["relevant_logits_selector"] = sel
    return CTCPrefixLogRawNumpyDecoder(letters, cfg["K"], **kw), e


def run_life(cfg, mats, scales, procs=6):
    """cfg: an LM config of ctc_common.base_cfg; scales: the (sp, sq) a bag may be re-weighted with (chosen by the driver so
    that TLC's 32-bit integers hold the order-preserving image of every total).  One decoder object per worker process
    decodes all its cases; returns one CtcBag_Trace record per matrix."""
    global _CFG
    assert cfg["UseLm"] and len([s for s in scales if tuple(s) not in ((0, 1), (cfg["SP"], cfg["SQ"]))]) >= 1
    dec, e = make_decoder(cfg)
    _CFG = dict(cfg, dec=dec, lm_e=e, scales=[tuple(s) for s in scales])
    return pmap(_life_one, list(mats), procs=procs)


WHAT = {1: "the query raised, or the bag does not hold (some of) the hypotheses of the decode",
        2: "best_hyp() is not a maximiser of visual score + LM scale x LM score under the scale the bag carries at that moment",
        3: "the posterior the bag reports as its confidence is not the posterior it reports for best_hyp()",
        4: "confidence() is not the posterior of best_hyp() under the scale the bag carries at that moment (exact ratio of integers for scale 0 / 1)",
        5: "transcript_confidence(best_hyp()) differs from confidence()"}


def describe(trace, progress, cfg):
    if trace["outcome"] != "ok":
        return "decode", "outcome=%s not allowed by the specification" % trace["outcome"]
    if progress < 100:
        return "final-beam", "the returned bag is not the final beam of any behaviour of CtcDecoder on this matrix"
    j, cl = divmod(progress - 100, 10)
    st = trace["life"][j - 1]
    ops = "->".join("%s(%d/%d)" % (s["op"], s["sp"], s["sq"]) for s in trace["life"][:j])
    return ("bag-life:%s:L%d" % (st["op"], cl),
            "query %d of the bag's life [%s]: %s; best_hyp=%s confidence=%s/1000 transcript_confidence=%s/1000 confset=%s" % (
                j, ops, WHAT.get(cl, "?"), st["best"], st["conf"], st["tconf"], st["confset"]))
