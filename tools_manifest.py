#!/usr/bin/env python3
"""Regenerates MANIFEST.json from harness/registry.json (claimed checks) so that it always validates."""
import json, os, subprocess, sys
here = os.path.dirname(os.path.abspath(__file__))
reg = json.load(open(os.path.join(here, "harness", "registry.json")))
props = [json.loads(l) for l in open(os.path.join(here, "properties.jsonl"))]
checks, na = [], []
for p in props:
    r = reg["checks"].get(p["id"])
    if r and r.get("claimed"):
        checks.append({"property_id": p["id"], "quick_cmd": "./check %s --tier quick" % p["id"],
                       "thorough_cmd": "./check %s --tier thorough" % p["id"],
                       "evidence_file": "/verif/evidence/%s.json" % p["id"],
                       "replay_cmd_template": "./check %s --replay {path}" % p["id"],
                       "engine": "tlc+conformance",
                       "level_claimed": {"category": r["level"], "text": r["text"], "design_ref": "DESIGN.md section 4 " + p["id"]},
                       "level_note": r["note"], "technique": r["technique"]})
    else:
        na.append({"property_id": p["id"], "reason": (r or {}).get("reason", "check not built yet (build in progress); see DESIGN.md section 9")})
m = {"version": 1,
     "setup_cmd": "./setup.sh",
     "hooks": reg["hooks"],
     "engines": [{"name": "tlc+conformance", "path": "/verif/check", "serves_properties": [c["property_id"] for c in checks],
                  "kind_free_text": "explicit TLA+ specification (spec/*.tla) model-checked with TLC; real executions generated from the model's input space / behaviours and validated against *_Trace modules (harness/)"}],
     "checks": checks, "notes": reg.get("notes", ""), "not_applicable": na}
json.dump(m, open(os.path.join(here, "MANIFEST.json"), "w"), indent=1)
print("claimed:", [c["property_id"] for c in checks])
