------------------------- MODULE RegionSort_Trace -------------------------
(* Trace layer for C12.  One trace = one call of SmartRegionSorter.process_page or
   NaiveRegionSorter.process_page on a real PageLayout: the page before the call (inp), the outcome
   ("ok" | "exception:<Type>" | "timeout") and the page that came back (out).  Regions carry their id, type,
   polygon and lines (id, text, heights, baseline, polygon); coordinates are recorded in millionths of a pixel.

   Property-level acceptance (the statement of C12, nothing more):
     1  the call terminated within the wall-clock limit without raising
     2  the returned page holds exactly the input regions, each once          (IsPermOf of the design module)
     3  every region still has its type and its lines: same ids, text, heights, baselines, outlines
     4  every region polygon is unchanged as a shape (ring equality up to start vertex, repeated
        vertices (closing vertex), direction; 1e-6 px grid absorbs the round-off of the de-skew rotation)
   With Detailed = TRUE a fifth clause compares the returned order with the implementation-shaped model
   (SmartOrder / NaiveOrder of RegionSort) for lattice pages without de-skew; a mismatch there is reported as
   MODEL-DRIFT by the driver, never as a violation.                                                        *)
EXTENDS RegionSort, TraceKit
CONSTANT Detailed
VARIABLES tid, passed

Tr == Traces[tid]

IdSeq(rs) == [i \in 1..Len(rs) |-> rs[i].id]
InById(id) == Tr.inp[CHOOSE i \in 1..Len(Tr.inp) : Tr.inp[i].id = id]

\* rings: drop every vertex that repeats its cyclic predecessor (closing vertex, padding of degenerate rings: they do
\* not change the shape), then compare up to start vertex and direction
RingCore(p) == IF Len(p) = 0 THEN <<>>
               ELSE LET keep == {i \in 1..Len(p) : p[i] # p[IF i = 1 THEN Len(p) ELSE i - 1]}
                        ks == SeqOfSet(keep)
                    IN IF keep = {} THEN <<p[1]>> ELSE [j \in 1..Len(ks) |-> p[ks[j]]]
RotSeq(p, k) == [i \in 1..Len(p) |-> p[((i + k - 1) % Len(p)) + 1]]
RevSeq(p) == [i \in 1..Len(p) |-> p[Len(p) + 1 - i]]
RingEq(a, b) == LET x == RingCore(a)
                    y == RingCore(b)
                IN /\ Len(x) = Len(y)
                   /\ (Len(x) = 0 \/ \E k \in 0..(Len(x) - 1) : RotSeq(x, k) = y \/ RotSeq(RevSeq(x), k) = y)

LineIntact(o, r) == /\ o.id = r.id /\ o.text = r.text /\ o.h = r.h
                    /\ o.base = r.base
                    /\ RingEq(o.poly, r.poly)
PayloadIntact(o, r) == /\ o.type = r.type
                       /\ Len(o.lines) = Len(r.lines)
                       /\ \A k \in 1..Len(r.lines) : LineIntact(o.lines[k], r.lines[k])

\* detailed model: lattice boxes in input order, id = position
Mk(bs) == [i \in 1..Len(bs) |-> [id |-> i, x0 |-> bs[i][1], x1 |-> bs[i][2], y0 |-> bs[i][3], y1 |-> bs[i][4]]]
ModelOrder == IF Tr.sorter = "smart" THEN Ids(SmartOrder(Mk(Tr.boxes))) ELSE Ids(NaiveOrder(Mk(Tr.boxes)))
ObservedOrder == [j \in 1..Len(Tr.out) |-> CHOOSE i \in 1..Len(Tr.inp) : Tr.inp[i].id = Tr.out[j].id]

\* Tr.scale = TRUE: a page of tens of thousands of regions (more than any 15- or 16-bit index can address); the driver compared
\* the returned page with the input itself and recorded the three answers in Tr.flags (inp / out are empty)
C1 == Tr.outcome = "ok"
C2 == IF Tr.scale THEN Tr.flags.perm ELSE IsPermOf(IdSeq(Tr.out), IdSeq(Tr.inp))
C3 == IF Tr.scale THEN Tr.flags.payload ELSE \A j \in 1..Len(Tr.out) : PayloadIntact(Tr.out[j], InById(Tr.out[j].id))
C4 == IF Tr.scale THEN Tr.flags.polys ELSE \A j \in 1..Len(Tr.out) : RingEq(Tr.out[j].poly, InById(Tr.out[j].id).poly)
C5 == (Detailed /\ Tr.lattice /\ ~Tr.deskew) => ObservedOrder = ModelOrder

Passed == IF ~C1 THEN 0 ELSE IF ~C2 THEN 1 ELSE IF ~C3 THEN 2 ELSE IF ~C4 THEN 3 ELSE IF ~C5 THEN 4 ELSE 5

TInit == /\ tid \in 1..NTraces
         /\ passed = Passed
         /\ regs = <<>> /\ sorter = Tr.sorter /\ pc = "done" /\ outcome = Tr.outcome /\ out = <<>> /\ stack = <<>>
         /\ labels = <<>> /\ corder = <<>> /\ ci = 1 /\ order = <<>>
TNext == UNCHANGED <<vars, tid, passed>>
TAccept == TKMark(tid, passed, passed = 5)
TPost == TKPost
ASSUME TKReset
=============================================================================
