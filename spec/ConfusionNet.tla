---------------------------- MODULE ConfusionNet ----------------------------
(* Confusion networks (pero_ocr/decoding/confusion_networks.py) as a state machine over addition histories.

   State: the network `cn` = sequence of columns ("sausages"), a column = function from a subset of
   Alphabet \cup {Eps} to positive integer weights (Eps = the `None` arc).  One action per public call:
     Add(h, w)    add_hypothese(cn, h, w): pivot (any arc of maximal weight per column), Levenshtein alignment
                  of h against the pivot (any optimal path, unit costs), then the pointer machine with the three
                  directions  -1 (column only: Eps arc gains w), 0 (both: arc h[tp] gains w),
                  1 (transcript only: a new column {Eps: total, h[tp]: w} is inserted at the pointer);
     Normalize    normalize_cn: weights become the exact fractions cn[k][a] / ColSum(cn[k]) (kept implicit);
     Enumerate    sorted_cn_paths: odometer over the columns (last rotor fastest), then sort by probability;
     Read         get_pivot / best_cn_path / sorted_cn_paths (or anything done to a copy) on the network while it is still
                  being built: a query - the network the caller holds is the same afterwards (no variable changes).
   Weights are integers (scores are small positive integers); a path probability is the integer numerator
   Prod_k cn[k][a_k] over the denominator Prod_k ColSum(cn[k]).

   The module models the REPAIRED pointer machine: after an append at the end of the network the column
   pointer advances.  Legacy = TRUE reproduces the current tree (pointer not advanced: every further
   insertion lands before the column appended first, "x" then "xab" reads "xba").
   A hypothesis "" added to the still empty network leaves no trace in the list-of-columns representation
   (known finding, no small repair): SkipEmptyFirst = TRUE keeps such histories out of the design run,
   SkipEmptyFirst = FALSE makes TLC exhibit the loss (self-test).

   Properties (C14) are at the bottom: action property GrowOnly, invariants Balanced, LastReadable,
   NormSumsToOne, PathsComplete, PathsSorted, SingleReadsBack.                                        *)
EXTENDS Integers, Sequences, FiniteSets, TLC, SequencesExt, FiniteSetsExt
CONSTANTS Alphabet,        \* symbols: positive integers
          MaxLen,          \* longest hypothesis
          MaxAdds,         \* longest history
          Scores,          \* admissible scores (positive integers)
          Legacy,          \* TRUE: pointer not advanced after an append at the end (current tree)
          SkipEmptyFirst,  \* TRUE: the first hypothesis of a history is not empty
          PathCols         \* paths are enumerated for networks of at most this many columns

Eps == 0
Arcs == Alphabet \cup {Eps}
Strs == UNION {[1..n -> Alphabet] : n \in 0..MaxLen}
MinOf(S) == CHOOSE m \in S : \A o \in S : m <= o

\* ---------------------------------------------------------------- columns and networks
ColSum(col) == FoldSet(LAMBDA a, acc : acc + col[a], 0, DOMAIN col)
Bump(col, a, w) == IF a \in DOMAIN col THEN [col EXCEPT ![a] = @ + w] ELSE col @@ (a :> w)
RECURSIVE SumAll(_)
SumAll(net) == IF net = <<>> THEN 0 ELSE ColSum(Head(net)) + SumAll(Tail(net))
\* cn_total_weight = sum(sum(position.values()) for position in cn) / len(cn); exact because columns are balanced
TotalW(net) == SumAll(net) \div Len(net)

\* all strings readable from a network: one arc per column, Eps arcs skipped
RECURSIVE Readable(_)
Readable(net) == IF net = <<>> THEN {<<>>}
                 ELSE {(IF a = Eps THEN <<>> ELSE <<a>>) \o r : a \in DOMAIN Head(net), r \in Readable(Tail(net))}

\* get_pivot: an arc of maximal weight per column (the code takes the first one in dictionary order)
Pivots(net) == {p \in [1..Len(net) -> Arcs] :
                  \A i \in 1..Len(net) : p[i] \in DOMAIN net[i] /\ \A b \in DOMAIN net[i] : net[i][p[i]] >= net[i][b]}

\* levenshtein_alignment_path(h, pivot) with unit costs: paths over {-1, 0, 1};
\* -1 consumes a column, 1 consumes a transcript symbol, 0 both.  Every optimal path is admitted.
RECURSIVE PathsCost(_, _)
PathsCost(h, p) ==   \* set of <<path, cost>>
  IF h = <<>> /\ p = <<>> THEN {<< <<>>, 0 >>}
  ELSE (IF p # <<>> THEN {<< <<-1>> \o pc[1], pc[2] + 1 >> : pc \in PathsCost(h, Tail(p))} ELSE {})
       \cup (IF h # <<>> THEN {<< <<1>> \o pc[1], pc[2] + 1 >> : pc \in PathsCost(Tail(h), p)} ELSE {})
       \cup (IF h # <<>> /\ p # <<>>
             THEN {<< <<0>> \o pc[1], pc[2] + (IF Head(h) = Head(p) THEN 0 ELSE 1) >> : pc \in PathsCost(Tail(h), Tail(p))}
             ELSE {})
OptPaths(h, p) == LET all == PathsCost(h, p)
                      best == MinOf({pc[2] : pc \in all})
                  IN {pc[1] : pc \in {x \in all : x[2] = best}}

\* the pointer machine of add_hypothese (cp, tp are the 1-based cn_pointer / tr_pointer)
RECURSIVE Walk(_, _, _, _, _, _, _)
Walk(net, path, h, cp, tp, w, total) ==
  IF path = <<>> THEN net
  ELSE LET d == Head(path) IN
    IF d = -1 THEN Walk([net EXCEPT ![cp] = Bump(@, Eps, w)], Tail(path), h, cp + 1, tp, w, total)
    ELSE IF d = 0 THEN Walk([net EXCEPT ![cp] = Bump(@, h[tp], w)], Tail(path), h, cp + 1, tp + 1, w, total)
    ELSE LET col == (Eps :> total) @@ (h[tp] :> w) IN
         IF cp = Len(net) + 1
         THEN Walk(Append(net, col), Tail(path), h, (IF Legacy THEN cp ELSE cp + 1), tp + 1, w, total)
         ELSE Walk(SubSeq(net, 1, cp - 1) \o <<col>> \o SubSeq(net, cp, Len(net)), Tail(path), h, cp + 1, tp + 1, w, total)

\* every network add_hypothese may return
AddResults(net, h, w) ==
  IF net = <<>> THEN {[k \in 1..Len(h) |-> (h[k] :> w)]}
  ELSE UNION {{Walk(net, path, h, 1, 1, w, TotalW(net)) : path \in OptPaths(h, p)} : p \in Pivots(net)}

\* ---------------------------------------------------------------- paths (sorted_cn_paths)
\* arcs of a column by non-increasing weight (ties: any order; here by symbol)
ArcOrder(col) == SetToSortSeq(DOMAIN col, LAMBDA a, b : col[a] > col[b] \/ (col[a] = col[b] /\ a < b))
\* odometer: the rotor of the last column turns fastest
RECURSIVE Odo(_)
Odo(net) == IF net = <<>> THEN << <<>> >>
            ELSE LET rest == Odo(Tail(net))
                     arcs == ArcOrder(Head(net))
                 IN FlattenSeq([i \in 1..Len(arcs) |-> [j \in 1..Len(rest) |-> <<arcs[i]>> \o rest[j]]])
RECURSIVE PathNum(_, _)
PathNum(net, f) == IF net = <<>> THEN 1 ELSE Head(net)[Head(f)] * PathNum(Tail(net), Tail(f))
PathStr(f) == SelectSeq(f, LAMBDA a : a # Eps)
RECURSIVE Den(_)
Den(net) == IF net = <<>> THEN 1 ELSE ColSum(Head(net)) * Den(Tail(net))
AllCombos(net) == {f \in [1..Len(net) -> Arcs] : \A k \in 1..Len(net) : f[k] \in DOMAIN net[k]}
\* the sort by probability (any order among equal probabilities)
SortedPaths(net) == SortSeq(Odo(net), LAMBDA f, g : PathNum(net, f) > PathNum(net, g))

\* ---------------------------------------------------------------- the machine
VARIABLES cn,      \* the network
          adds,    \* number of hypotheses added
          total,   \* sum of their scores
          lastH, lastW,   \* the hypothesis / score added last
          phase,   \* "open" | "norm" | "paths"
          paths    \* result of the enumeration (sequence of arc choices)
vars == <<cn, adds, total, lastH, lastW, phase, paths>>

Init == cn = <<>> /\ adds = 0 /\ total = 0 /\ lastH = <<>> /\ lastW = 0 /\ phase = "open" /\ paths = <<>>

Add(h, w) == /\ phase = "open" /\ adds < MaxAdds
             /\ (SkipEmptyFirst /\ adds = 0) => h # <<>>
             /\ adds' = adds + 1 /\ total' = total + w /\ lastH' = h /\ lastW' = w
             /\ cn' \in AddResults(cn, h, w)
             /\ UNCHANGED <<phase, paths>>

Normalize == /\ phase = "open" /\ adds > 0
             /\ phase' = "norm"
             /\ UNCHANGED <<cn, adds, total, lastH, lastW, paths>>

Enumerate == /\ phase = "norm" /\ Len(cn) <= PathCols /\ cn # <<>>
             /\ phase' = "paths"
             /\ paths' = SortedPaths(cn)
             /\ UNCHANGED <<cn, adds, total, lastH, lastW>>

\* a query between two additions (get_pivot, best_cn_path, sorted_cn_paths, normalisation / addition on a COPY): read-only
Read == /\ phase = "open" /\ adds > 0
        /\ UNCHANGED vars

Next == (\E h \in Strs, w \in Scores : Add(h, w)) \/ Normalize \/ Enumerate \/ Read
Spec == Init /\ [][Next]_vars

\* ======================================== properties (C14) ==========================================
\* strings held by a network after n additions (the fresh network holds nothing)
Held(net, n) == IF n = 0 THEN {} ELSE Readable(net)
\* "each existing position gains exactly the added score on one arc": an order-preserving embedding of the
\* old columns into the new network, each image = old column with w added on one arc
GainsOne(old, new, w) == \E a \in DOMAIN new : new = Bump(old, a, w)
RECURSIVE Embeds(_, _, _)
Embeds(old, new, w) == IF old = <<>> THEN TRUE
                       ELSE IF Len(new) < Len(old) THEN FALSE
                       ELSE \/ GainsOne(Head(old), Head(new), w) /\ Embeds(Tail(old), Tail(new), w)
                            \/ Embeds(old, Tail(new), w)
\* no weight is lost: every position carries the total of all scores added so far
BalancedNet(net, tot) == \A k \in 1..Len(net) : ColSum(net[k]) = tot

\* the permissive (property-level) description of one addition
StepOK(old, n, new, h, w, tot) ==
    /\ Held(old, n) \subseteq Readable(new)        \* everything readable stays readable
    /\ h \in Readable(new)                         \* the new hypothesis is readable in its symbol order
    /\ Embeds(old, new, w)                         \* existing positions gain exactly w on one arc
    /\ BalancedNet(new, tot + w)                   \* no weight lost

AddStep == adds' = adds + 1 => StepOK(cn, adds, cn', lastH', lastW', total)
GrowOnly == [][AddStep]_vars

LastReadable == adds > 0 => lastH \in Readable(cn)
Balanced == BalancedNet(cn, total)
\* after normalisation the weights of every position sum to 1 (numerators sum to the denominator)
NormSumsToOne == phase # "open" => \A k \in 1..Len(cn) : ColSum(cn[k]) > 0 /\
                    FoldSet(LAMBDA a, acc : acc + cn[k][a], 0, DOMAIN cn[k]) = ColSum(cn[k])
\* enumerated paths = all arc combinations, each once, probabilities sum to 1
PathsComplete == phase = "paths" =>
                    /\ {paths[i] : i \in 1..Len(paths)} = AllCombos(cn)
                    /\ Len(paths) = Cardinality(AllCombos(cn))
                    /\ FoldSeq(LAMBDA f, acc : acc + PathNum(cn, f), 0, paths) = Den(cn)
PathsSorted == phase = "paths" => \A i \in 1..Len(paths) - 1 : PathNum(cn, paths[i]) >= PathNum(cn, paths[i + 1])
\* a network built from a single hypothesis reads back as that hypothesis
SingleReadsBack == adds = 1 => /\ Readable(cn) = {lastH}
                               /\ \A p \in Pivots(cn) : PathStr(p) = lastH
                               /\ phase = "paths" => (Len(paths) = 1 /\ PathStr(paths[1]) = lastH /\ PathNum(cn, paths[1]) = Den(cn))
=============================================================================
