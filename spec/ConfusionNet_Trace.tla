------------------------- MODULE ConfusionNet_Trace -------------------------
(* Trace layer for ConfusionNet (C14).  One trace = one addition history replayed on the real
   pero_ocr.decoding.confusion_networks functions:

     hyps[j]   = [h |-> symbols, vis |-> v, lm |-> l]   score = v^vw * l^lw (l = 0: no LM score)
     nets[j]   = network returned by the j-th addition (add_hypothese, or produce_cn_from_boh on the first j
                 hypotheses of the bag with normalize=False); column = sequence of <<symbol, weight * 1000>>
     outcome[j]= "ok" or "exception:<type>"
     fin       = normalize_cn / sorted_cn_paths / best_cn_path on the last network
     single    = best_cn_path / sorted_cn_paths on the network built from the first hypothesis alone

   Trace kinds that differ only in HOW the driver obtained the recorded networks (harness/cn_common.py); all are judged by
   the same clauses below, nothing about them is decided in Python:
     plain          fresh objects for every history (replay_history);
     reuse.grow     mode "boh": ONE long-lived bag object, nets[j] = its export after the j-th add; between the recorded exports
                    the same bag is exported with another weight pair, normalised, and once by a call that fails; fin.norm is the
                    bag's own normalised export, taken BEFORE the last recorded (unnormalised) export;
     reuse.resort   mode "boh": that bag after its own sort(); hyps = its new iteration order, nets[j] (j < n) from fresh bags of
                    the first j hypotheses, nets[n] and fin.norm = exports of the long-lived, re-ordered bag - TAdd for the last
                    step says: the export of the re-used bag is one addition (score of its n-th hypothesis) away from the export of
                    its first n-1 hypotheses;
     session        mode "add": the history was executed in a process that had already executed > 1024 resp. > 65 536 DISTINCT
                    two-step histories, two failing calls and (pass 2) this very history once before.  TLC cannot enumerate the
                    140 000 additions of such a process: only a sample of the histories is recorded and validated, the history
                    BEFORE a recorded addition is not in the trace (it is in the replay file: session.spec / pass / index) - the
                    statement is about every single addition, so each recorded one is judged on its own.
     reads          mode "add": the caller LOOKS at the network between two additions (and after the last one).  Optional field
                    reads[j] = the queries made after the j-th addition, in order: [op |-> name, outcome |-> "ok"|"exception:..",
                    net |-> the network object the caller holds, projected AFTER the call].  op is one of get_pivot, best_cn_path,
                    sorted_cn_paths (on the still unnormalised network), normalize_copy / paths_of_normalized_copy / add_on_copy
                    (normalize_cn, sorted_cn_paths(normalize_cn(.)), add_hypothese applied to a deep copy).  Each is matched by
                    TRead = ConfusionNet!Read (a query changes nothing) /\ the recorded network IS the network of the last
                    addition: same positions, same arcs, same weights.  The next addition is then judged by the ordinary step
                    clause against that network (TAdd waits until every recorded query of the step is matched), the final
                    clauses are evaluated on the network as it is after the last query.
   The fields `reuse` / `session` / `reads_plan` are not read here.

   Weights are kept in thousandths (a changed implementation that produces fractional weights is a mismatch,
   not a parse error); every operator of the design module is linear in the weights.

   TNext is PROPERTY-LEVEL acceptance: a step is accepted iff it satisfies ConfusionNet!StepOK (the statement
   of C14), whatever pivot / alignment / tie-break the code used.  Conformance with the detailed model (the
   network is one of ConfusionNet!AddResults of the repaired pointer machine, best_cn_path follows a pivot) is
   tracked in the variable `drift` and never blocks a step: a history that satisfies the property but left the
   detailed model finishes with progress 1000 (reported as MODEL-DRIFT by the driver, not as a violation). *)
EXTENDS ConfusionNet, TraceKit
CONSTANT KnownEmptyFirst    \* TRUE: the open known finding is modelled as a named deviation (TAddAfterEmpty), so that the REST of
                            \* such a history (later additions, normalisation, paths) is still checked
VARIABLES tid, drift,
          rd                \* number of recorded queries (reads) matched so far, over the whole trace

Tr == Traces[tid]
NAdds == Len(Tr.hyps)

RECURSIVE IPow(_, _)
IPow(b, e) == IF e = 0 THEN 1 ELSE b * IPow(b, e - 1)
HypOf(j) == Tr.hyps[j].h
ScoreOf(j) == IPow(Tr.hyps[j].vis, Tr.vw) * (IF Tr.hyps[j].lm = 0 THEN 1 ELSE IPow(Tr.hyps[j].lm, Tr.lw))
ScoreM(j) == 1000 * ScoreOf(j)

\* JSON network -> sequence of functions
ColOf(c) == [a \in {c[i][1] : i \in 1..Len(c)} |-> c[CHOOSE i \in 1..Len(c) : c[i][1] = a][2]]
NetOf(n) == [k \in 1..Len(n) |-> ColOf(n[k])]
WellFormed(n) == \A k \in 1..Len(n) : /\ Len(n[k]) > 0
                                      /\ Cardinality({n[k][i][1] : i \in 1..Len(n[k])}) = Len(n[k])
                                      /\ \A i \in 1..Len(n[k]) : n[k][i][1] \in Arcs /\ n[k][i][2] > 0

TInit == /\ tid \in 1..NTraces
         /\ cn = <<>> /\ adds = 0 /\ total = 0 /\ lastH = <<>> /\ lastW = 0 /\ phase = "open" /\ paths = <<>>
         /\ drift = FALSE /\ rd = 0

\* ---------------------------------------------------------------- queries between the additions (optional field `reads`)
ReadsAfter(j) == IF "reads" \in DOMAIN Tr /\ j >= 1 /\ j <= Len(Tr.reads) THEN Tr.reads[j] ELSE <<>>
RECURSIVE ReadsUpTo(_)
ReadsUpTo(j) == IF j <= 0 THEN 0 ELSE Len(ReadsAfter(j)) + ReadsUpTo(j - 1)
ReadsPending == rd < ReadsUpTo(adds)

\* ---------------------------------------------------------------- one addition
TAdd ==
    /\ phase = "open" /\ adds < NAdds /\ ~ReadsPending
    /\ LET j == adds + 1
           h == HypOf(j)
           w == ScoreM(j)
       IN /\ Tr.outcome[j] = "ok"
          /\ WellFormed(Tr.nets[j])
          /\ LET nxt == NetOf(Tr.nets[j])
             IN /\ StepOK(cn, adds, nxt, h, w, total)
                \* (the set of all optimal alignment paths is enumerated only for hypotheses inside the design bounds)
                /\ drift' = (drift \/ (Len(h) <= 3 /\ nxt \notin AddResults(cn, h, w)))
                /\ cn' = nxt
          /\ adds' = j /\ total' = total + w /\ lastH' = h /\ lastW' = w
    /\ UNCHANGED <<phase, paths, rd>>

\* a query: the design step Read (nothing changes) and the network the caller holds afterwards is the network of the last addition
TRead ==
    /\ ReadsPending
    /\ Read
    /\ LET r == ReadsAfter(adds)[rd - ReadsUpTo(adds - 1) + 1]
       IN /\ r.outcome = "ok"
          /\ WellFormed(r.net)
          /\ NetOf(r.net) = cn
    /\ rd' = rd + 1 /\ UNCHANGED drift

\* the known deviation (add:first-hypothesis-empty): every hypothesis so far was '' and left no trace, the network is still empty;
\* add_hypothese then starts afresh from this hypothesis - the weight of the dropped ones is gone (total restarts)
TAddAfterEmpty ==
    /\ KnownEmptyFirst /\ phase = "open" /\ adds < NAdds /\ adds >= 1 /\ cn = <<>> /\ ~ReadsPending
    /\ LET j == adds + 1
           h == HypOf(j)
           w == ScoreM(j)
       IN /\ Tr.outcome[j] = "ok"
          /\ WellFormed(Tr.nets[j])
          /\ NetOf(Tr.nets[j]) = [k \in 1..Len(h) |-> (h[k] :> w)]
          /\ cn' = NetOf(Tr.nets[j])
          /\ adds' = j /\ total' = (IF h = <<>> THEN 0 ELSE w) /\ lastH' = h /\ lastW' = w
    /\ UNCHANGED <<phase, paths, drift, rd>>
\* ---------------------------------------------------------------- normalisation
Abs(x) == IF x < 0 THEN -x ELSE x
NormOK ==
    /\ Tr.fin.outcome = "ok"
    /\ Len(Tr.fin.nsum) = Len(cn) /\ Len(Tr.fin.norm) = Len(cn)
    /\ WellFormed(Tr.fin.norm)
    /\ \A k \in 1..Len(cn) :
          /\ Abs(Tr.fin.nsum[k] - 1000000) <= 1                       \* weights of a position sum to 1 (ppm)
          /\ LET nc == ColOf(Tr.fin.norm[k])                          \* in 1/10000
                 s == ColSum(cn[k])
             IN /\ DOMAIN nc = DOMAIN cn[k]
                /\ \A a \in DOMAIN nc : Abs(nc[a] * s - 10000 * cn[k][a]) <= s     \* = cn[k][a] / s

\* ---------------------------------------------------------------- path enumeration
Integral(net) == \A k \in 1..Len(net) : \A a \in DOMAIN net[k] : net[k][a] % 1000 = 0
Units(net) == [k \in 1..Len(net) |-> [a \in DOMAIN net[k] |-> net[k][a] \div 1000]]
ObsPath(i) == <<Tr.fin.paths[i].s, Tr.fin.paths[i].p>>
PathsOK ==
    (Tr.fin.has_paths /\ Integral(cn)) =>
      LET net == Units(cn)
          obs == Tr.fin.paths
          n == Len(obs)
          combos == AllCombos(net)
          val(f) == <<PathStr(f), 1000 * PathNum(net, f)>>
          vals == {val(f) : f \in combos} \cup {ObsPath(i) : i \in 1..n}
      IN /\ Tr.fin.pscale = Den(net)
         /\ n = Cardinality(combos)                                                 \* every combination ...
         /\ \A v \in vals : Cardinality({i \in 1..n : ObsPath(i) = v})
                            = Cardinality({f \in combos : val(f) = v})              \* ... exactly once
         /\ \A i \in 1..n - 1 : obs[i].p >= obs[i + 1].p                           \* non-increasing
         /\ FoldSeq(LAMBDA x, acc : acc + x.p, 0, obs) = 1000 * Den(net)            \* sums to 1

\* ---------------------------------------------------------------- single hypothesis reads back
SingleOK ==
    /\ Tr.single.outcome = "ok"
    /\ Tr.single.best = HypOf(1)
    /\ HypOf(1) # <<>> => (Len(Tr.single.paths) = 1 /\ Tr.single.paths[1].s = HypOf(1)
                            /\ Abs(Tr.single.paths[1].p - 1000000) <= 1)

BestOK == Tr.fin.best \in {PathStr(p) : p \in Pivots(cn)}

TFinish ==
    /\ adds = NAdds /\ ~ReadsPending /\ UNCHANGED <<cn, adds, total, lastH, lastW, paths, rd>>
    /\ \/ phase = "open" /\ NormOK /\ phase' = "norm" /\ UNCHANGED drift
       \/ phase = "norm" /\ PathsOK /\ phase' = "paths" /\ drift' = (drift \/ ~BestOK)
       \/ phase = "paths" /\ SingleOK /\ phase' = "done" /\ UNCHANGED drift

TNext == UNCHANGED tid /\ (TAdd \/ TAddAfterEmpty \/ TRead \/ TFinish)

PhaseNo == CASE phase = "open" -> 0 [] phase = "norm" -> 1 [] phase = "paths" -> 2 [] OTHER -> 3
\* progress: 10000 * matched queries + (10 * accepted additions + finished final stages; 1000 = property satisfied, detailed model
\* left (drift)) - both parts only grow along a trace; without the field `reads` the first part is 0
TAccept == TKMark(tid, 10000 * rd + (IF phase = "done" THEN 1000 ELSE 10 * adds + PhaseNo), phase = "done" /\ ~drift)
TPost == TKPost
ASSUME TKReset
=============================================================================
