---------------------------- MODULE ForcedAlign ----------------------------
(* Forced alignment of a label sequence to a CTC cost matrix (pero_ocr/core/force_alignment.py), property C05.

   Implementation-shaped: one action per step of force_align / align_text
     Build      complete_state_seq (blank check) + hmm_trans_from_string + initial_cost + first frame
     Frame      one iteration of the loop in viterbi_align (= one call of the numba kernel compute_update)
     Finish     final_cost, failure test, arg-min over the two final states
     Backtrack  one iteration of the loop in backtrack()
     AlignText  one iteration of the loop of align_text: the aligned frame of the next character where the network is most confident
   Costs are small naturals plus the distinguished Inf (np.inf); Plus saturates like IEEE addition does.

   The code keeps one back-pointer per (frame, state): the first strict minimum in the iteration order of
   np.where(A != inf).  Only the back-pointers on the path that is finally walked matter, so the model stores the
   cost vector of every frame (hist) and lets Backtrack choose ANY arg-min predecessor; likewise Finish may pick any
   of the two final states on a tie and AlignText any most-confident frame: every admissible tie-break is a
   behaviour of the specification.

   Property side (bottom): brute force over all C^T frame labellings - collapse, total cost, minimum.     *)
EXTENDS Naturals, Sequences, FiniteSets, TLC, SequencesExt, FiniteSetsExt
CONSTANTS T,        \* frames
          C,        \* symbols 0..C-1
          MaxL,     \* label strings of length 1..MaxL
          Vals,     \* cost values a matrix cell may take (Inf = 999 stands for np.inf)
          Blanks,   \* candidate blank indices
          Mut       \* "none" = the algorithm as it is; other values = seeded defects used by the self-test of the invariants

Inf == 999
Plus(a, b) == IF a >= Inf \/ b >= Inf THEN Inf ELSE a + b
Min2(a, b) == IF a < b THEN a ELSE b
MinOf(S) == CHOOSE m \in S : \A o \in S : m <= o
Syms == 0..(C-1)
NoSym == C + 7                                   \* "no previous symbol"
LabelStrings == UNION {[1..n -> Syms] : n \in 1..MaxL}

VARIABLES cm,       \* cost matrix  [1..T -> [Syms -> Vals]]  (neg_logprobs)
          labels,   \* symbols_seq
          blank,    \* blank_symbol
          phase,    \* "start" | "viterbi" | "backtrack" | "aligned" | "done" | "error"
          t,        \* frames consumed by the Viterbi loop
          hist,     \* hist[f][i] = act_cost of HMM state i after frame f
          path,     \* HMM states from the current back-track position to the last frame
          pos       \* align_text result: frame of each character
vars == <<cm, labels, blank, phase, t, hist, path, pos>>

\* ---------------------------------------------------------------- the CTC "HMM" of hmm_trans_from_string
LenL(lab) == Len(lab)
NSt(lab) == 2 * Len(lab) + 1                                      \* states 0..2L
SymOfS(lab, b, i) == IF i % 2 = 0 THEN b ELSE lab[(i + 1) \div 2]   \* complete_seq
CharOfS(i) == IF i % 2 = 0 THEN 0 ELSE (i + 1) \div 2               \* char_sequence (+1; 0 = blank state)
PredS(lab, i) == {i} \cup (IF i >= 1 THEN {i - 1} ELSE {})
                     \cup (IF /\ i % 2 = 1 /\ i >= 3
                              /\ (Mut = "skip_equal" \/ lab[(i + 1) \div 2] # lab[(i - 1) \div 2])
                           THEN {i - 2} ELSE {})
L == Len(labels)
NS == NSt(labels)
SymOf(i) == SymOfS(labels, blank, i)
Pred(i) == PredS(labels, i)
BlankAmongLabels == blank \in {labels[k] : k \in 1..L}

\* ---------------------------------------------------------------- property side: brute force
RECURSIVE CollapseB(_, _, _)
CollapseB(a, prev, b) == IF a = <<>> THEN <<>>
                         ELSE IF Head(a) = prev THEN CollapseB(Tail(a), prev, b)
                         ELSE IF Head(a) = b THEN CollapseB(Tail(a), b, b)
                         ELSE <<Head(a)>> \o CollapseB(Tail(a), Head(a), b)
Collapse(a) == CollapseB(a, NoSym, blank)
PathCostOf(m, a) == FoldSet(LAMBDA f, acc : Plus(acc, m[f][a[f]]), 0, DOMAIN a)
PathCost(a) == PathCostOf(cm, a)
Valid == {a \in [1..T -> Syms] : Collapse(a) = labels}
BestCost == IF Valid = {} THEN Inf ELSE MinOf({PathCost(a) : a \in Valid})
\* the structural condition of the statement: enough frames for the labels plus one blank per immediate repeat
Feasible == /\ ~BlankAmongLabels
            /\ T >= L + Cardinality({k \in 1..(L-1) : labels[k] = labels[k+1]})
\* character index (1..L, 0 on blank frames) of every frame of a labelling: the k-th new non-blank run is character k
RECURSIVE CharIdxR(_, _, _, _)
CharIdxR(a, f, prev, k) == IF f > Len(a) THEN <<>>
                           ELSE IF a[f] = blank THEN <<0>> \o CharIdxR(a, f + 1, blank, k)
                           ELSE IF a[f] = prev THEN <<k>> \o CharIdxR(a, f + 1, prev, k)
                           ELSE <<k + 1>> \o CharIdxR(a, f + 1, a[f], k + 1)
CharIdx(a) == CharIdxR(a, 1, NoSym, 0)
\* confidence of the network in frame f = its best symbol (align_text: (-neg_logprobs).max(axis=-1)); smaller cost = more confident
FrameBest(f) == MinOf({cm[f][s] : s \in Syms})
FramesOf(ci, k) == {f \in 1..Len(ci) : ci[f] = k}
\* positions p (frame per character) are admissible for the character-index sequence ci
PosAdmissible(p, ci) ==
    /\ DOMAIN p = 1..L
    /\ \A k \in 1..L : /\ p[k] \in FramesOf(ci, k)
                       /\ \A f \in FramesOf(ci, k) : FrameBest(p[k]) <= FrameBest(f)
StrictlyIncreasing(p) == \A k \in 1..(Len(p) - 1) : p[k] < p[k + 1]

\* ---------------------------------------------------------------- implementation side
Init == /\ cm \in [1..T -> [Syms -> Vals]]
        /\ labels \in LabelStrings
        /\ blank \in Blanks
        /\ phase = "start" /\ t = 0 /\ hist = <<>> /\ path = <<>> /\ pos = <<>>

\* initial_cost(nb_states) + neg_logits[0]
FirstCost == [i \in 0..(NS-1) |-> IF i = 0 \/ (i = 1 /\ Mut # "init_state0") THEN cm[1][SymOf(i)] ELSE Inf]

Build == /\ phase = "start"
         /\ IF BlankAmongLabels
            THEN phase' = "error" /\ UNCHANGED <<t, hist>>
            ELSE phase' = "viterbi" /\ t' = 1 /\ hist' = <<FirstCost>>
         /\ UNCHANGED <<cm, labels, blank, path, pos>>

Frame == /\ phase = "viterbi" /\ t < T
         /\ LET act == hist[t]
                new == [i \in 0..(NS-1) |-> Plus(MinOf({act[j] : j \in Pred(i)}), cm[t+1][SymOf(i)])]
            IN  hist' = Append(hist, new)
         /\ t' = t + 1
         /\ UNCHANGED <<cm, labels, blank, phase, path, pos>>

FinalStates == IF Mut = "final_last" THEN {NS - 1} ELSE {NS - 1, NS - 2}
Finish == /\ phase = "viterbi" /\ t = T
          /\ LET fc == hist[T]
                 best == MinOf({fc[i] : i \in FinalStates})
             IN  IF best >= Inf
                 THEN phase' = "error" /\ UNCHANGED path
                 ELSE /\ phase' = "backtrack"
                      /\ \E s \in FinalStates : fc[s] = best /\ path' = <<s>>
          /\ UNCHANGED <<cm, labels, blank, t, hist, pos>>

Backtrack == /\ phase = "backtrack"
             /\ IF Len(path) = T
                THEN phase' = "aligned" /\ UNCHANGED path
                ELSE LET f == T - Len(path)                 \* frame of the predecessor looked for
                         cur == path[1]
                         m == MinOf({hist[f][j] : j \in Pred(cur)})
                     IN  /\ \E j \in Pred(cur) : hist[f][j] = m /\ path' = <<j>> \o path
                         /\ UNCHANGED phase
             /\ UNCHANGED <<cm, labels, blank, t, hist, pos>>

SymPath == [f \in 1..Len(path) |-> SymOf(path[f])]            \* force_align(...)
SeqPath == [f \in 1..Len(path) |-> CharOfS(path[f])]          \* force_align(..., return_seq_positions=True), +1

\* one iteration of the loop over the characters in align_text
AlignText == /\ phase = "aligned"
             /\ IF Len(pos) = L
                THEN phase' = "done" /\ UNCHANGED pos
                ELSE LET k == Len(pos) + 1
                         fr == FramesOf(SeqPath, k)                           \* np.nonzero(logit_characters == i)
                         conf == {FrameBest(f) : f \in fr}
                         pick == IF Mut = "argmin_pos" THEN CHOOSE m \in conf : \A o \in conf : m >= o ELSE MinOf(conf)
                     IN  /\ \E f \in fr : FrameBest(f) = pick /\ pos' = Append(pos, f)
                         /\ UNCHANGED phase
             /\ UNCHANGED <<cm, labels, blank, t, hist, path>>

Next == Build \/ Frame \/ Finish \/ Backtrack \/ AlignText
Spec == Init /\ [][Next]_vars

\* ======================================== properties (C05) =========================================
Returned == phase \in {"aligned", "done"}
\* one symbol per frame that collapses exactly to the labels
ValidPath == Returned => (Len(path) = T /\ Collapse(SymPath) = labels)
\* total cost minimal among all such alignments
Optimal == Returned => (PathCost(SymPath) = BestCost /\ BestCost < Inf)
\* the sequence-position variant is the character numbering of the same alignment
SeqPosConsistent == Returned => SeqPath = CharIdx(SymPath)
\* failure iff no alignment exists
FailsIffNoAlignment == /\ phase = "error" => (BlankAmongLabels \/ BestCost >= Inf)
                       /\ phase \in {"backtrack", "aligned", "done"} => (~BlankAmongLabels /\ BestCost < Inf)
\* with finite costs everywhere, failure is exactly the structural condition of the statement
AllFinite == \A f \in 1..T, s \in Syms : cm[f][s] < Inf
FeasibilityBoundary == AllFinite =>
                          /\ phase = "error" => ~Feasible
                          /\ phase \in {"backtrack", "aligned", "done"} => Feasible
\* Viterbi column = exact minimum over all partial labellings that end in that state (inductive strengthening)
PartialStateSeqs(f) == {p \in [1..f -> 0..(NS-1)] : /\ p[1] \in 0..1
                                                     /\ \A g \in 2..f : p[g-1] \in Pred(p[g])}
ColumnExact == (phase = "viterbi" /\ Mut = "none") =>
                  \A i \in 0..(NS-1) :
                     LET ends == {p \in PartialStateSeqs(t) : p[t] = i}
                     IN  hist[t][i] = (IF ends = {} THEN Inf
                                       ELSE MinOf({PathCostOf(cm, [g \in 1..t |-> SymOf(p[g])]) : p \in ends}))
\* per-character positions: strictly increasing, each the most confident frame among those aligned to the character
PositionsOK == phase = "done" => (StrictlyIncreasing(pos) /\ PosAdmissible(pos, CharIdx(SymPath)))
=============================================================================
