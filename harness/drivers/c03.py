"""C03 - LM fusion: the LM score is the LM's own score; the result maximises vis + scale * LM (DESIGN.md section 4, C03).

Same machine as C02 (spec/CtcDecoder.tla) with the LM part switched on: a toy history-dependent LM (state = whole
prefix) implemented identically in TLA+ (LMw, EosW) and in Python (harness/ctc_common.ToyLM).  TLC proves LmExact /
LmExactEos on the design; every real execution (beam with LM scores after each frame, best_hyp(), confidence(),
returned state) is validated against CtcDecoder_Trace.
"""
from .. import ctc_common as C
from . import c02

LEVEL = "model_checking"
INVS = ["LmExact", "LmExactEos", "NoOverCount"]


def configs(ctx):
    L = lambda **kw: C.base_cfg(UseLm=True, **kw)
    q = [L(K=2, SP=1, SQ=1, Bonus=1), L(K=2, SP=0, SQ=1, Bonus=2, Eos=True), L(K=3, SP=1, SQ=2, Bonus=1, Eos=True, H0=2),
         L(K=2, SP=2, SQ=1, Bonus=2), L(K=3, SP=3, SQ=1, Bonus=1, H0=1), L(K=100, SP=1, SQ=1, Bonus=2, Eos=True),
         # the same toy LM behind the real LMWrapper / HiddenState (torch tensors, in-place state updates)
         L(K=1, SP=1, SQ=1, Bonus=1, Eos=True, lm_impl="wrapped"), L(K=2, SP=1, SQ=2, Bonus=2, H0=2, lm_impl="wrapped"),
         # the toy LM raised to the power 100 (single continuations score down to -138) with the LM scale divided by 100
         L(K=3, SP=1, SQ=2, Bonus=1, Eos=True, lm_impl="deep"), L(K=100, SP=1, SQ=1, Bonus=2, lm_impl="deep")]
    if ctx.tier == "quick":
        return q
    more = []
    for k in (1, 2, 3):
        for sp, sq in ((0, 1), (1, 2), (1, 1), (3, 2), (2, 1), (3, 1)):
            for bonus in (1, 2):
                for eos in (False, True):
                    more.append(L(K=k, SP=sp, SQ=sq, Bonus=bonus, Eos=eos, H0=(k + sp + bonus) % 3))
    more += [L(K=k, SP=sp, SQ=sq, Bonus=2, Eos=bool(k % 2), H0=k % 3, lm_impl="wrapped")
             for k in (1, 2, 3) for sp, sq in ((0, 1), (1, 1), (3, 2))]
    more += [L(K=k, SP=sp, SQ=sq, Bonus=1 + k % 2, Eos=bool(k % 2), H0=k % 3, lm_impl="deep")
             for k in (1, 2, 3) for sp, sq in ((0, 1), (1, 1), (3, 2))]
    more += [L(T=4, K=2, SP=1, SQ=1, Bonus=1, Eos=True), L(T=4, K=3, SP=2, SQ=1, Bonus=1, H0=1),
             L(T=4, K=2, SP=1, SQ=2, Bonus=2, Eos=True, H0=2), L(T=3, NC=3, D=3, K=3, SP=1, SQ=1, Bonus=2, Eos=True)]
    return [c for c in q + more if fits(c)]


def fits(cfg):
    """TLC integers are 32-bit: the order-preserving image vis^SQ * lm^SP of the largest possible total must stay below 2^31"""
    vis = cfg["D"] ** cfg["T"]
    lm = max(3 * cfg["Bonus"], cfg["M"]) ** cfg["T"] * (3 if cfg["Eos"] else 1)
    return vis ** cfg["SQ"] * lm ** cfg["SP"] < 2 ** 31


def _lab(cfg):
    return "T=%d NC=%d D=%d K=%d scale=%d/%d bonus=%d eos=%s h0=%d lm=%s" % (
        cfg["T"], cfg["NC"], cfg["D"], cfg["K"], cfg["SP"], cfg["SQ"], cfg["Bonus"], cfg["Eos"], cfg["H0"],
        cfg.get("lm_impl", "toy"))


def judge(ctx, cfg, traces):
    consts = C.tla_constants(cfg)
    acc, rej = ctx.validate("CtcDecoder_Trace", traces, constants=consts, label="CtcDecoder_Trace " + _lab(cfg))
    for tr in traces:
        nt = len(tr["frames"]) and len(tr["frames"][-1]) > 1
        ctx.count(1, (tuple(map(tuple, tr["mat"])), _lab(cfg)) if nt else None)
    ctx.sample({"config": _lab(cfg), "trace": traces[(len(traces) * 2) // 3]}, limit=4)
    for idx, prog in rej:
        tr = traces[idx]
        what = C.first_bad_clause(tr, prog, cfg)
        sig = "outcome" if tr["outcome"] != "ok" else ("frame" if prog < cfg["T"] else "final-bag")
        ctx.violation({"cfg": cfg, "trace": tr, "progress": prog}, sig,
                      "%s; config %s, matrix %s, best_hyp=%s" % (what, _lab(cfg), tr["mat"], tr["best"]))


def run(ctx):
    ctx.rule = ("every row-normalised matrix of the bounded shape decoded by the real decoder with a toy history-dependent LM "
                "for each (beam width, LM scale, insertion bonus, EOS, initial state) config; beams with LM scores after every "
                "frame, best_hyp(), confidence() and the returned state validated by TLC; non-trivial = more than one final hypothesis")
    ctx.exhaustive = True
    ctx.assume("toy LM with state = whole prefix (the LMWrapper interface is respected; real LSTM LMs are not exercised)",
               "LM scales are the rationals 0, 1/2, 1, 3/2, 2, 3; insertion bonus log 1 or log 2",
               "exact ties between hypotheses admit any maximiser")
    for cfg in configs(ctx):
        consts = C.tla_constants(cfg)
        ctx.tlc("CtcDecoder", constants=consts, invariants=INVS, workers=8, timeout=3000, label="CtcDecoder " + _lab(cfg))
        mats = list(C.all_matrices(cfg["T"], cfg["NC"], cfg["D"]))
        if cfg["T"] >= 4:
            mats = ctx.rng.sample(mats, 8000)
            ctx.exhaustive = False
        cfg = dict(cfg, salt=ctx.seed)
        traces = C.run_config(cfg, mats)
        judge(ctx, cfg, traces)
    ctx.notes["explanation"] = ("TLC exhaustive on CtcDecoder with the LM part per config (invariants %s); every matrix decoded by the real "
                                "decoder + BagOfHypotheses and validated by CtcDecoder_Trace (clauses: LM score per entry and frame, "
                                "best_hyp in arg-max of vis^q*lm^p, best_hyp carries the reported confidence, returned state belongs to a maximiser)" % INVS)


def replay(ctx, case):
    cfg = case["cfg"]
    traces = C.run_config(cfg, [tuple(tuple(r) for r in case["trace"]["mat"])])
    judge(ctx, cfg, traces)
