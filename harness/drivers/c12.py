"""C12 - region sorting only permutes regions and always terminates (DESIGN.md section 4, C12).

1. Design: TLC explores spec/RegionSort.tla (explicit-stack machine of CoupledRegions.divide_and_order / decouple and
   the DBSCAN loop of the naive sorter) from every page of the bounded lattice: safety (Permutation, NoException,
   FrameConserves, DepthBounded, MachineIsFunction, NaiveIsStableSort) and liveness (Termination = <>Done under weak
   fairness).  Self-tests: Legacy=TRUE (naive sorter without the short-page guard) and Fallback=FALSE (no decouple)
   must violate NoException.
2. Cases: every page of the same lattice (plus sampled larger lattices and free-form pages with slanted lines) is
   built as a real PageLayout - polygons of three shapes with the same bounding box, lines with ids / text /
   heights / baselines / outlines - and handed to the real SmartRegionSorter.process_page and
   NaiveRegionSorter.process_page under a wall-clock limit.
3. Conformance: RegionSort_Trace accepts an execution iff it terminated without raising, returned exactly the
   input regions once each, with payload intact and polygons unchanged as shapes.  The detailed order only feeds
   MODEL-DRIFT (second pass with Detailed=TRUE).
"""
import configparser
import random
import copy
import itertools
import os
import signal
import sys

import numpy as np

from ..core import pmap

LEVEL = "model_checking"
S = 10            # pixels per lattice unit
WIDTH = 100       # image width handed to the naive sorter
WALL_LIMIT = 60   # seconds per call (a call takes ~1 ms; the limit only has to tell "hangs" from "slow machine")
PROCS = 6
INVS = ["Permutation", "NoException", "FrameConserves", "DepthBounded", "MachineIsFunction", "NaiveIsStableSort"]


def _dbg(ctx, msg):
    if os.environ.get("VERIF_DEBUG"):
        sys.stderr.write("[c12 %6.1fs] %s\n" % (ctx.elapsed(), msg))


# ------------------------------------------------------------------------------------------------ input space
def intervals(g):
    return [(a, b) for a in range(g) for b in range(a, g)]


def lattice_boxes(g):
    return [(x0, x1, y0, y1) for (x0, x1) in intervals(g) for (y0, y1) in intervals(g)]


def lattice_pages(g, maxn):
    """every sequence of at most maxn boxes on the g x g lattice = LatticeInputs of RegionSort.tla"""
    bs = lattice_boxes(g)
    for n in range(maxn + 1):
        for p in itertools.product(bs, repeat=n):
            yield list(p)


def design_constants(g, maxn, eps=1, legacy=False, fallback=True, inputs="<- LatticeInputs"):
    return {"Inputs": inputs, "G": g, "MaxN": maxn, "Sorters": {"smart", "naive"}, "Eps": eps,
            "Legacy": legacy, "Fallback": fallback, "MaxDepth": 2 * maxn + 4}


# ------------------------------------------------------------------------------------------------ real pages
def _poly_of_box(box, sv):
    """three polygons with the bounding box `box` (lattice units): rectangle, rectangle with an extra vertex,
    concave L (the sorters look at the bounding box only)"""
    x0, x1, y0, y1 = [v * S for v in box]
    xm, ym = (x0 + x1) // 2, (y0 + y1) // 2
    if sv == 0:
        return [[x0, y0], [x1, y0], [x1, y1], [x0, y1]]
    if sv == 1:
        return [[x0, y0], [xm, y0], [x1, y0], [x1, y1], [x0, y1]]
    return [[x0, y0], [x1, y0], [x1, ym], [xm, ym], [xm, y1], [x0, y1]]


def _line(rid, k, x0, y0, x1, y1, slope_px):
    """one text line: 3-point baseline from (x0+1, y) to (x1+4, y + slope), rectangle-ish outline, heights [3, 1]"""
    ya = (y0 + y1) // 2 + 3 * k
    xs = [x0 + 1, (x0 + x1) // 2 + 2, x1 + 4]
    ys = [ya, ya + slope_px // 2, ya + slope_px]
    base = [[xs[i], ys[i]] for i in range(3)]
    poly = [[xs[0], ys[0] - 3], [xs[2], ys[2] - 3], [xs[2], ys[2] + 1], [xs[0], ys[0] + 1]]
    return {"id": "%s-l%03d" % (rid, k + 1), "text": "text %s/%d" % (rid, k), "h": [3, 1], "base": base, "poly": poly}


def lattice_case(boxes, sorter, idx, denom=10):
    """page description (plain dict, also the replay record) for a lattice page; payload/shape variant from idx"""
    pv, sv, it = idx % 3, (idx // 3) % 3, (idx // 9) % 2
    regions = []
    for i, box in enumerate(boxes):
        rid = "r%d" % (i + 1)
        x0, x1, y0, y1 = [v * S for v in box]
        if pv == 0:
            lines = []
        elif pv == 1:      # horizontal lines, 0..2 per region: no de-skew
            lines = [_line(rid, k, x0, y0, x1, y1, 0) for k in range((i + idx) % 3)]
        else:              # slanted lines, 2..3 per region: non-zero de-skew rotation in the smart sorter
            lines = [_line(rid, k, x0, y0, x1, y1, 1 + (i + k + idx) % 3) for k in range(2 + (i + idx) % 2)]
        regions.append({"id": rid, "type": ["text", "none", "heading"][(i + idx) % 3], "poly": _poly_of_box(box, sv),
                        "int": bool(it), "lines": lines})
    return {"sorter": sorter, "width": WIDTH, "denom": denom, "regions": regions, "boxes": [list(b) for b in boxes],
            "lattice": True}


def free_case(rng, sorter):
    """free-form page: 0..7 random polygons on a quarter-pixel grid (overlapping, nested, identical, degenerate),
    random slanted lines"""
    n = rng.choice([0, 1, 2, 2, 3, 3, 4, 5, 6, 7])
    regions = []
    for i in range(n):
        rid = "reg_%d" % i
        if regions and rng.random() < 0.15:
            poly = copy.deepcopy(regions[rng.randrange(len(regions))]["poly"])      # identical polygon
        else:
            cx, cy = rng.randrange(0, 360) / 4.0, rng.randrange(0, 360) / 4.0
            w, h = rng.choice([0, 1, 8, 20, 40]) , rng.choice([0, 1, 8, 20, 40])
            k = rng.choice([3, 4, 5, 6])
            poly = [[cx + rng.randrange(0, 4 * w + 1) / 4.0, cy + rng.randrange(0, 4 * h + 1) / 4.0] for _ in range(k)]
        lines = []
        for k in range(rng.choice([0, 0, 1, 2, 3, 4])):
            x0, y0 = rng.randrange(0, 300) / 4.0, rng.randrange(0, 300) / 4.0
            ln, dy = rng.randrange(8, 200) / 4.0, rng.choice([0, 0, 1, -1, 2, 5, -7, 12]) / 4.0 * rng.choice([1, 4])
            base = [[x0, y0], [x0 + ln / 2, y0 + dy / 2], [x0 + ln, y0 + dy]]
            poly_l = [[x0, y0 - 3], [x0 + ln, y0 + dy - 3], [x0 + ln, y0 + dy + 1], [x0, y0 + 1]]
            lines.append({"id": "%s-l%03d" % (rid, k + 1), "text": "w%d %d" % (i, k), "h": [3, 1], "base": base, "poly": poly_l})
        regions.append({"id": rid, "type": rng.choice(["text", "none"]), "poly": poly, "int": False, "lines": lines})
    return {"sorter": sorter, "width": rng.choice([100, 400]), "denom": rng.choice([10, 5, 20]), "regions": regions,
            "boxes": [], "lattice": False}


def build_page(case):
    from pero_ocr.core.layout import PageLayout, RegionLayout, TextLine
    page = PageLayout(id="p", page_size=(400, case["width"]))
    for r in case["regions"]:
        dt = np.int64 if r.get("int") else np.float64
        reg = RegionLayout(r["id"], np.array(r["poly"], dtype=dt).reshape(-1, 2), region_type=None if r["type"] == "none" else r["type"])
        for ln in r["lines"]:
            reg.lines.append(TextLine(id=ln["id"], baseline=np.array(ln["base"], dtype=np.float64),
                                      polygon=np.array(ln["poly"], dtype=np.float64), heights=list(ln["h"]),
                                      transcription=ln["text"]))
        page.regions.append(reg)
    return page


def _micro(v):
    v = float(v)
    if not np.isfinite(v) or abs(v) > 2000:
        return -2000000000
    return int(round(v * 1e6))


def _pts(a):
    if a is None:
        return [[-2000000000, -2000000000]]
    a = np.asarray(a)
    if a.ndim != 2 or a.shape[1] != 2:
        return [[-2000000000, len(a.shape)]]
    return [[_micro(x), _micro(y)] for x, y in a]


def project(page):
    """abstract state of a page: per region id, type, polygon and lines (fixed point, millionths of a pixel)"""
    out = []
    for reg in page.regions:
        lines = []
        for ln in reg.lines:
            h = ln.heights if ln.heights is not None else []
            lines.append({"id": str(ln.id), "text": "<none>" if ln.transcription is None else str(ln.transcription),
                          "h": [_micro(x) for x in h], "base": _pts(ln.baseline), "poly": _pts(ln.polygon)})
        out.append({"id": str(reg.id), "type": "none" if reg.region_type is None else str(reg.region_type),
                    "poly": _pts(reg.polygon), "lines": lines})
    return out


class _Timeout(BaseException):
    pass


def _alarm(signum, frame):
    raise _Timeout()


_SORTERS = {}


def _sorter(name, denom):
    key = (name, denom)
    if key not in _SORTERS:
        from pero_ocr.layout_engines.smart_sorter import SmartRegionSorter
        from pero_ocr.layout_engines.naive_sorter import NaiveRegionSorter
        cp = configparser.ConfigParser()
        cp.add_section("s")
        cp["s"]["ImageWidthDenominator"] = str(denom)
        _SORTERS[key] = SmartRegionSorter(cp["s"]) if name == "smart" else NaiveRegionSorter(cp["s"])
    return _SORTERS[key]


def run_case(case):
    """one real call; returns the trace"""
    from pero_ocr.layout_engines.smart_sorter import SmartRegionSorter
    page = build_page(case)
    tr = {"sorter": case["sorter"], "boxes": case["boxes"], "lattice": bool(case["lattice"]), "deskew": False,
          "inp": project(page), "outcome": "ok", "out": [], "scale": False, "flags": {"perm": True, "payload": True, "polys": True}}
    if case["sorter"] == "smart" and len(page.regions) >= 2:
        try:      # is this page de-skewed by the smart sorter? (then the lattice model of the *order* does not apply)
            rot = SmartRegionSorter.get_rotation(max(*page.regions, key=lambda reg: len(reg.lines)).lines)
            tr["deskew"] = bool(rot != 0)
        except Exception:
            tr["deskew"] = True
    sorter = _sorter(case["sorter"], case["denom"])
    image = np.zeros((1, case["width"], 3), dtype=np.uint8)
    if case.get("after_failure"):
        _failing_call(sorter, image, [r["id"] for r in case["regions"]])
    old = signal.signal(signal.SIGALRM, _alarm)
    signal.setitimer(signal.ITIMER_REAL, WALL_LIMIT)
    try:
        res = sorter.process_page(image, page)
        signal.setitimer(signal.ITIMER_REAL, 0)
        tr["out"] = project(res)
    except _Timeout:
        tr["outcome"] = "timeout"
    except RecursionError:
        signal.setitimer(signal.ITIMER_REAL, 0)
        tr["outcome"] = "exception:RecursionError"
    except Exception as ex:   # part of the observation
        signal.setitimer(signal.ITIMER_REAL, 0)
        tr["outcome"] = "exception:" + type(ex).__name__
    finally:
        signal.setitimer(signal.ITIMER_REAL, 0)
        signal.signal(signal.SIGALRM, old)
    return tr


def _failing_call(sorter, image, ids=()):
    """The sorters are long-lived objects (one per process, like the page parser's): before some cases the same object is handed
    a slanted page one of whose regions has a two-point outline - a page outside the scope on which the call may raise half-way.
    Whatever it does there, it must not leave anything behind for the next page (whose regions carry the same ids)."""
    from pero_ocr.core.layout import PageLayout, RegionLayout, TextLine
    page = PageLayout(id="bad", page_size=(400, image.shape[1]))
    for k, poly in enumerate(([[10, 10], [90, 14], [88, 60], [8, 56]], [[120, 20], [180, 26]], [[10, 100], [90, 104], [88, 150], [8, 146]])):
        rid = ids[k] if k < len(ids) else "r%d" % k
        reg = RegionLayout(rid, np.array(poly, dtype=np.float64))
        for j in range(2):
            y = poly[0][1] + 10 + 12 * j
            reg.lines.append(TextLine(id="%s-l%d" % (rid, j), baseline=np.array([[poly[0][0] + 2, y], [poly[0][0] + 60, y + 3]], dtype=np.float64),
                                      polygon=np.array([[poly[0][0] + 2, y - 6], [poly[0][0] + 60, y - 3], [poly[0][0] + 60, y + 5],
                                                        [poly[0][0] + 2, y + 2]], dtype=np.float64), heights=[6, 2], transcription="x"))
        page.regions.append(reg)
    old = signal.signal(signal.SIGALRM, _alarm)
    signal.setitimer(signal.ITIMER_REAL, WALL_LIMIT)
    try:
        sorter.process_page(image, page)
    except BaseException:
        pass
    finally:
        signal.setitimer(signal.ITIMER_REAL, 0)
        signal.signal(signal.SIGALRM, old)


def run_scale(case):
    """naive sorter on a page of case["n"] regions (small boxes scattered over a wide page)"""
    from pero_ocr.core.layout import PageLayout, RegionLayout
    rng = random.Random(case["seed"])
    n, width = case["n"], 60000
    page = PageLayout(id="big", page_size=(400, width))
    polys = {}
    for k in range(n):
        x, y = rng.randrange(0, width - 20), rng.randrange(0, 380)
        poly = np.array([[x, y], [x + 10, y], [x + 10, y + 8], [x, y + 8]], dtype=np.float64)
        polys["r%d" % k] = poly.copy()
        page.regions.append(RegionLayout("r%d" % k, poly))
    tr = {"sorter": "naive", "boxes": [], "lattice": False, "deskew": False, "inp": [], "out": [], "outcome": "ok", "scale": True,
          "n": n, "flags": {"perm": False, "payload": False, "polys": False}}
    try:
        res = _sorter("naive", 10).process_page(np.zeros((1, width, 3), dtype=np.uint8), page)
        ids = [r.id for r in res.regions]
        tr["flags"]["perm"] = len(ids) == n and set(ids) == set(polys)
        tr["flags"]["payload"] = all(len(r.lines) == 0 and r.region_type is None for r in res.regions)
        tr["flags"]["polys"] = all(r.id in polys and np.array_equal(np.asarray(r.polygon), polys[r.id]) for r in res.regions)
    except Exception as ex:
        tr["outcome"] = "exception:" + type(ex).__name__
    return tr


# ------------------------------------------------------------------------------------------------ verdicts
CLAUSES = {0: "did not terminate normally", 1: "returned regions are not exactly the input regions once each",
           2: "type / lines / ids / text / heights / baselines / line outlines of a region changed",
           3: "a region polygon changed as a shape"}


def _size_class(n):
    if isinstance(n, dict):
        return "scale" if n.get("scale") else _size_class(len(n["inp"]))
    return "empty-page" if n == 0 else ("single-region" if n == 1 else "n>=2")


def signature(tr, prog):
    if prog == 0:
        return "%s:%s:%s" % (tr["sorter"], tr["outcome"], _size_class(tr))
    return "%s:%s:%s" % (tr["sorter"], {1: "not-a-permutation", 2: "payload-changed", 3: "geometry-changed"}.get(prog, "clause%d" % prog),
                         _size_class(tr))


def judge(ctx, cases, traces, label, count=True, drift=True):
    # the trace layer does not use the lattice constants (they only have to be small: TLC evaluates LatticeInputs eagerly)
    consts = design_constants(2, 1)
    acc, rej = ctx.validate("RegionSort_Trace", traces, constants=dict(consts, Detailed=False), shards=min(PROCS, max(1, len(traces) // 200)),
                            label="RegionSort_Trace " + label)
    rejected = {i for i, _ in rej}
    if count:
        for case, tr in zip(cases, traces):
            n = len(tr["inp"])
            key = None
            if n >= 2:
                key = (tr["sorter"], repr(case["boxes"]) if case["lattice"] else repr([r["poly"] for r in case["regions"]]),
                       tr["deskew"], sum(len(r["lines"]) for r in tr["inp"]))
            ctx.count(1, key)
    for i, prog in rej:
        tr = traces[i]
        what = "%s sorter, %d regions: %s (outcome %s); input ids %s, returned ids %s" % (
            tr["sorter"], tr.get("n", len(tr["inp"])), CLAUSES.get(prog, "clause %d" % prog), tr["outcome"],
            [r["id"] for r in tr["inp"]], [r["id"] for r in tr["out"]])
        _PENDING.append(({"case": cases[i], "progress": prog}, signature(tr, prog), what))
    if drift:
        keep = [i for i in range(len(traces)) if i not in rejected and traces[i]["lattice"] and not traces[i]["deskew"]]
        if keep:
            # second pass on the ids only (the payload was judged above)
            def strip(rs):
                return [{"id": r["id"], "type": "", "poly": [], "lines": []} for r in rs]
            sub = [dict(traces[i], inp=strip(traces[i]["inp"]), out=strip(traces[i]["out"])) for i in keep]
            before = ctx.traces_validated
            _, rej2 = ctx.validate("RegionSort_Trace", sub, constants=dict(consts, Detailed=True), shards=min(PROCS, max(1, len(sub) // 200)),
                                   label="RegionSort_Trace detailed order " + label)
            ctx.traces_validated = before
            for j, prog in rej2:
                tr = sub[j]
                ctx.model_drift("%s: returned order differs from RegionSort.%s (permutation holds)" % (
                    tr["sorter"], "SmartOrder" if tr["sorter"] == "smart" else "NaiveOrder"), 1,
                    {"boxes": tr["boxes"], "order": [r["id"] for r in tr["out"]]})
    return acc, rej


_PENDING = []


def flush(ctx):
    """report the rejected executions: one of every signature first (replay files are kept for the first 50 only)"""
    seen, first, rest = set(), [], []
    for v in _PENDING:
        (rest if v[1] in seen else first).append(v)
        seen.add(v[1])
    for case, sig, what in first + rest:
        ctx.violation(case, sig, what)
    tally = ctx.notes.setdefault("rejected_by_signature", {})
    for _, sig, _ in _PENDING:
        tally[sig] = tally.get(sig, 0) + 1
    del _PENDING[:]


def _mc_inputs(pages):
    def rec(i, b):
        return "[id |-> %d, x0 |-> %d, x1 |-> %d, y0 |-> %d, y1 |-> %d]" % (i + 1, b[0], b[1], b[2], b[3])
    items = sorted({"<<" + ", ".join(rec(i, b) for i, b in enumerate(p)) + ">>" for p in pages})
    return ("---- MODULE MC_RegionSort ----\nEXTENDS RegionSort\nSampledInputs == {\n  " + ",\n  ".join(items) + "}\n====\n")


def run(ctx):
    quick = ctx.tier == "quick"
    ctx.rule = ("every sequence of <= MaxN integer boxes on the G x G lattice (zero width/height, identical, nested, overlapping "
                "included), as rectangles / 5-gons / concave L polygons, with no lines, horizontal lines or slanted lines "
                "(non-zero de-skew), through both real sorters; plus sampled larger lattices and free-form quarter-pixel pages; "
                "non-trivial = at least 2 regions")
    ctx.exhaustive = True
    ctx.assume("region ids on a page are unique (quantifier of C12)",
               "coordinates within [0, 1e5) (CoupledRegions initialises its corners with 1e5 / 0) and image width >= "
               "ImageWidthDenominator (DBSCAN rejects eps = 0)",
               "termination of a real call = it returns within %d s wall clock (a call takes about 1 ms)" % WALL_LIMIT,
               "geometry compared on a 1e-6 px grid (measured round-off of the de-skew rotation < 1e-11 px)")

    # ---- 1. design
    lattices = [(2, 3), (3, 2)] if quick else [(2, 4), (3, 3)]
    for g, maxn in lattices:
        ctx.tlc("RegionSort", constants=design_constants(g, maxn), invariants=INVS, properties=["Termination"], spec="Spec",
                workers=4 if quick else 6, timeout=3000, label="RegionSort G=%d MaxN=%d safety+liveness" % (g, maxn))
    ctx.tlc("RegionSort", constants=design_constants(2, 1, legacy=True), invariants=["NoException"], workers=1, coverage=False,
            expect_violation="NoException", label="self-test Legacy=TRUE (naive sorter, empty page)")
    ctx.tlc("RegionSort", constants=design_constants(2, 2, fallback=False), invariants=["NoException"], workers=1, coverage=False,
            expect_violation="NoException", label="self-test Fallback=FALSE (no decouple: RecursionError)")

    _dbg(ctx, "design done")
    # ---- 2./3. the same pages through the real sorters
    import pero_ocr.layout_engines.smart_sorter    # noqa: F401  (import before forking)
    import pero_ocr.layout_engines.naive_sorter    # noqa: F401
    first = True
    for g, maxn in lattices:
        pages = list(lattice_pages(g, maxn))
        cases = [lattice_case(p, s, idx) for idx, p in enumerate(pages) for s in ("smart", "naive")]
        for k, c in enumerate(cases):
            c["after_failure"] = k % 4 == 1        # the long-lived sorter object was handed a page it may fail on just before
        traces = pmap(run_case, cases, procs=PROCS)
        _dbg(ctx, "executed %d" % len(cases))
        consts = design_constants(2, 1)
        acc, rej = judge(ctx, cases, traces, "lattice G=%d MaxN=%d" % (g, maxn))
        _dbg(ctx, "judged")
        for k in (len(cases) // 3, len(cases) // 2):
            ctx.sample({"lattice": [g, maxn], "sorter": cases[k]["sorter"], "boxes": cases[k]["boxes"],
                        "returned": [r["id"] for r in traces[k]["out"]], "outcome": traces[k]["outcome"],
                        "deskew": traces[k]["deskew"]}, limit=6)
        rejected = {i for i, _ in rej}
        good = next((i for i in range(len(traces) - 1, -1, -1) if i not in rejected and len(traces[i]["out"]) >= 2
                     and traces[i]["out"][0]["lines"]), None)
        if first and good is not None:      # binding self-test on the first lattice that has an accepted trace with payload
            first = False

            def corrupt(tr):
                tr["out"][1] = copy.deepcopy(tr["out"][0])     # first region returned twice, second one lost
                return tr
            ctx.selftest_corrupt("RegionSort_Trace", traces[good], corrupt, constants=dict(consts, Detailed=False))

            def corrupt2(tr):
                tr["out"][0]["lines"][0]["text"] += "?"         # a line's text changed
                return tr
            ctx.selftest_corrupt("RegionSort_Trace", traces[good], corrupt2, constants=dict(consts, Detailed=False))

    _dbg(ctx, "lattices done")
    # sampled larger lattice: same inputs through TLC (explicit Inputs) and through the code
    nsamp = 300 if quick else 4000
    g, maxn = (4, 5)
    bs = lattice_boxes(g)
    pages = [[ctx.rng.choice(bs) for _ in range(ctx.rng.choice([3, 4, 4, 5, 5]))] for _ in range(nsamp)]
    pages += [[], [bs[5]]]      # short pages too, so that every action of the machine is taken in this configuration as well
    consts = design_constants(g, maxn, inputs="<- SampledInputs")
    ctx.tlc("MC_RegionSort", constants=consts, invariants=INVS, properties=["Termination"], spec="Spec", workers=4,
            timeout=3000, files={"MC_RegionSort.tla": _mc_inputs(pages)}, label="RegionSort %d sampled pages G=4 n=3..5" % len(pages))
    cases = [lattice_case(p, s, idx) for idx, p in enumerate(pages) for s in ("smart", "naive")]
    traces = pmap(run_case, cases, procs=PROCS)
    judge(ctx, cases, traces, "sampled G=4 n=3..5")
    ctx.sample({"sampled": True, "sorter": cases[0]["sorter"], "boxes": cases[0]["boxes"],
                "returned": [r["id"] for r in traces[0]["out"]]}, limit=7)

    _dbg(ctx, "sampled done")
    # free-form pages (arbitrary polygons, slanted lines): property-level only
    nfree = 400 if quick else 6000
    cases = [free_case(ctx.rng, s) for _ in range(nfree) for s in ("smart", "naive")]
    for k, c in enumerate(cases):
        c["after_failure"] = k % 3 == 0        # the long-lived sorter object was handed a page it may fail on just before
    traces = pmap(run_case, cases, procs=PROCS)
    judge(ctx, cases, traces, "free-form pages", drift=False)
    # scale: more regions than a 15- / 16-bit index can address
    # (the naive sorter holds n x n matrices: 5.5 GB of resident memory at n = 20 000, about 21 GB at 40 000; the former thorough case
    # n = 70 000 - beyond a 16-bit index - needs more than the 62 GB of this machine and was killed by the kernel's OOM killer in
    # the first thorough run after round 7 (2026-10-05 16:07), taking the check with it: a size above 65 535 cannot be run here)
    scases = [{"n": n, "seed": ctx.seed + n, "scale": True} for n in ([33000] if quick else [33000, 40000, 46000])]
    straces = [run_scale(c) for c in scases]
    judge(ctx, scases, straces, "pages of tens of thousands of regions", count=False, drift=False)
    for c in scases:
        ctx.count(1, ("scale", c["n"]))
    ctx.notes["deskewed_pages_executed"] = sum(1 for t in traces if t["deskew"])

    flush(ctx)
    ctx.notes["explanation"] = (
        "TLC exhaustive on RegionSort (explicit-stack machine of divide_and_order/decouple + naive DBSCAN loop) per lattice: "
        "invariants %s and liveness Termination; every page of the same lattices, sampled 4x4-lattice pages (also explored by TLC "
        "through MC_RegionSort) and free-form pages executed by the real SmartRegionSorter / NaiveRegionSorter under a %d s limit and "
        "validated by RegionSort_Trace (terminated, permutation, payload intact, polygons unchanged as shapes)" % (INVS, WALL_LIMIT))


def replay(ctx, rec):
    import pero_ocr.layout_engines.smart_sorter    # noqa: F401
    case = rec["case"]
    traces = [run_scale(case) if case.get("scale") else run_case(case)]
    judge(ctx, [case], traces, "replay", drift=False)
    flush(ctx)
