--------------------------- MODULE Stitch_Trace ---------------------------
(* Trace layer for Stitch (C15).  One trace = one list of parts pushed through the real
   merge_transcriptions_and_logits on every prefix of the list (the merge is a left fold, so the prefix results
   are the intermediate states of the loop) and find_best_overlap on (result so far, next part):

     parts[p]   symbols of part p;  extra[p] surplus logit rows of part p
     steps[j]   j = 1..n: [o |-> detected overlap before merging part j (0 for j = 1), text |-> merged text of
                parts 1..j, rows |-> merged logits as <<part, row>> tags, outcome |-> "ok" | "exception:<type>"]
     final      [text, rows, outcome]: what the caller got for the whole list - the last step itself, or, for the
                engine cases, the line's output of BaseEngineLineOCR.process_lines (model_type = "transformer",
                stub run_ocr) whose recorded window transcriptions are the parts

   TNext is PROPERTY-LEVEL: step j is accepted iff Stitch!StepOK holds for (text of step j-1, part j, detected
   overlap, text and row count of step j).  Whether the recorded text / rows / overlap are exactly those of the
   modelled slice arithmetic and overlap detection is tracked in `drift` and never blocks (progress 1000 =
   property satisfied, detailed model left).                                                              *)
EXTENDS Stitch, TraceKit
VARIABLES tid, drift, fin

Tr == Traces[tid]
RowsOf(r) == [j \in 1..Len(r) |-> <<r[j][1], r[j][2]>>]

TInit == /\ tid \in 1..NTraces
         /\ parts = Tr.parts /\ extra = Tr.extra
         /\ k = 0 /\ txt = <<>> /\ rows = <<>> /\ overlaps = <<>>
         /\ drift = FALSE /\ fin = FALSE

\* a list with one part is returned as it is, logits shrunk to the text length
First == /\ k = 0 /\ k' = 1
         /\ LET s == Tr.steps[1]
            IN /\ s.outcome = "ok"
               /\ s.text = parts[1] /\ Len(s.rows) = Len(parts[1])
               /\ txt' = s.text /\ rows' = RowsOf(s.rows) /\ overlaps' = <<>>
               /\ drift' = (RowsOf(s.rows) # Tags(1, Len(parts[1])))
         /\ UNCHANGED <<parts, extra>>

TMerge == /\ k >= 1 /\ k < Len(parts) /\ k' = k + 1
          /\ LET s == Tr.steps[k + 1]
                 t == parts[k + 1]
             IN /\ s.outcome = "ok"
                /\ s.o \in 0..Len(t) /\ s.o <= Len(txt)
                /\ StepOK(txt, t, s.o, s.text, Len(s.rows))
                /\ txt' = s.text /\ rows' = RowsOf(s.rows) /\ overlaps' = Append(overlaps, s.o)
                /\ LET m == MergeTwo(txt, rows, t, Shrunk(k + 1), s.o)
                   IN drift' = (drift \/ s.o # BestOverlap(txt, t) \/ s.text # m[1] \/ RowsOf(s.rows) # m[2])
          /\ UNCHANGED <<parts, extra>>

\* the caller's result is the merge of all parts, with one logits row per character
Finish == /\ k = Len(parts) /\ ~fin /\ fin' = TRUE
          /\ Tr.final.outcome = "ok"
          /\ Tr.final.text = txt /\ Len(Tr.final.rows) = Len(txt)
          /\ drift' = (drift \/ RowsOf(Tr.final.rows) # rows)
          /\ UNCHANGED <<parts, extra, k, txt, rows, overlaps>>

TNext == UNCHANGED tid /\ ((First /\ UNCHANGED fin) \/ (TMerge /\ UNCHANGED fin) \/ Finish)
\* progress: number of merged parts (= Len(parts) when only the caller's final result is wrong); 1000 = statement holds, drift
TAccept == TKMark(tid, IF fin THEN 1000 ELSE k, fin /\ ~drift)
TPost == TKPost
ASSUME TKReset
=============================================================================
