"""LAYOUTCHAIN - growth beyond the listed properties (DESIGN.md sections 8 and 12.5): the chain of layout stages of
PageParser.process_page (LAYOUT_PARSER_1..9).  TLC checks spec/LayoutChain.tla for every chain x environment x input page within
the bounds; the same initial states are executed on the real WholePageRegion / LayoutExtractor / LineFilter /
TextlineExtractorSimple / LinePostprocessor (+ real PostprocessingEngine) / LayoutPostprocessor, driven by the real
PageParser.process_page around stub detection engines, and each recorded run (structure after every stage) is validated by
LayoutChain_Trace with Legacy=TRUE (= current behaviour).

Not a listed property: a rejected run is printed as LAYOUTCHAIN-MISMATCH and makes the command exit 1, no VIOLATION line for a
property id is produced."""
import itertools
import random

import numpy as np

from ..core import pmap

LEVEL = "model_checking"
NS = 2
W, H = 100 * NS, 100
ALL = 99
INVS = ["TypeOK", "UniqueRegionIds", "UniqueLineIds", "LinesInOwnRegion", "FilterPost", "WholePost", "CnnPost", "OnlyDocumentedErrors"]
STRETCH = 2


def stage(m, a=False, b=False, c=False, v=""):
    return {"m": m, "a": a, "b": b, "c": c, "v": v}


STAGES = ([stage("WHOLE")] + [stage("CNN", a, b, c) for a in (False, True) for b in (False, True) for c in (False, True)]
          + [stage("FILTER", a, b) for a in (False, True) for b in (False, True)] + [stage("SIMPLE")]
          + [stage("LPOST", v=v) for v in ("stretch", "resample", "hfr", "max")] + [stage("LAYPOST")])


def det_lines():
    out = [{"k": "edge", "lo": 0, "hi": 0}, {"k": "none", "lo": 0, "hi": 0}]
    out += [{"k": "short", "lo": s, "hi": s} for s in range(NS)]
    out += [{"k": "long", "lo": lo, "hi": hi} for lo in range(NS) for hi in range(lo, NS)]
    return out


def seqs_up_to(items, n):
    for k in range(n + 1):
        for t in itertools.product(items, repeat=k):
            yield list(t)


def in_pages(max_r):
    def regions(i):
        name = "ABC"[i]
        for s in range(NS):
            yield {"id": name, "slot": s, "lines": []}
            for q in (("edge", "short", "long") if s == 0 else ("short", "long")):
                yield {"id": name, "slot": s, "lines": [{"id": name + "-l001", "rid": name, "q": q}]}
    for n in range(max_r + 1):
        for p in itertools.product(*[list(regions(i)) for i in range(n)]):
            yield list(p)


def cases(max_stages, max_p, max_l, max_r, max_ks):
    dets = [{"polys": p, "lines": l} for p in seqs_up_to(range(NS), max_p) for l in seqs_up_to(det_lines(), max_l)]
    pages = list(in_pages(max_r))
    for n in range(1, max_stages + 1):
        for chain in itertools.product(STAGES, repeat=n):
            ds = dets if any(s["m"] == "CNN" for s in chain) else [{"polys": [], "lines": []}]
            kss = range(max_ks + 1) if any(s["m"] == "SIMPLE" for s in chain) else [0]
            for d in ds:
                for ks in kss:
                    for page in pages:
                        yield {"chain": list(chain), "det": d, "ks": ks, "page": page}


# ----------------------------------------------------------------------------------------------- geometry
def box(s):
    return np.array([[100 * s, 0], [100 * s + 80, 0], [100 * s + 80, 80], [100 * s, 80]], dtype=np.float64)


def line_geom(k, lo, hi, idx):
    y = 12 + 10 * idx
    if k == "edge":
        x0, x1 = 5, 15
    elif k == "short":
        x0, x1 = 100 * lo + 30, 100 * lo + 40
    elif k == "long":
        x0, x1 = 100 * lo + 30, 100 * hi + 70
    else:
        x0, x1 = -60, -30
    b = np.array([[x0, y], [x1, y]], dtype=np.float64)
    t = np.array([[x0, y - 4], [x1, y - 4], [x1, y + 2], [x0, y + 2]], dtype=np.float64)
    return b, [4.0, 2.0], t


def classify(baseline):
    xs = np.asarray(baseline)[:, 0]
    if xs.min() < 20 and xs.max() <= 25:
        return "edge"
    return "short" if xs.max() - xs.min() < 25 else "long"


def project(pl):
    out = []
    for r in pl.regions:
        poly = np.asarray(r.polygon)
        slot = ALL if poly[:, 0].max() - poly[:, 0].min() > 90 else int(poly[:, 0].min() // 100)
        lines = []
        for ln in r.lines:
            rid = ln.id.rsplit("-l", 1)[0] if "-l" in ln.id else "?"
            lines.append({"id": ln.id, "rid": rid, "q": classify(ln.baseline)})
        out.append({"id": r.id, "slot": slot, "lines": lines})
    return out


class StubLayoutEngine:
    def __init__(self, det):
        self.det = det

    def detect(self, img, rot=0):
        g = [line_geom(l["k"], l["lo"], l["hi"], i) for i, l in enumerate(self.det["lines"])]
        return [box(p) for p in self.det["polys"]], [x[0] for x in g], [x[1] for x in g], [x[2] for x in g]


class StubSimpleEngine:
    def __init__(self, ks):
        self.ks = ks

    def detect_lines(self, img, polygon):
        x0 = float(np.asarray(polygon)[:, 0].min())
        g = [line_geom("long", 0, 0, 4 + i) for i in range(self.ks)]
        return [x[0] + [x0, 0] for x in g], [x[1] for x in g], [x[2] + [x0, 0] for x in g]


class Recorder:
    def __init__(self, inner, rec):
        self.inner, self.rec = inner, rec

    def process_page(self, img, page_layout):
        try:
            out = self.inner.process_page(img, page_layout)
        except Exception as ex:
            self.rec.append({"outcome": type(ex).__name__, "page": []})
            raise
        self.rec.append({"outcome": "running", "page": project(out)})
        return out


def build_stage(cfg, case):
    from pero_ocr.document_ocr import page_parser as pp
    from pero_ocr.layout_engines.line_postprocessing_engine import PostprocessingEngine
    m = cfg["m"]
    if m == "WHOLE":
        return pp.WholePageRegion(None)
    if m == "CNN":
        st = pp.LayoutExtractor.__new__(pp.LayoutExtractor)
        st.detect_regions, st.detect_lines, st.multi_orientation = cfg["a"], cfg["b"], cfg["c"]
        st.merge_lines = st.adjust_heights = st.adjust_baselines = st.detect_straight_lines_in_regions = False
        st.engine = StubLayoutEngine(case["det"])
        return st
    if m == "FILTER":
        st = pp.LineFilter.__new__(pp.LineFilter)
        st.filter_directions = False
        st.filter_incomplete_pages, st.filter_pages_with_short_lines = cfg["a"], cfg["b"]
        st.length_threshold = 25
        return st
    if m == "SIMPLE":
        st = pp.TextlineExtractorSimple.__new__(pp.TextlineExtractorSimple)
        st.engine = StubSimpleEngine(case["ks"])
        return st
    if m == "LPOST":
        st = pp.LinePostprocessor.__new__(pp.LinePostprocessor)
        v = cfg["v"]
        st.engine = PostprocessingEngine(stretch_lines="max" if v == "max" else (STRETCH if v == "stretch" else 0),
                                         resample_lines=v == "resample", heights_from_regions=v == "hfr")
        return st
    if m == "LAYPOST":
        st = pp.LayoutPostprocessor.__new__(pp.LayoutPostprocessor)
        st.retrace_regions = False
        return st
    raise ValueError(m)


def execute(case):
    import contextlib
    import io
    import logging
    logging.disable(logging.CRITICAL)
    from pero_ocr.core.layout import PageLayout, RegionLayout, TextLine
    from pero_ocr.document_ocr.page_parser import PageParser
    pl = PageLayout(id="p", page_size=(H, W))
    for r in case["page"]:
        reg = RegionLayout(r["id"], box(r["slot"]))
        for i, ln in enumerate(r["lines"]):
            k = ln["q"]
            b, h, t = line_geom(k, r["slot"], r["slot"], 6 + i)
            if k == "long":          # a supplied long line lies inside its region
                b[:, 0] = [100 * r["slot"] + 10, 100 * r["slot"] + 70]
                t[:, 0] = [b[0, 0], b[1, 0], b[1, 0], b[0, 0]]
            reg.lines.append(TextLine(id=ln["id"], baseline=b, polygon=t, heights=h))
        pl.regions.append(reg)
    rec = dict(case)
    rec["page"] = project(pl)
    assert rec["page"] == case["page"], (rec["page"], case["page"])
    steps = []
    parser = PageParser.__new__(PageParser)
    parser.run_layout_parser, parser.run_line_cropper, parser.run_ocr, parser.run_decoder = True, False, False, False
    parser.filter_confident_lines_threshold = -1
    parser.layout_parsers = [Recorder(build_stage(c, case), steps) for c in case["chain"]]
    parser.line_cropper = parser.ocr = parser.decoder = None
    try:
        with contextlib.redirect_stdout(io.StringIO()):
            parser.process_page(np.zeros((H, W, 3), dtype=np.uint8), pl)
        rec["outcome"] = "ok"
    except Exception as ex:
        rec["outcome"] = type(ex).__name__
    rec["steps"] = steps
    return rec


def bounds(tier):
    # (MaxStages, MaxP, MaxL, MaxR, MaxKs)
    return (2, 1, 1, 1, 1) if tier == "quick" else (3, 1, 1, 1, 1)


def consts(b, legacy):
    return {"NS": NS, "MaxStages": b[0], "MaxP": b[1], "MaxL": b[2], "MaxR": b[3], "MaxKs": b[4], "Legacy": legacy}


def sampled(rng, n):
    """chains of 3..4 stages with richer environments (2 polygons, up to 3 detected lines, 2 input regions, 2 simple lines)"""
    dl = det_lines()
    pages = list(in_pages(2))
    out = []
    for _ in range(n):
        chain = [rng.choice(STAGES) for _ in range(rng.choice((3, 4)))]
        det = {"polys": [rng.randrange(NS) for _ in range(rng.randrange(3))], "lines": [rng.choice(dl) for _ in range(rng.randrange(4))]}
        if not any(s["m"] == "CNN" for s in chain):
            det = {"polys": [], "lines": []}
        ks = rng.randrange(3) if any(s["m"] == "SIMPLE" for s in chain) else 0
        out.append({"chain": chain, "det": det, "ks": ks, "page": rng.choice(pages)})
    return out


def run(ctx):
    b = bounds(ctx.tier)
    ctx.rule = ("every chain of 1..%d layout stages (19 stage configurations) x detector output (<= %d polygons, <= %d lines of 7 "
                "geometry classes) x simple-extractor count x input page (<= %d regions); non-trivial = the chain changed the page "
                "structure or ended in an exception" % (b[0], b[1], b[2], b[3]))
    ctx.exhaustive = True
    ctx.tlc("LayoutChain", constants=consts(b, False), invariants=INVS, properties=["Terminates", "PostprocKeepsRegions"], spec="Spec",
            label="LayoutChain intended behaviour")
    qb = (2, 1, 1, 1, 1)
    ctx.tlc("LayoutChain", constants=consts(qb, True), invariants=INVS, spec="Spec", expect_violation="OnlyDocumentedErrors",
            label="LayoutChain legacy (NameError / TypeError of LinePostprocessor)")
    ctx.tlc("LayoutChain", constants=consts(qb, False), invariants=["UniqueLineIdsAlways"], spec="Spec",
            expect_violation="UniqueLineIdsAlways", label="LayoutChain: the simple extractor appends to regions that already have lines")
    cs = list(cases(*b))
    rng = random.Random(1000 + ctx.seed)
    cs += sampled(rng, 4000 if ctx.tier == "quick" else 40000)
    execute(cs[0])
    traces = pmap(execute, cs)
    tb = (4, 2, 3, 2, 2)
    acc, rej = ctx.validate("LayoutChain_Trace", traces, constants=consts(tb, True))
    for tr in traces:
        nt = tr["outcome"] != "ok" or (tr["steps"] and tr["steps"][-1]["page"] != tr["page"])
        ctx.count(1, repr((tr["chain"], tr["det"], tr["ks"], tr["page"])) if nt else None)
    ctx.sample(traces[len(traces) // 3])
    ctx.sample(traces[-1])
    good = next(t for t in traces if t["outcome"] == "ok" and t["steps"][-1]["page"] and t["steps"][-1]["page"][0]["lines"])
    def corrupt(t):
        t["steps"][-1]["page"][0]["lines"][0]["id"] += "x"
        return t
    ctx.selftest_corrupt("LayoutChain_Trace", good, corrupt, constants=consts(tb, True))
    for idx, prog in rej:
        tr = traces[idx]
        print("LAYOUTCHAIN-MISMATCH stage=%d case=%s" % (prog, {k: tr[k] for k in ("chain", "det", "ks", "page", "outcome", "steps")}))
        ctx.violations.append({"signature": "layoutchain", "what": "run is not a behaviour of LayoutChain.tla", "replay": None})
    errs = sorted({t["outcome"] for t in traces})
    ctx.notes["outcomes"] = errs
    ctx.notes["explanation"] = ("TLC on LayoutChain.tla + every initial state of the bounded model and %d sampled longer chains executed "
                                "on the real layout stages via PageParser.process_page; validated stage by stage by LayoutChain_Trace "
                                "with Legacy=TRUE (current behaviour)" % (4000 if ctx.tier == "quick" else 40000))


def replay(ctx, case):
    tr = execute(case)
    acc, rej = ctx.validate("LayoutChain_Trace", [tr], constants=consts((4, 2, 3, 2, 2), True))
    if rej:
        print("LAYOUTCHAIN-MISMATCH", tr)
        ctx.violations.append({"signature": "layoutchain", "what": "mismatch", "replay": None})
